"""Checks for the simulator-level properties C01-C05, C07, C08, C10, C12 (and the sim legs of C09,
C11): property-scoped observations for the correspondence and direct predicates on the
implementation's trace."""
import copy
import random
from collections import Counter, defaultdict

import elcheck
import simgen
import simimpl
from common import bitsf, bitsv3, fbits, stable_hash, TICK
from framework import Check
from simcheck import SimCheck, parse, afters, completed, first_diff

INT = int


def is_int(x):
    return isinstance(x, int) and not isinstance(x, bool)


def cb_tuple(c):
    return [c["n"], c["kind"], c["key"], c["t"]]


def req_entries(trace):
    return [e for e in trace if e[0] == "req"]


# ------------------------------------------------------------------------------------------------
class WithEL(SimCheck):
    """a check with an EventLoop-history leg (cases of kind 'el') beside simulator scenarios"""
    el_quick = 400
    el_thorough = 20000
    el_enum_len = 0

    def generate(self, seed, tier):
        n = self.el_quick if tier == "quick" else self.el_thorough
        for i in range(n):
            h = elcheck.gen_history(stable_hash(self.prop, "el", seed, i), max_ops=60 if tier == "quick" else 400)
            h["label"] = f"el/{seed}/{i}"
            yield h
        if tier == "thorough" and self.el_enum_len:
            for h in elcheck.enumerate_histories(self.el_enum_len):
                h["label"] = "el/enum"
                yield h
        yield from super().generate(seed, tier)

    def run_impl(self, case):
        if case.get("kind") == "el":
            return elcheck.run_impl(case)
        return super().run_impl(case)

    def model_input(self, case, impl):
        if case.get("kind") == "el":
            return {"kind": "el", "ops": case["ops"]}
        return super().model_input(case, impl)

    def compare(self, case, impl, model):
        if case.get("kind") == "el":
            a, b = self.el_obs(case, impl["results"]), self.el_obs(case, model["results"])
            return [] if a == b else [first_diff(a, b)]
        return super().compare(case, impl, model)

    def el_obs(self, case, results):
        return results

    def oracle(self, case, impl):
        if case.get("kind") == "el":
            return elcheck.oracle(case, impl, self.prop)
        return self.sim_oracle(case, impl)

    def nontrivial(self, case, impl):
        if case.get("kind") == "el":
            return elcheck.nontrivial(case, impl, self.prop)
        return self.sim_nontrivial(case, impl)

    def key(self, case, impl):
        if case.get("kind") == "el":
            return str(case["ops"])
        return super().key(case, impl)

    def sample(self, case, impl):
        if case.get("kind") == "el":
            return {"label": case.get("label"), "ops": case["ops"][:30], "results": impl["results"][:30]}
        return super().sample(case, impl)

    def stats(self, case, impl, acc):
        if case.get("kind") == "el":
            acc["el_histories"] = acc.get("el_histories", 0) + 1
            acc["el_ops"] = acc.get("el_ops", 0) + len(case["ops"])
            for r in impl["results"]:
                if r in ("past", "empty"):
                    acc["el_refused_" + r] = acc.get("el_refused_" + r, 0) + 1
            return
        super().stats(case, impl, acc)

    def shrink(self, case, still_fails):
        if case.get("kind") != "el":
            return super().shrink(case, still_fails)
        best = case
        changed = True
        while changed:
            changed = False
            for i in range(len(best["ops"]) - 1, -1, -1):
                cand = dict(best)
                cand["ops"] = best["ops"][:i] + best["ops"][i + 1:]
                if still_fails(cand):
                    best = cand
                    changed = True
        return best


# ------------------------------------------------------------------------------------------------
class C01(WithEL):
    prop = "C01"
    level_text = ("Theorems over every reachable world of the simulator model, for every protocol program: the queue never "
                  "holds the past, executed timestamps and reported callback times never decrease, callbacks report their "
                  "event's due time, past requests are refused without effect; the same for every EventLoop API history. "
                  "The model is tied to the code by running both on generated scenarios and histories.")
    rule = ("EventLoop API histories over a 2-6 value timestamp alphabet (ties, past requests) + full simulations with "
            "seeded table-driven protocols mixing timers, sends, broadcasts, mobility, zero delays; non-trivial = a "
            "request issued from inside a callback for the current instant was accepted AND a past request was refused "
            "(el: a refused op and a queue of >= 4)")
    assumptions = ["a TimerHandler is configured where callback times are judged (without one current_time() is 0 by design)",
                   "times are dyadic (ticks/1024), so float and integer clocks coincide"]
    force_cfg = {"hasTimer": True, "failRate": fbits(0.0), "defaultRange": fbits(1.0e6)}
    profile = {"w": {"setTimer": 5, "cancelTimer": 0, "send": 3, "broadcast": 2, "goto": 1, "setSpeed": 0.5,
                     "setRange": 0, "gotoGeo": 0}}

    def tweak(self, r, scn):
        if r.random() < 0.3:
            # far regime: timeline around 2^31 ticks; "one tick in the past" is then only 5e-10 away
            # relatively - it must still be refused
            simgen.set_handler(scn["cfg"], "mobility", False)
            scn["profile"]["base"] = 2 ** 31
            scn["profile"]["offsets"] = [0, 0, 1, 512, 1024, 1024, 2048, -1, -1, -512]
            if scn["cfg"]["duration"] is not None:
                scn["cfg"]["duration"] += 2 ** 31
        elif r.random() < 0.25:
            scn = simgen.make_fine(scn)
        elif r.random() < 0.25:
            scn = simgen.make_decimal(scn)
        elif r.random() < 0.3:
            scn = simgen.make_bigint(scn, r)
        return scn

    def obs(self, case, res):
        cbs = parse(res["trace"])
        times = sorted(cb_tuple(c) + [[r[0], r[1]] for r in c["reqs"] if r[0][0] == "setTimer"] for c in cbs)
        return {"callbacks": times, "after": sorted(a[1] for a in afters(res["trace"]))}

    def sim_oracle(self, case, impl):
        cfg = case["cfg"]
        fails = self.crash_fail(impl)
        cbs = parse(impl["trace"])
        last = None
        for c in cbs:
            if not is_int(c["t"]):
                fails.append(("C01:non-tick-time", f"callback {cb_tuple(c)} reports a time that is not a tick"))
                continue
            if last is not None and c["t"] < last:
                fails.append(("C01:time-decreased", f"callback {cb_tuple(c)} reports {c['t']} after {last}"))
            last = c["t"]
        la = None
        for it, ts in afters(impl["trace"]):
            if la is not None and is_int(ts) and ts < la:
                fails.append(("C01:time-decreased", f"executed event at {ts} after one at {la}"))
            la = ts if is_int(ts) else la
        if not cfg["hasTimer"]:
            return fails
        # telemetry is due at the mobility tick that produced it: the k-th update is at k * interval, so the
        # telemetry rounds of a node are at interval, 2 * interval, ... without a gap and without a lag
        if cfg["hasMob"] and cfg["dt"] > 0:
            for node in range(cfg["nNodes"]):
                times = [c["t"] for c in cbs if c["kind"] == "telemetry" and c["n"] == node and is_int(c["t"])]
                for k, t in enumerate(times):
                    if t != (k + 1) * cfg["dt"]:
                        fails.append(("C01:telemetry-not-at-its-tick", f"telemetry #{k + 1} of node {node} handled at {t}; the "
                                      f"update that produced it was due at {(k + 1) * cfg['dt']} (interval {cfg['dt']})"))
                        break
        pend = defaultdict(list)      # (n, name) -> requested times of accepted timers
        sent = {}                     # msg -> send time
        delay = max(cfg["delay"], 0)
        for c in cbs:
            t = c["t"]
            if not is_int(t):
                continue
            if c["kind"] == "initialize" and t != 0:
                fails.append(("C01:initialize-time", f"initialize of node {c['n']} observes {t}"))
            if c["kind"] == "timer":
                if t in pend[(c["n"], c["key"])]:
                    pend[(c["n"], c["key"])].remove(t)
                else:
                    fails.append(("C01:timer-not-at-due-time",
                                  f"timer {c['key']} fired on node {c['n']} at {t}; requested times pending: {pend[(c['n'], c['key'])]}"))
            if c["kind"] == "packet":
                if c["key"] in sent and (t - delay) not in sent[c["key"]]:
                    fails.append(("C01:packet-not-at-due-time",
                                  f"packet {c['key']} sent at {sent[c['key']]} with delay {delay} handled at {t}"))
            if c["kind"] == "telemetry" and cfg["dt"] > 0 and (t <= 0 or t % cfg["dt"] != 0):
                fails.append(("C01:telemetry-not-at-tick", f"telemetry on node {c['n']} at {t}, interval {cfg['dt']}"))
            for req, ok, _ in c["reqs"]:
                if req[0] == "setTimer":
                    if req[2] < t and ok:
                        fails.append(("C01:past-accepted", f"timer for {req[2]} accepted at time {t}"))
                    if req[2] >= t and not ok:
                        fails.append(("C01:valid-refused", f"timer for {req[2]} refused at time {t}"))
                    if ok:
                        pend[(c["n"], req[1])].append(req[2])
                elif req[0] == "cancelTimer" and ok:
                    pend[(c["n"], req[1])] = []
                elif req[0] in ("send", "broadcast") and ok:
                    sent.setdefault(req[1], []).append(t)
        return fails

    def sim_nontrivial(self, case, impl):
        same, past = False, False
        for c in parse(impl["trace"]):
            for req, ok, _ in c["reqs"]:
                if req[0] == "setTimer":
                    if ok and req[2] == c["t"]:
                        same = True
                    if not ok:
                        past = True
        return same and past


# ------------------------------------------------------------------------------------------------
def run_custom_handler_case(case):
    """A user-written handler (public INodeHandler API) that schedules follow-up work on the injected
    event loop from its after-step hook - also from the step that emptied the queue. Outside the Lean
    model (its hooks do nothing there): judged by the direct predicate only."""
    from gradysim.protocol.interface import IProtocol
    from gradysim.simulator.handler.interface import INodeHandler
    from gradysim.simulator.handler.timer import TimerHandler
    from gradysim.simulator.simulation import SimulationBuilder, SimulationConfiguration
    accepted, executed, refused = [], [], []

    class Deferred(INodeHandler):
        @staticmethod
        def get_label():
            return "deferred"

        def inject(self, event_loop):
            self.loop = event_loop

        def register_node(self, node):
            pass

        def after_simulation_step(self, iteration, timestamp):
            for delay in case["script"].get(str(iteration), []):
                name = f"job{len(accepted) + len(refused)}@{iteration}"
                try:
                    self.loop.schedule_event(timestamp + delay / TICK, lambda n=name: executed.append(n), name)
                    accepted.append(name)
                except Exception:
                    refused.append(name)

    class P(IProtocol):
        def initialize(self):
            for t in case["timers"]:
                self.provider.schedule_timer(f"t{t}", t / TICK)
                accepted.append(f"t{t}")

        def handle_timer(self, timer):
            executed.append(timer)

        def handle_packet(self, message): pass
        def handle_telemetry(self, telemetry): pass
        def finish(self): pass

    crash = None
    try:
        b = SimulationBuilder(SimulationConfiguration(execution_logging=False, max_iterations=500))
        for h in (case["order"] and [Deferred(), TimerHandler()] or [TimerHandler(), Deferred()]):
            b.add_handler(h)
        b.add_node(P, (0.0, 0.0, 0.0))
        sim = b.build()
        simimpl.quiet_logging()
        if case["stepped"]:
            while sim.step_simulation():
                pass
        else:
            sim.start_simulation()
    except Exception as e:
        crash = f"{type(e).__name__}: {e}"
    finally:
        simimpl.quiet_logging()
    return {"accepted": accepted, "executed": executed, "refused": refused, "crash": crash}


class C02(WithEL):
    prop = "C02"
    level_text = ("Theorems: for every EventLoop API history popped++queued++dropped is a permutation of the accepted "
                  "requests, len conservation, refused calls are no-ops, peek is non-destructive; for every simulator run "
                  "executed++queued is a duplicate-free permutation of the accepted requests. Tied to the code by "
                  "differential execution.")
    el_enum_len = 5
    rule = ("EventLoop API histories (up to 400 ops, interleaved clears; thorough: every history of <= 5 ops over 3 "
            "timestamps) + simulations run to exhaustion; non-trivial = queue size >= 4 at some point and >= 1 refused op "
            "(sim: run to exhaustion with >= 8 executed events)")
    force_cfg = {"hasMob": False, "duration": None, "maxIter": None, "hasTimer": True, "failRate": fbits(0.0),
                 "defaultRange": fbits(1.0e6)}
    profile = {"w": {"setTimer": 5, "cancelTimer": 0.6, "send": 3, "broadcast": 2, "goto": 0, "setSpeed": 0,
                     "setRange": 0, "gotoGeo": 0}}
    drive = None       # blocking start, or stepped (then an external controller may act between steps)

    def tweak(self, r, scn):
        if scn["drive"]["mode"] == "steps":
            scn["drive"]["n"] = r.choice([400, 400, 60])      # usually enough to run to exhaustion
        return scn

    def generate(self, seed, tier):
        n = 40 if tier == "quick" else 1500
        for i in range(n):
            r = random.Random(stable_hash("custom", seed, i))
            k = r.randint(1, 4)
            timers = sorted({r.choice([0, 512, 1024, 2048, 3072]) for _ in range(k)})
            # iterations after which the handler defers work; the LAST timer's iteration is always there
            its = {str(len(timers) - 1): [r.choice([0, 512, 1024])]}
            for _ in range(r.randint(0, 3)):
                its.setdefault(str(r.randint(0, len(timers) + 3)), []).append(r.choice([0, 0, 512, 2048]))
            yield {"kind": "custom", "timers": timers, "script": its, "order": r.random() < 0.5,
                   "stepped": r.random() < 0.5, "label": f"custom/{seed}/{i}"}
        yield from super().generate(seed, tier)

    def run_impl(self, case):
        if case.get("kind") == "custom":
            return run_custom_handler_case(case)
        return super().run_impl(case)

    def model_input(self, case, impl):
        if case.get("kind") == "custom":
            return None
        return super().model_input(case, impl)

    def oracle(self, case, impl):
        if case.get("kind") != "custom":
            return super().oracle(case, impl)
        fails = []
        if impl["crash"]:
            return [("C02:crash:" + impl["crash"].split(":")[0], impl["crash"])]
        acc, ex = Counter(impl["accepted"]), Counter(impl["executed"])
        for name in acc:
            if ex[name] != acc[name]:
                fails.append(("C02:lost" if ex[name] < acc[name] else "C02:duplicate-or-invented",
                              f"run to exhaustion with a handler deferring work from its after-step hook: accepted request "
                              f"{name} executed {ex[name]} time(s); accepted {sorted(acc)} executed {sorted(ex)}"))
        for name in ex:
            if name not in acc:
                fails.append(("C02:duplicate-or-invented", f"callback {name} ran but was never accepted"))
        return fails

    def nontrivial(self, case, impl):
        if case.get("kind") == "custom":
            return len(impl["accepted"]) >= 3
        return super().nontrivial(case, impl)

    def key(self, case, impl):
        if case.get("kind") == "custom":
            return str(case["timers"]) + str(case["script"])
        return super().key(case, impl)

    def sample(self, case, impl):
        if case.get("kind") == "custom":
            return {"label": case["label"], "timers": case["timers"], "script": case["script"], "executed": impl["executed"]}
        return super().sample(case, impl)

    def stats(self, case, impl, acc):
        if case.get("kind") == "custom":
            acc["custom_handler_runs"] = acc.get("custom_handler_runs", 0) + 1
            return
        super().stats(case, impl, acc)

    def shrink(self, case, still_fails):
        if case.get("kind") == "custom":
            return case
        return super().shrink(case, still_fails)

    def obs(self, case, res):
        cbs = parse(res["trace"])
        return {"executed": len(afters(res["trace"])), "callbacks": sorted(cb_tuple(c) for c in cbs)}

    def sim_oracle(self, case, impl):
        fails = self.crash_fail(impl)
        cbs = parse(impl["trace"])
        acc_t, fired = Counter(), Counter()
        sent, got = Counter(), Counter()
        for c in cbs:
            if c["kind"] == "timer":
                fired[(c["n"], c["key"], c["t"])] += 1
            if c["kind"] == "packet":
                got[(c["n"], c["key"])] += 1
            if c["kind"] == "finish":
                continue          # requests made while finishing are never due before termination
            for req, ok, _ in c["reqs"]:
                if req[0] == "setTimer" and ok:
                    acc_t[(c["n"], req[1], req[2])] += 1
                if req[0] in ("send", "broadcast") and ok:
                    sent[req[1]] += 1
        for k, v in fired.items():
            if v > acc_t[k]:
                fails.append(("C02:duplicate-or-invented", f"timer {k} fired {v} times, requested {acc_t[k]} times"))
        for (n, m), v in got.items():
            if v > sent[m]:
                fails.append(("C02:duplicate-or-invented", f"message {m} handled {v} times on node {n}, sent {sent[m]} times"))
        if completed(case, impl) and case["cfg"]["duration"] is None and case["cfg"]["maxIter"] is None:
            # nothing is lost: a run that ended by exhaustion made the callback of every accepted timer request
            # whose (node, name) was never cancelled in the whole run
            owed = defaultdict(Counter)       # (node, name) -> times of the accepted timers not cancelled since
            for c in cbs:
                if c["kind"] == "timer" and owed[(c["n"], c["key"])][c["t"]] > 0:
                    owed[(c["n"], c["key"])][c["t"]] -= 1
                if c["kind"] == "finish":
                    continue
                for req, ok, _ in c["reqs"]:
                    if req[0] == "cancelTimer" and ok:
                        owed[(c["n"], req[1])].clear()
                    elif req[0] == "setTimer" and ok:
                        owed[(c["n"], req[1])][req[2]] += 1
            for (node, name), left in owed.items():
                for ts, v in left.items():
                    if v > 0:
                        fails.append(("C02:lost", f"timer ({node}, {name!r}, {ts}) was accepted and not cancelled afterwards, "
                                      f"but {v} of its callbacks never ran in a run that ended by exhaustion"))
        if case["drive"]["mode"] == "steps" and case["cfg"]["handlers"] and not case["drive"].get("untilDone"):
            # a step_simulation call that reports "still running" (or out of which a callback's exception escaped)
            # executed exactly one event; only the call that completes the run may execute one and report the end
            trues = sum(1 for x in impl["rets"] if x)
            done = len(afters(impl["trace"])) + len(impl.get("raisedAt", []))
            if not (trues <= done <= trues + 1):
                fails.append(("C02:step-without-event", f"{trues} step_simulation calls reported a running simulation "
                              f"but {done} events were executed"))
        if completed(case, impl) and case["cfg"]["handlers"]:
            # an event whose callback let an exception escape was executed, but its after-step hooks were not reached
            executed = len(afters(impl["trace"])) + len(impl.get("raisedAt", []))
            expected = sum(acc_t.values()) + sum(got.values())
            if executed != expected:
                fails.append(("C02:event-count", f"run to exhaustion executed {executed} events; accepted timers + "
                              f"deliveries = {expected}"))
        return fails

    def sim_nontrivial(self, case, impl):
        return completed(case, impl) and len(afters(impl["trace"])) >= 8


# ------------------------------------------------------------------------------------------------
def fifo_failures(case, impl):
    """C03 on a simulator trace: among timer and packet callbacks due at the same instant, handling
    order = request order (broadcast copies in node order)."""
    fails = []
    pend = defaultdict(list)   # (n, name) -> [(at, request index)]
    sent = {}                  # msg -> request index
    last_t, last_key, last_desc = None, None, None
    for c in parse(impl["trace"]):
        t = c["t"]
        key = None
        if c["kind"] == "timer":
            lst = pend[(c["n"], c["key"])]
            cand = [x for x in lst if x[0] == t]
            if cand:
                lst.remove(cand[0])
                key = (cand[0][1], 0)
        elif c["kind"] == "packet" and sent.get((c["key"], c["n"])):
            key = (sent[(c["key"], c["n"])].pop(0), c["n"])
        if key is not None:
            if last_t == t and last_key is not None and key < last_key:
                fails.append(("C03:tie-order", f"at time {t}: {cb_tuple(c)} (request #{key[0]}) handled after "
                              f"{last_desc} (request #{last_key[0]})"))
            last_t, last_key, last_desc = t, key, cb_tuple(c)
        for req, ok, i in c["reqs"]:
            if req[0] == "setTimer" and ok:
                pend[(c["n"], req[1])].append((req[2], i))
            elif req[0] == "cancelTimer" and ok:
                pend[(c["n"], req[1])] = []
            elif req[0] == "send" and ok:
                sent.setdefault((req[1], req[2]), []).append(i)
            elif req[0] == "broadcast" and ok:
                for d in range(case["cfg"]["nNodes"]):
                    if d != c["n"]:
                        sent.setdefault((req[1], d), []).append(i)
    return fails


class C03(WithEL):
    prop = "C03"
    level_text = ("Theorems: executed events are strictly increasing in (timestamp, request order) along every run and every "
                  "API history, hence FIFO among equal timestamps; the faithful Lean port of heapq.py is proved to refine the "
                  "sorted-list queue on every history (invariant, permutation, minimality, fuel), and a negative theorem on it "
                  "documents the repaired timestamp-only defect. Tied to the code by differential execution on tie-heavy "
                  "histories and bursts.")
    el_enum_len = 5
    rule = ("tie-heavy EventLoop histories (2-3 timestamps, bursts, removals in between) + simulations with bursts of "
            "same-instant timers and sends on one link; non-trivial = a tie group of size >= 4")
    profile = {"offsets": [0, 0, 1024, 1024, 1024, 2048, 2048], "maxReq": 5, "budget": 80,
               "w": {"setTimer": 6, "cancelTimer": 1, "send": 5, "broadcast": 2, "goto": 0.3, "setSpeed": 0,
                     "setRange": 0, "gotoGeo": 0}}
    force_cfg = {"hasTimer": True, "failRate": fbits(0.0), "defaultRange": fbits(100000.0)}

    def tweak(self, r, scn):
        scn["cfg"]["delay"] = r.choice([0, 1024, 1024, 2048])
        if r.random() < 0.2:
            scn = simgen.make_decimal(scn)       # ties among non-dyadic times (timers and zero-delay messages)
        return scn

    # -- the Lean port of heapq.py against CPython's heapq (validates the transcription the
    #    refinement theorem C03_heapq_refines_sorted_queue is about; both orders, tie-heavy) ----------
    def generate(self, seed, tier):
        n = 150 if tier == "quick" else 5000
        for i in range(n):
            r = random.Random(stable_hash("heapq", seed, i))
            ops, k = [], 0
            for _ in range(r.randint(4, 60)):
                if r.random() < 0.6:
                    ops.append(["push", r.choice([1, 1, 1, 2, 3]), k])
                    k += 1
                else:
                    ops.append(["pop"])
            ops += [["pop"]] * (k // 2)
            yield {"kind": "heapq", "order": r.choice(["ts", "key"]), "ops": ops, "label": f"heapq/{seed}/{i}"}
        yield from super().generate(seed, tier)

    def run_impl(self, case):
        if case.get("kind") != "heapq":
            return super().run_impl(case)
        import heapq

        class Item:
            __slots__ = ("ts", "id")

            def __init__(self, ts, ident):
                self.ts, self.id = ts, ident

            if case["order"] == "ts":
                def __lt__(self, other):
                    return self.ts < other.ts
            else:
                def __lt__(self, other):
                    return (self.ts, self.id) < (other.ts, other.id)
        heap, out = [], []
        for op in case["ops"]:
            if op[0] == "push":
                heapq.heappush(heap, Item(op[1], op[2]))
                out.append("ok")
            else:
                out.append(heapq.heappop(heap).id if heap else None)
        return {"results": out, "layout": [x.id for x in heap], "crash": None}

    def model_input(self, case, impl):
        if case.get("kind") == "heapq":
            return {"kind": "heapq", "order": case["order"], "ops": case["ops"]}
        return super().model_input(case, impl)

    def compare(self, case, impl, model):
        if case.get("kind") == "heapq":
            a, b = [impl["results"], impl["layout"]], [model["results"], model["layout"]]
            return [] if a == b else ["heapq port differs from CPython heapq: " + first_diff(a, b)]
        return super().compare(case, impl, model)

    def oracle(self, case, impl):
        if case.get("kind") == "heapq":
            return []
        return super().oracle(case, impl)

    def nontrivial(self, case, impl):
        if case.get("kind") == "heapq":
            return len(case["ops"]) >= 12
        return super().nontrivial(case, impl)

    def key(self, case, impl):
        if case.get("kind") == "heapq":
            return str(case["ops"]) + case["order"]
        return super().key(case, impl)

    def sample(self, case, impl):
        if case.get("kind") == "heapq":
            return {"label": case["label"], "order": case["order"], "ops": case["ops"][:20], "results": impl["results"][:20]}
        return super().sample(case, impl)

    def stats(self, case, impl, acc):
        if case.get("kind") == "heapq":
            acc["heapq_port_histories"] = acc.get("heapq_port_histories", 0) + 1
            return
        super().stats(case, impl, acc)

    def shrink(self, case, still_fails):
        if case.get("kind") == "heapq":
            return case
        return super().shrink(case, still_fails)

    def obs(self, case, res):
        return [cb_tuple(c) for c in parse(res["trace"]) if c["kind"] in ("timer", "packet")]

    def sim_oracle(self, case, impl):
        return self.crash_fail(impl) + fifo_failures(case, impl)

    def sim_nontrivial(self, case, impl):
        c = Counter((c["t"]) for c in parse(impl["trace"]) if c["kind"] in ("timer", "packet"))
        return any(v >= 4 for v in c.values())


# ------------------------------------------------------------------------------------------------
class C04(SimCheck):
    prop = "C04"
    allow_tolerant = False     # its exactness clause compares with a second, unbounded run
    level_text = ("Theorems for every configuration and program: the termination predicate spelled out; every executed event "
                  "is within the duration and below the iteration limit; no callback (finish included) observes a time after "
                  "the duration; a live step within both bounds executes exactly the head event (events AT the duration run); "
                  "completion is reported only at a bound; the executed events of a bounded run are a prefix of those of the "
                  "unbounded run (lock-step invariant). Tied to the code by differential execution and by comparing the bounded "
                  "run with the unbounded run of the same program on the implementation.")
    rule = ("timelines from table-driven protocols against duration in {0, an event time, between, beyond, None} x "
            "max_iterations in {0, 1, k, None}; the bounded run is compared with the unbounded run of the same program on "
            "the implementation; non-trivial = a bound actually cut the run")
    assumptions = ["0 <= duration"]
    drive = None
    force_cfg = {"failRate": fbits(0.0), "defaultRange": fbits(1.0e6)}
    profile = {"w": {"setTimer": 5, "cancelTimer": 0, "send": 3, "broadcast": 2, "goto": 1, "setSpeed": 0.5,
                     "setRange": 0, "gotoGeo": 0}}

    def tweak(self, r, scn):
        cfg = scn["cfg"]
        cfg["duration"] = r.choice([None, 0, 512, 1024, 1536, 2048, 3072, 4096, 5000, 8192])
        cfg["maxIter"] = r.choice([None, None, 0, 1, 2, 7, 25, 60])
        if r.random() < 0.3:
            # far regime: the whole timeline sits around 2^31 ticks (24 simulated days); bounds that
            # differ from event times by one tick are then relatively 1e-9 apart
            base = 2 ** 31
            simgen.set_handler(cfg, "mobility", False)
            scn["profile"]["base"] = base
            cfg["duration"] = base + r.choice([0, 1, 511, 512, 1023, 1024, 1025, 2047, 2048, 3071, 3072, 4096])
            cfg["maxIter"] = r.choice([None, None, 40])
        if cfg["hasMob"] and cfg["duration"] is None and cfg["maxIter"] is None:
            cfg["maxIter"] = 40
        if scn["drive"]["mode"] == "steps":
            scn["drive"]["n"] = r.choice([1, 5, 30, 200, 500])
        return scn

    def obs(self, case, res):
        return {"executed": afters(res["trace"]), "rets": res["rets"] if case["drive"]["mode"] == "steps" else None,
                "finish": [cb_tuple(c) for c in parse(res["trace"]) if c["kind"] == "finish"]}

    def oracle(self, case, impl):
        cfg = case["cfg"]
        fails = self.crash_fail(impl)
        D, N = cfg["duration"], cfg["maxIter"]
        ex = afters(impl["trace"])
        has_handlers = bool(cfg["handlers"])
        for it, ts in ex:
            if D is not None and is_int(ts) and ts > D:
                fails.append(("C04:beyond-duration", f"event at {ts} executed with duration {D}"))
            if N is not None and it >= N:
                fails.append(("C04:beyond-max-iterations", f"iteration {it} executed with max_iterations {N}"))
        if cfg["hasTimer"] and D is not None:
            for c in parse(impl["trace"]):
                if is_int(c["t"]) and c["t"] > D:
                    fails.append(("C04:callback-after-duration", f"callback {cb_tuple(c)} observes a time after the duration {D}"))
        # "in order": by timestamp (checked above through the hooks) and, within one instant, in the order requested
        for _, msg in fifo_failures(case, impl)[:1]:
            fails.append(("C04:not-in-order", msg))
        # exactness: compare with the unbounded run of the same (frozen) program on the implementation
        if has_handlers and not impl.get("crash") and (completed(case, impl)) and not case.get("noRef"):
            ref_case = copy.deepcopy(case)
            ref_case["frozen"] = True
            ref_case["table"] = impl["table"]
            ref_case["cfg"]["draws"] = impl["draws"]
            ref_case["prescribedDraws"] = True
            ref_case["cfg"]["duration"] = None
            ref_case["cfg"]["maxIter"] = len(ex) + 12
            ref_case["drive"] = {"mode": "start"}
            if case.get("between"):
                # an external controller acts between steps: the reference run is stepped as well and gets
                # exactly the requests the controller issued in the bounded run (it stops acting when the
                # simulation reports its end, which the unbounded run does later)
                ref_case["drive"] = {"mode": "steps", "n": max(case["drive"].get("n", 0), len(ex) + 14)}
                ref_case["between"] = copy.deepcopy(impl.get("between", []))
            ref = simimpl.run_impl(ref_case, None, draw_seed=case.get("seed", 0))
            rex = [ts for _, ts in afters(ref["trace"])]
            expected = []
            for i, ts in enumerate(rex):
                if (N is not None and i >= N) or (D is not None and ts > D):
                    break
                expected.append(ts)
            got = [ts for _, ts in ex]
            if got != expected and not ref.get("crash"):
                fails.append(("C04:not-exact", f"executed {len(got)} events (last {got[-3:]}); the unbounded run's events "
                              f"with ts <= {D} and ordinal < {N} are {len(expected)} (last {expected[-3:]})"))
        return fails

    def nontrivial(self, case, impl):
        cfg = case["cfg"]
        ex = afters(impl["trace"])
        if not completed(case, impl):
            return False
        cut_n = cfg["maxIter"] is not None and len(ex) == cfg["maxIter"] and cfg["maxIter"] > 0
        cut_d = cfg["duration"] is not None and len(ex) > 0 and impl.get("table") is not None
        return bool(cut_n or cut_d)


# ------------------------------------------------------------------------------------------------
def lifecycle(trace):
    out = []
    for e in trace:
        if e[0] in ("hinit", "hfinal"):
            out.append([e[0], e[1]])
        elif e[0] == "after":
            out.append(["after", e[1], e[2], e[3]])
        elif e[0] == "cb":
            if e[2] in ("initialize", "finish"):
                out.append(["cb", e[1], e[2], e[4]])
            else:
                out.append(["ev"])
    # collapse runs of event callbacks
    res = []
    for x in out:
        if x == ["ev"] and res and res[-1] == ["ev"]:
            continue
        res.append(x)
    return res


class C05(SimCheck):
    prop = "C05"
    level_text = ("Theorem giving the lifecycle projection of the trace of every reachable world in closed form (handler init, "
                  "protocol initialize at 0, after-step fan-out with consecutive iteration numbers and the event's timestamp, "
                  "protocol finish, handler finalize — each exactly once, in that order), plus: a step that returns False "
                  "finalises, further steps are no-ops, blocking start equals any sufficient number of manual steps. Tied to "
                  "the code by differential execution over handler sets, termination causes and driving modes.")
    rule = ("0-3 recording handlers plus any subset of the real timer/communication/mobility handlers, 1-5 nodes, all "
            "termination causes, blocking start vs manual stepping with extra steps after completion, finish callbacks "
            "that schedule timers; non-trivial = >= 2 handlers, >= 2 nodes, the run completed and was stepped further")
    profile = {"pFinish": 0.9, "w": {"setTimer": 5, "cancelTimer": 0, "send": 3, "broadcast": 2, "goto": 1,
                                      "setSpeed": 0.5, "setRange": 0, "gotoGeo": 0}}
    force_cfg = {"failRate": fbits(0.0), "defaultRange": fbits(1.0e6)}

    def tweak(self, r, scn):
        if scn["drive"]["mode"] == "steps":
            scn["drive"]["n"] = r.choice([1, 3, 12, 80, 400, 600])
        if r.random() < 0.12:
            # zero-event runs: nothing is due before the run ends, observed with extra steps
            scn["cfg"]["maxIter"] = 0 if r.random() < 0.5 else scn["cfg"]["maxIter"]
            if scn["cfg"]["maxIter"] != 0:
                scn["cfg"]["duration"] = 0
                scn["profile"]["offsets"] = [1024, 2048, 3072]
                simgen.set_handler(scn["cfg"], "mobility", False)
            scn["drive"] = {"mode": "steps", "n": r.choice([2, 3, 5])}
            scn["simOptions"] = {"profile": r.random() < 0.6}
        return scn

    def obs(self, case, res):
        return {"lifecycle": lifecycle(res["trace"]), "rets": res["rets"] if case["drive"]["mode"] == "steps" else None}

    def oracle(self, case, impl):
        cfg = case["cfg"]
        fails = self.crash_fail(impl)
        if impl.get("crash"):
            return fails
        H, n = cfg["handlers"], cfg["nNodes"]
        lc = lifecycle(impl["trace"])
        started = case["drive"]["mode"] == "start" or case["drive"]["n"] > 0
        if not started:
            if lc:
                fails.append(("C05:shape:activity-before-first-step", str(lc[:3])))
            return fails
        pos = 0

        def expect(seq, what):
            nonlocal pos
            got = lc[pos:pos + len(seq)]
            if got != seq:
                fails.append((f"C05:shape:{what}", f"expected {seq[:6]} at lifecycle position {pos}, got {got[:6]}"))
                return False
            pos += len(seq)
            return True

        if not expect([["hinit", h] for h in H], "handler-initialize"):
            return fails
        if not expect([["cb", i, "initialize", 0 if cfg["hasTimer"] else 0] for i in range(n)], "protocol-initialize"):
            return fails
        it = 0
        while pos < len(lc) and lc[pos][0] in ("ev", "after"):
            if lc[pos] == ["ev"]:
                pos += 1
            if pos >= len(lc) or lc[pos][0] != "after":
                break
            ts = lc[pos][3]
            if not expect([["after", h, it, ts] for h in H], "after-step"):
                return fails
            it += 1
        # "... and that event's timestamp": the callback an executed event made reported the instant the event was
        # due (C01); the hooks that follow it must be given that very instant
        if cfg["hasTimer"] and not impl.get("raisedAt"):
            pending = []
            for e in impl["trace"]:
                if e[0] == "cb" and e[2] in ("timer", "packet", "telemetry"):
                    pending.append(e)
                elif e[0] == "after":
                    bad = [c for c in pending if is_int(c[4]) and c[4] != e[3]]
                    if bad:
                        fails.append(("C05:after-step-timestamp", f"the after-step hook of {e[1]} for iteration {e[2]} was given "
                                      f"timestamp {e[3]} but the event executed in that iteration ran {bad[0][:5]}"))
                        break
                    if e[1] == H[-1]:
                        pending = []
        done = completed(case, impl)
        if done:
            fin = lc[pos:pos + n]
            if [x[:3] for x in fin] != [["cb", i, "finish"] for i in range(n)]:
                fails.append(("C05:shape:protocol-finish", f"expected finish of nodes 0..{n - 1} after the last event, got {lc[pos:pos + n + 2]}"))
                return fails
            pos += n
            if not expect([["hfinal", h] for h in H], "handler-finalize"):
                return fails
            if pos != len(lc):
                fails.append(("C05:shape:activity-after-completion", f"after completion the run still produced {lc[pos:pos + 4]}"))
            if case["drive"]["mode"] == "steps":
                rets = impl["rets"]
                k = rets.index(False)
                if any(rets[k:]):
                    fails.append(("C05:step-after-completion", f"step_simulation returned True after it had returned False: {rets[k:k + 6]}"))
        else:
            if pos != len(lc):
                fails.append(("C05:shape:early-finish", f"run not complete but lifecycle continues with {lc[pos:pos + 4]}"))
        return fails

    def nontrivial(self, case, impl):
        cfg = case["cfg"]
        if len(cfg["handlers"]) < 2 or cfg["nNodes"] < 2 or not completed(case, impl):
            return False
        if case["drive"]["mode"] == "steps":
            rets = impl["rets"]
            return rets.index(False) < len(rets) - 1
        return True


# ------------------------------------------------------------------------------------------------
def timer_failures(case, impl, prefix="C07"):
    """fire exactly once, on time, for the owner, unless cancelled by name; past refused"""
    fails = []
    cfg = case["cfg"]
    pend = defaultdict(list)
    last_t = 0
    for c in parse(impl["trace"]):
        t = c["t"]
        if not is_int(t):
            continue
        if c["kind"] != "finish":
            for k, lst in pend.items():
                late = [a for a in lst if a < t]
                if late:
                    fails.append((f"{prefix}:timer-lost", f"timer {k} requested for {late} has not fired by time {t}"))
                    pend[k] = [a for a in lst if a >= t]
        if c["kind"] == "timer":
            lst = pend[(c["n"], c["key"])]
            if t in lst:
                lst.remove(t)
            else:
                fails.append((f"{prefix}:unexpected-fire", f"handle_timer({c['key']}) on node {c['n']} at {t}: no such "
                              f"pending timer (pending for that node/name: {lst})"))
        for req, ok, _ in c["reqs"]:
            if req[0] == "setTimer":
                if ok and req[2] >= t and c["kind"] != "finish":
                    pend[(c["n"], req[1])].append(req[2])
                elif ok and req[2] < t:
                    fails.append((f"{prefix}:past-accepted", f"timer for {req[2]} accepted at time {t}"))
                elif not ok and req[2] >= t:
                    fails.append((f"{prefix}:valid-refused", f"timer for {req[2]} refused at time {t}"))
            elif req[0] == "cancelTimer":
                if ok:
                    pend[(c["n"], req[1])] = []
                else:
                    fails.append((f"{prefix}:cancel-raised", f"cancel_timer({req[1]}) raised on node {c['n']}"))
        last_t = t
    if completed(case, impl) and cfg["duration"] is None and cfg["maxIter"] is None:
        for k, lst in pend.items():
            if lst:
                fails.append((f"{prefix}:timer-lost", f"run exhausted but timer {k} for {lst} never fired"))
    return fails


class C07(SimCheck):
    prop = "C07"
    level_text = ("Theorems for every program and history: the pending-timer invariant on every reachable world (fresh unique "
                  "ids, every pending timer has exactly one queued event), set/cancel/fire specifications (refusal of the past "
                  "without effect, cancel removes all and only the owner's entries of that name, the fired entry is forgotten "
                  "before the handler runs, handle_timer only from the owner's still-pending event) and run-level counting "
                  "theorems over the trace of every reachable world (accepted sets = executed + queued timer events per node, name "
                  "and time; fired <= executed, with equality when that name was never cancelled; exhaustion corollary). Tied to "
                  "the code by differential execution with re-entrant set/cancel histories.")
    rule = ("1-4 nodes, 3 timer names, histories of set/cancel issued from initialize, packet and timer handlers (same and "
            "other names, same-instant sets); non-trivial = a cancel suppressed a pending timer while another name or node "
            "kept one, and a set or cancel was issued from inside a timer handler")
    force_cfg = {"hasTimer": True, "failRate": fbits(0.0), "defaultRange": fbits(1.0e6)}
    profile = {"w": {"setTimer": 6, "cancelTimer": 3, "send": 1.5, "broadcast": 0.7, "goto": 0.2, "setSpeed": 0,
                     "setRange": 0, "gotoGeo": 0}, "maxReq": 4, "budget": 90}

    def tweak(self, r, scn):
        if scn["cfg"]["hasMob"] and r.random() < 0.6:
            simgen.set_handler(scn["cfg"], "mobility", False)
        if r.random() < 0.2:
            scn = simgen.make_decimal(scn)       # timers at non-dyadic times, set at every moment of the run
        elif r.random() < 0.2:
            # fine regime: a timer one tick (9e-13 s) in the past is in the past - refused, never moved to "now"
            # (seeded C07_L: a 1e-9 "float noise" tolerance in the timer handler's own past-check)
            scn = simgen.make_fine(scn)
        if r.random() < 0.12:
            scn = simgen.make_crowd(scn, r)      # (node, name) pairs that are spelt alike
        if r.random() < 0.25 and scn.get("tick") is None and not scn["cfg"]["hasMob"]:
            # watchdogs: timers set far ahead that are usually cancelled (and re-armed) long before they are due; the
            # cancelled ones stay queued while the handler goes idle and busy again many times
            base = simgen.Behaviour(0, scn["cfg"]).p
            scn["profile"]["offsets"] = list(scn["profile"].get("offsets", base["offsets"])) + [40960, 40960, 81920]
            scn["profile"]["w"] = dict(scn["profile"]["w"], cancelTimer=scn["profile"]["w"].get("cancelTimer", 2) + 2)
            scn["cfg"]["duration"] = None
            scn["cfg"]["maxIter"] = None
        return scn

    def obs(self, case, res):
        cbs = parse(res["trace"])
        fires = sorted([c["n"], c["key"], c["t"]] for c in cbs if c["kind"] == "timer")
        reqs = sorted([c["n"], c["t"], r[0], r[1]] for c in cbs for r in c["reqs"] if r[0][0] in ("setTimer", "cancelTimer"))
        return {"fires": fires, "requests": reqs}

    def oracle(self, case, impl):
        return self.crash_fail(impl) + timer_failures(case, impl)

    def nontrivial(self, case, impl):
        reentrant, suppressed = False, False
        pend = defaultdict(list)
        for c in parse(impl["trace"]):
            for req, ok, _ in c["reqs"]:
                if req[0] == "setTimer" and ok:
                    pend[(c["n"], req[1])].append(req[2])
                if req[0] == "cancelTimer" and ok:
                    if pend[(c["n"], req[1])] and any(v for k, v in pend.items() if k != (c["n"], req[1])):
                        suppressed = True
                    pend[(c["n"], req[1])] = []
                if c["kind"] == "timer" and req[0] in ("setTimer", "cancelTimer"):
                    reentrant = True
            if c["kind"] == "timer" and c["t"] in pend[(c["n"], c["key"])]:
                pend[(c["n"], c["key"])].remove(c["t"])
        return reentrant and suppressed


# ------------------------------------------------------------------------------------------------
def delivery_failures(case, impl, prefix="C08"):
    """loss-free, all in range: exactly once, intact, to exactly the addressees, at send+delay"""
    cfg = case["cfg"]
    n = cfg["nNodes"]
    delay = max(cfg["delay"], 0)
    fails = []
    expected = defaultdict(list)      # (dst, msg) -> due times of the copies addressed to dst
    got = Counter()
    horizon = None
    ex = afters(impl["trace"])
    last_time = ex[-1][1] if ex else 0
    for c in parse(impl["trace"]):
        t = c["t"]
        if c["kind"] == "packet":
            k = (c["n"], c["key"])
            got[k] += 1
            if k not in expected:
                fails.append((f"{prefix}:wrong-addressee", f"node {c['n']} handled message {c['key']} not addressed to it"))
            elif t not in expected[k]:
                fails.append((f"{prefix}:wrong-time", f"message {c['key']} due at {expected[k]} handled at {t}"))
        for req, ok, _ in c["reqs"]:
            if req[0] == "send":
                d = req[2]
                valid = d is not None and d != c["n"] and 0 <= d < n
                if valid and not ok:
                    fails.append((f"{prefix}:valid-refused", f"send to {d} from {c['n']} raised"))
                if not valid and ok:
                    fails.append((f"{prefix}:invalid-accepted", f"send from {c['n']} to {d} did not raise"))
                if valid and ok and c["kind"] != "finish":
                    expected[(d, req[1])].append(t + delay)
            elif req[0] == "broadcast":
                if not ok:
                    fails.append((f"{prefix}:valid-refused", f"broadcast from {c['n']} raised"))
                else:
                    for d in range(n):
                        if d != c["n"] and c["kind"] != "finish":
                            expected[(d, req[1])].append(t + delay)
    for k, v in got.items():
        if v > len(expected[k]) > 0:
            fails.append((f"{prefix}:duplicate", f"message {k[1]} handled {v} times on node {k[0]}, addressed to it {len(expected[k])} times"))
    # missing deliveries: only those that were due strictly before the last executed instant, or
    # any when the run ended by exhaustion / by duration with due <= duration
    D = cfg["duration"]
    done = completed(case, impl)
    for k, dues in expected.items():
        if cfg["maxIter"] is not None:
            break
        must = [due for due in dues if due < last_time or (done and (D is None or due <= D))]
        if got[k] < len(must):
            fails.append((f"{prefix}:lost", f"message {k[1]} for node {k[0]} due at {must}: handled only {got[k]} times"))
    return fails


class C08(SimCheck):
    prop = "C08"
    level_text = ("Theorems (loss-free, in range, any node count, delay, program): a unicast creates exactly one delivery event "
                  "for the named node at send+max(delay,0); a broadcast exactly one per other node in node order and none for "
                  "the sender; invalid destinations are refused without effect; executing a delivery is one handle_packet with "
                  "the unchanged payload on the addressee and handle_packet happens only that way; run-level counting theorems "
                  "over every reachable trace (handled = executed deliveries; created = executed + queued; created copies for a "
                  "node <= accepted sends to it + broadcasts by others, for every medium; equality and exactly-once under the "
                  "loss-free, in-range hypotheses). Tied to the code by differential execution.")
    rule = ("2-5 nodes, loss-free medium, delays in {0, 1 tick, several}, sends/broadcasts (incl. to self, unknown, None) "
            "from initialize, timer, packet and telemetry handlers; 60% of the scenarios with an unlimited range (all in "
            "range), 40% with ranges changed at run time through the real CommunicationController between values that cover "
            "everybody and values that cover few or nobody, starting from an unlimited or a short medium range: a copy is "
            "'in range' when the exact squared distance at the send (positions sampled by the harness through get_node) is "
            "below the square of the sender's current range by more than 1e-6 (or exactly equal on the integer lattice) and "
            "only such copies are owed a delivery; non-trivial = >= 3 nodes, >= 1 broadcast, >= 2 messages in flight at once")
    assumptions = ["loss-free medium (C10 covers loss)",
                   "whether a copy OUT of range is withheld is C09's subject: here such a copy may or may not arrive, but never "
                   "at a node it was not addressed to, never twice and never at another time than send + delay"]
    force_cfg = {"hasComm": True, "failRate": fbits(0.0), "defaultRange": fbits(1.0e6), "hasTimer": True}
    profile = {"w": {"setTimer": 3, "cancelTimer": 0, "send": 5, "broadcast": 3, "goto": 0.5, "setSpeed": 0.2,
                     "setRange": 0, "gotoGeo": 0}, "pBadDst": 0.2, "maxReq": 4, "budget": 70}

    def tweak(self, r, scn):
        cfg = scn["cfg"]
        if cfg["nNodes"] == 1 and r.random() < 0.8:
            cfg["nNodes"] = 3
            cfg["initPos"] = cfg["initPos"] * 3
        cfg["maxIter"] = None
        if cfg["hasMob"] and cfg["duration"] is None:
            cfg["duration"] = 6144
        if r.random() < 0.4:
            # ranges are changed while the run goes on (before and after a node's first transmission, up and down):
            # what counts for a message is the sender's range at the moment it is sent
            scn["rangeChanges"] = True
            scn["profile"]["w"] = dict(scn["profile"]["w"], setRange=2.5)
            scn["profile"]["ranges"] = [1.0e6, 1000.0, 250.0, 150.0, 1.0e6, 60.0, 25.0, 10.0, 0.0, float("inf")]
            cfg["defaultRange"] = fbits(r.choice([1.0e6, 1.0e6, 60.0, 30.0]))
        elif r.random() < 0.15:
            # integer times beyond 2^53 with "no delay" written 0 or 0.0: delivered at exactly the send time
            scn = simgen.make_bigint(scn, r)
            scn["cfg"]["delay"] = r.choice([0, 0, 1])
            scn["floatZeroDelay"] = r.random() < 0.6
            scn["profile"]["budget"] = 120          # enough reactions left for the timers at the large times to send
            scn["profile"]["maxHops"] = 1
            scn["drive"] = {"mode": "steps", "n": 3000}   # and enough steps to get there
        return scn

    def run_impl(self, case):
        from props_motion import run_with_send_positions
        return run_with_send_positions(case, self.behaviour(case))

    def copies(self, case, impl):
        """every copy of every accepted send / broadcast issued outside finish, with the verdict 'in range at the send':
        True (owed a delivery), False (clearly out of range) or None (too close to the boundary to tell)"""
        from fractions import Fraction
        cfg = case["cfg"]
        n = cfg["nNodes"]
        delay = max(cfg["delay"], 0)
        rng = [bitsf(cfg["defaultRange"])] * n
        snaps = {i: s_ for i, s_ in impl.get("sendPos") or []}
        out = []
        for c in parse(impl["trace"]):
            for req, ok, idx in c["reqs"]:
                if req[0] == "setRange" and ok:
                    rng[c["n"]] = bitsf(req[1])
                elif req[0] in ("send", "broadcast") and ok and c["kind"] != "finish":
                    if req[0] == "send":
                        d = req[2]
                        dsts = [d] if (d is not None and d != c["n"] and 0 <= d < n) else []
                    else:
                        dsts = [d for d in range(n) if d != c["n"]]
                    snap = snaps.get(idx)
                    for d in dsts:
                        inr = None
                        R = rng[c["n"]]
                        if snap is not None and R == float("inf"):
                            inr = True                     # an unlimited range reaches everybody
                        elif snap is not None and R >= 0:
                            ps, pd = bitsv3(snap[c["n"]]), bitsv3(snap[d])
                            margin = sum((Fraction(pd[k]) - Fraction(ps[k])) ** 2 for k in range(3)) - Fraction(R) ** 2
                            if margin < -1e-6 or (margin == 0 and all(float(x).is_integer() for x in ps + pd)):
                                inr = True
                            elif margin > 1e-6:
                                inr = False
                        out.append({"src": c["n"], "dst": d, "msg": req[1], "t": c["t"], "due": c["t"] + delay,
                                    "range": R, "inRange": inr, "changed": R != bitsf(cfg["defaultRange"])})
        return out

    def delivery_failures(self, case, impl, prefix="C08"):
        """loss-free: every copy in range exactly once, intact (payload = key), to exactly the addressees, at send+delay"""
        cfg = case["cfg"]
        n = cfg["nNodes"]
        fails = []
        addressed = defaultdict(list)     # (dst, msg) -> due times of all copies addressed to dst
        owed = defaultdict(list)          # (dst, msg) -> due times of the copies that were in range at the send
        desc = {}
        for cp in self.copies(case, impl):
            k = (cp["dst"], cp["msg"])
            addressed[k].append(cp["due"])
            if cp["inRange"]:
                owed[k].append(cp["due"])
                desc[k] = f" (sent by node {cp['src']} at {cp['t']} with range {cp['range']})"
        got = Counter()
        ex = afters(impl["trace"])
        last_time = ex[-1][1] if ex else 0
        for c in parse(impl["trace"]):
            if c["kind"] == "packet":
                k = (c["n"], c["key"])
                got[k] += 1
                if k not in addressed:
                    fails.append((f"{prefix}:wrong-addressee", f"node {c['n']} handled message {c['key']} not addressed to it"))
                elif c["t"] not in addressed[k]:
                    fails.append((f"{prefix}:wrong-time", f"message {c['key']} due at {addressed[k]} handled at {c['t']}"))
            for req, ok, _ in c["reqs"]:
                if req[0] == "send":
                    d = req[2]
                    valid = d is not None and d != c["n"] and 0 <= d < n
                    if valid and not ok:
                        fails.append((f"{prefix}:valid-refused", f"send to {d} from {c['n']} raised"))
                    if not valid and ok:
                        fails.append((f"{prefix}:invalid-accepted", f"send from {c['n']} to {d} did not raise"))
                elif req[0] == "broadcast" and not ok:
                    fails.append((f"{prefix}:valid-refused", f"broadcast from {c['n']} raised"))
        for k, v in got.items():
            if v > len(addressed[k]) > 0:
                fails.append((f"{prefix}:duplicate", f"message {k[1]} handled {v} times on node {k[0]}, addressed to it {len(addressed[k])} times"))
        # missing deliveries: only those that were due strictly before the last executed instant, or
        # any when the run ended by exhaustion / by duration with due <= duration
        D = cfg["duration"]
        done = completed(case, impl)
        for k, dues in owed.items():
            if cfg["maxIter"] is not None:
                break
            must = [due for due in dues if due < last_time or (done and (D is None or due <= D))]
            if got[k] < len(must):
                fails.append((f"{prefix}:lost", f"message {k[1]} for node {k[0]}{desc[k]}, in range, due at {must}: handled only {got[k]} times"))
        return fails

    def obs(self, case, res):
        cbs = parse(res["trace"])
        return {"deliveries": sorted([c["n"], c["key"], c["t"]] for c in cbs if c["kind"] == "packet"),
                # (sorted by their text: a destination may be None, which does not compare with a node id)
                "commands": sorted(([c["n"], c["t"], r[0], r[1]] for c in cbs for r in c["reqs"]
                                    if r[0][0] in ("send", "broadcast")), key=repr)}

    def oracle(self, case, impl):
        return self.crash_fail(impl) + self.delivery_failures(case, impl)

    def nontrivial(self, case, impl):
        if case["cfg"]["nNodes"] < 3:
            return False
        cbs = parse(impl["trace"])
        bc = any(r[0][0] == "broadcast" and r[1] for c in cbs for r in c["reqs"])
        pk = Counter(c["t"] for c in cbs if c["kind"] == "packet")
        return bc and any(v >= 2 for v in pk.values())

    def stats(self, case, impl, acc):
        super().stats(case, impl, acc)
        if case.get("rangeChanges"):
            acc["scenarios_with_range_changes"] = acc.get("scenarios_with_range_changes", 0) + 1
        for cp in self.copies(case, impl):
            k = {True: "copies_in_range", False: "copies_out_of_range_not_judged", None: "copies_near_boundary_not_judged"}[cp["inRange"]]
            acc[k] = acc.get(k, 0) + 1
            if cp["inRange"] and cp["changed"]:
                acc["copies_in_range_under_a_changed_range"] = acc.get("copies_in_range_under_a_changed_range", 0) + 1


# ------------------------------------------------------------------------------------------------
class C12(SimCheck):
    prop = "C12"
    level_text = ("Theorems for every node count, movement state and interval: one mobility update moves every node by its own "
                  "state only, creates exactly one telemetry event per node (node order, due now, carrying that node's own new "
                  "position) and exactly one next update dt later; no request or callback ever moves a node; executing a "
                  "telemetry event is one handle_telemetry on its node. Tied to the code by bit-exact differential execution of "
                  "positions and telemetry payloads.")
    rule = ("1-5 nodes moving and static, several update intervals, runs cut by duration / iteration limit / stepping; "
            "non-trivial = >= 2 nodes at different positions with >= 1 moving and >= 3 ticks")
    force_cfg = {"hasMob": True, "hasTimer": True, "failRate": fbits(0.0), "defaultRange": fbits(1.0e6)}
    want_pos = True
    profile = {"w": {"setTimer": 2, "cancelTimer": 0, "send": 1, "broadcast": 0.5, "goto": 4, "setSpeed": 1.5,
                     "setRange": 0, "gotoGeo": 0, "gotoHere": 2}, "pTelemetry": 0.25}

    def tweak(self, r, scn):
        if scn.get("tolerant"):
            # exceptions that escape from telemetry callbacks in particular: the updates that follow must still
            # deliver one telemetry per node, each with its own position
            scn["profile"]["pTelemetry"] = 0.7
            scn["profile"]["pBadDst"] = 0.5
            scn["profile"]["w"] = dict(scn["profile"]["w"], send=3)
            scn["escapeAt"] = 1
            if scn["drive"]["mode"] == "steps":
                scn["drive"]["n"] = 400
        return scn

    def obs(self, case, res):
        return [[c["n"], c["t"], c["pos"]] for c in parse(res["trace"]) if c["kind"] == "telemetry"]

    def oracle(self, case, impl):
        cfg = case["cfg"]
        fails = self.crash_fail(impl)
        if impl.get("crash"):
            return fails
        n, dt = cfg["nNodes"], cfg["dt"]
        per_time = defaultdict(list)
        trace = impl["trace"]
        # positions after the event that executed each tick: the sample taken in the after-step
        # of the iteration in which no callback ran at that time before any telemetry
        for c in parse(trace):
            if c["kind"] == "telemetry":
                per_time[c["t"]].append(c)
        times = sorted(t for t in per_time if is_int(t))
        for i, t in enumerate(times):
            if t != (i + 1) * dt:
                fails.append(("C12:times", f"telemetry times {times[:6]} are not consecutive multiples of {dt}"))
                break
        cut = cfg["maxIter"] is not None or case["drive"]["mode"] == "steps"
        for i, t in enumerate(times):
            got = Counter(c["n"] for c in per_time[t])
            lastgroup = (i == len(times) - 1)
            for node in range(n):
                if got[node] > 1 or (got[node] == 0 and not (lastgroup and cut)):
                    fails.append(("C12:count", f"node {node} got {got[node]} telemetry callbacks for the update at {t}"))
        # independent of the telemetry callbacks themselves: the after-step hooks report the time of every executed
        # event; once the run has moved beyond k*dt, the update due at k*dt and the telemetry events it created (all due
        # at k*dt) have been executed - every node must have received exactly one telemetry at k*dt, also when none was
        # delivered at all (seeded C12_L: the telemetry of this simulation handed to another one's nodes)
        hooks = [e[3] for e in trace if e[0] == "after" and is_int(e[3])]
        if hooks and cfg.get("hasTimer") and is_int(dt) and dt > 0:
            reached = max(hooks)
            k = 1
            while k * dt < reached and k <= 4000:
                got = Counter(c["n"] for c in per_time.get(k * dt, []))
                for node in range(n):
                    if got[node] != 1:
                        fails.append(("C12:count", f"the run went on to time {reached} but node {node} got {got[node]} "
                                      f"telemetry callbacks for the update at {k * dt}"))
                        break
                else:
                    k += 1
                    continue
                break
        # a run cut by the duration alone delivers the telemetry of every update due up to and
        # including the duration (events due exactly at the duration still run)
        D = cfg["duration"]
        if not cut and D is not None and case["drive"]["mode"] == "start" and is_int(D) and dt > 0 \
                and not case["drive"].get("pre"):
            want = D // dt
            if len(times) != want:
                fails.append(("C12:last-update", f"duration {D}, interval {dt}: {want} updates fall within the run but "
                              f"telemetry was delivered for {len(times)} ({times[-3:]})"))
        # own position: the payload equals the node's position when the telemetry is handled
        for node, t, payload, own in impl.get("ownPos", []):
            if payload != own:
                fails.append(("C12:wrong-position", f"telemetry for node {node} at {t} carries {bitsv3(payload)} but the "
                              f"node is at {bitsv3(own)}"))
        return fails

    def nontrivial(self, case, impl):
        tel = [c for c in parse(impl["trace"]) if c["kind"] == "telemetry"]
        if case["cfg"]["nNodes"] < 2 or len({c["t"] for c in tel}) < 3:
            return False
        by_node = defaultdict(set)
        for c in tel:
            by_node[c["n"]].add(tuple(c["pos"]))
        moving = any(len(v) > 1 for v in by_node.values())
        distinct = len({tuple(c["pos"]) for c in tel if c["t"] == tel[0]["t"]}) > 1
        return moving and distinct


CHECKS = {c.prop: c for c in [C01, C02, C03, C04, C05, C07, C08, C12]}
