"""Shared plumbing: paths, float transport, driver invocation, evidence, verdicts."""
import json
import os
import struct
import subprocess
import sys
import time
import zlib
from pathlib import Path

VERIF = Path(__file__).resolve().parent.parent
LEAN = VERIF / "lean"
DRIVER = LEAN / ".lake" / "build" / "bin" / "driver"
REPO = Path(os.environ.get("VERIF_REPO", "/repo"))
TICK = 1024.0  # simulated time: tick k <-> k / 1024.0 seconds (exact in floats)

if str(REPO) not in sys.path:
    sys.path.insert(0, str(REPO))


def seed_from_env() -> int:
    try:
        return int(os.environ.get("VERIF_SEED", "0"))
    except ValueError:
        return zlib.crc32(os.environ["VERIF_SEED"].encode())


def fbits(x: float) -> str:
    """float -> decimal rendering of its IEEE-754 bit pattern (loss-free transport)."""
    return str(struct.unpack("<Q", struct.pack("<d", float(x)))[0])


def bitsf(s) -> float:
    return struct.unpack("<d", struct.pack("<Q", int(s)))[0]


def v3bits(p):
    return [fbits(p[0]), fbits(p[1]), fbits(p[2])]


def bitsv3(b):
    return (bitsf(b[0]), bitsf(b[1]), bitsf(b[2]))


def to_ticks(t, tick=TICK):
    """float seconds -> integer ticks when exact, else the raw float (will not compare equal).
    `tick` = ticks per second of the scenario (a power of two; 1024 by default, 2^40 in the fine regime
    where one tick is 9e-13 s and 'one tick in the past' is far below any 1e-9 tolerance)."""
    try:
        if isinstance(t, int) and not isinstance(t, bool) and tick == 1:
            return t                      # integer regime: times are Python ints, exact at any magnitude
        k = t * tick
        if k == int(k):
            return int(k)
        # a tick that is not a power of two (decimal regime, 10 ticks per second): t is the tick k exactly
        # when it is the very float the single division k / tick produces
        r = round(k)
        if r / tick == t:
            return r
    except (OverflowError, ValueError, TypeError):
        pass
    return repr(t)


def stable_hash(*parts) -> int:
    """process-independent hash (never Python's hash(), which varies with PYTHONHASHSEED)."""
    return zlib.crc32(repr(parts).encode())


class DriverError(RuntimeError):
    pass


def ensure_driver():
    """(re)build the model, proofs and driver from the sources on disk; no-op when up to date."""
    import fcntl
    if os.environ.get("VERIF_GATE_CACHE") == "1" and DRIVER.exists():
        return
    (LEAN / ".lake").mkdir(exist_ok=True)
    with open(LEAN / ".lake" / "gate.lock", "w") as lk:
        fcntl.flock(lk, fcntl.LOCK_EX)
        try:
            r = subprocess.run(["lake", "build", "GradysModel", "driver"], cwd=LEAN,
                               stdout=subprocess.PIPE, stderr=subprocess.STDOUT, text=True)
        finally:
            fcntl.flock(lk, fcntl.LOCK_UN)
    if r.returncode != 0 or not DRIVER.exists():
        raise DriverError("lake build driver failed:\n" + r.stdout[-4000:])


def run_driver(lines):
    """Pipe JSON lines to the compiled model driver, return the decoded result lines."""
    if not lines:
        return []
    data = "\n".join(json.dumps(l, separators=(",", ":")) for l in lines) + "\n"
    r = subprocess.run([str(DRIVER)], input=data, stdout=subprocess.PIPE, stderr=subprocess.PIPE,
                       text=True, cwd=LEAN)
    if r.returncode != 0:
        raise DriverError(f"driver exit {r.returncode}: {r.stderr[-2000:]}")
    outs = [json.loads(l) for l in r.stdout.splitlines() if l.strip()]
    if len(outs) != len(lines):
        raise DriverError(f"driver returned {len(outs)} lines for {len(lines)} inputs: {r.stderr[-2000:]}")
    return outs


def run_driver_parallel(lines, workers=None):
    """Split the batch over several driver processes."""
    from concurrent.futures import ThreadPoolExecutor
    n = len(lines)
    workers = workers or min(16, max(1, n // 64))
    if workers <= 1:
        return run_driver(lines)
    chunks = [lines[i::workers] for i in range(workers)]
    with ThreadPoolExecutor(workers) as ex:
        outs = list(ex.map(run_driver, chunks))
    res = [None] * n
    for w, out in enumerate(outs):
        for j, o in enumerate(out):
            res[w + j * workers] = o
    return res


class Timer:
    def __init__(self):
        self.t0 = time.time()

    def s(self):
        return round(time.time() - self.t0, 3)
