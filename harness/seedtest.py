"""Apply a seeded change, run every quick check against it, undo it, report who caught it.

usage: seedtest.py <patch.diff> [--props C01,C07] [--tier quick] [--jobs 6] [--in-repo]
By default the change is applied in a scratch git worktree of /repo's HEAD (removed afterwards) and the
checks import gradysim from there (VERIF_REPO), so /repo itself is never touched and several seed
tests can run side by side. With --in-repo it is applied to /repo (git apply) and undone
(git checkout -- .) afterwards. Evidence and replays of these runs go to a scratch directory.
"""
import argparse
import json
import os
import subprocess
import sys
import tempfile
from concurrent.futures import ThreadPoolExecutor
from pathlib import Path

HERE = Path(__file__).resolve().parent
VERIF = HERE.parent
REPO = Path(os.environ.get("VERIF_REPO", "/repo"))


def git(*args, check=True):
    return subprocess.run(["git", "-C", str(REPO), *args], stdout=subprocess.PIPE, stderr=subprocess.STDOUT,
                          text=True, check=check).stdout


def run_check(prop, tier, scratch, repo=None):
    env = dict(os.environ)
    if repo is not None:
        env["VERIF_REPO"] = str(repo)
    env["VERIF_EVIDENCE_DIR"] = str(scratch / "evidence")
    env["VERIF_GATE_CACHE"] = "1"
    env["VERIF_REPLAY_DIR"] = str(scratch / "replays" / prop)
    try:
        r = subprocess.run([str(HERE / "check"), prop, "--tier", tier], stdout=subprocess.PIPE,
                           stderr=subprocess.STDOUT, text=True, env=env, cwd=str(VERIF), timeout=600)
    except subprocess.TimeoutExpired:
        return prop, 2, ["TIMEOUT after 600 s"]
    lines = [l for l in r.stdout.splitlines() if l.startswith(("VIOLATION", "OK", "KNOWN-FINDING", "  "))]
    return prop, r.returncode, lines[:4]


def main():
    ap = argparse.ArgumentParser()
    ap.add_argument("patch")
    ap.add_argument("--props", default=None)
    ap.add_argument("--tier", default="quick")
    ap.add_argument("--jobs", type=int, default=6)
    ap.add_argument("--in-repo", action="store_true")
    args = ap.parse_args()
    manifest = json.loads((VERIF / "MANIFEST.json").read_text())
    props = [c["property_id"] for c in manifest["checks"]]
    if args.props:
        props = [p for p in args.props.split(",")]
    scratch = Path(tempfile.mkdtemp(prefix="seedtest_"))
    results = {}
    patch = str(Path(args.patch).resolve())
    if args.in_repo:
        if git("status", "--porcelain", "--untracked-files=no").strip():
            sys.exit("refusing: /repo has uncommitted changes")
        try:
            subprocess.run(["git", "-C", str(REPO), "apply", patch], check=True)
            with ThreadPoolExecutor(args.jobs) as ex:
                for prop, code, lines in ex.map(lambda p: run_check(p, args.tier, scratch), props):
                    results[prop] = {"exit": code, "lines": lines}
        finally:
            git("checkout", "--", ".")
            subprocess.run(["rm", "-rf", str(scratch)])
    else:
        wt = Path(tempfile.mkdtemp(prefix="seedwt_"))
        wt.rmdir()
        try:
            git("worktree", "add", "--detach", str(wt), "HEAD", "-q")
            subprocess.run(["git", "-C", str(wt), "apply", patch], check=True)
            with ThreadPoolExecutor(args.jobs) as ex:
                for prop, code, lines in ex.map(lambda p: run_check(p, args.tier, scratch, wt), props):
                    results[prop] = {"exit": code, "lines": lines}
        finally:
            git("worktree", "remove", "--force", str(wt), check=False)
            subprocess.run(["rm", "-rf", str(scratch)])
    caught = [p for p, r in results.items() if r["exit"] == 1]
    for p in props:
        r = results.get(p, {})
        print(p, "exit", r.get("exit"), "|", " / ".join(r.get("lines", []))[:260])
    print("CAUGHT-BY:", ",".join(caught) if caught else "none")
    print(json.dumps({"caught_by": caught, "results": results}), file=sys.stderr)


if __name__ == "__main__":
    main()
