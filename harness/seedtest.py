"""Apply a seeded change to /repo, run every quick check, undo the change, report who caught it.

usage: seedtest.py <patch.diff> [--props C01,C07] [--tier quick] [--jobs 6]
Evidence and replays of these runs go to a scratch directory (never to /verif/evidence).
"""
import argparse
import json
import os
import subprocess
import sys
import tempfile
from concurrent.futures import ThreadPoolExecutor
from pathlib import Path

HERE = Path(__file__).resolve().parent
VERIF = HERE.parent
REPO = Path(os.environ.get("VERIF_REPO", "/repo"))


def git(*args, check=True):
    return subprocess.run(["git", "-C", str(REPO), *args], stdout=subprocess.PIPE, stderr=subprocess.STDOUT,
                          text=True, check=check).stdout


def run_check(prop, tier, scratch):
    env = dict(os.environ)
    env["VERIF_EVIDENCE_DIR"] = str(scratch / "evidence")
    env["VERIF_REPLAY_DIR"] = str(scratch / "replays" / prop)
    try:
        r = subprocess.run([str(HERE / "check"), prop, "--tier", tier], stdout=subprocess.PIPE,
                           stderr=subprocess.STDOUT, text=True, env=env, cwd=str(VERIF), timeout=600)
    except subprocess.TimeoutExpired:
        return prop, 2, ["TIMEOUT after 600 s"]
    lines = [l for l in r.stdout.splitlines() if l.startswith(("VIOLATION", "OK", "KNOWN-FINDING", "  "))]
    return prop, r.returncode, lines[:4]


def main():
    ap = argparse.ArgumentParser()
    ap.add_argument("patch")
    ap.add_argument("--props", default=None)
    ap.add_argument("--tier", default="quick")
    ap.add_argument("--jobs", type=int, default=6)
    args = ap.parse_args()
    manifest = json.loads((VERIF / "MANIFEST.json").read_text())
    props = [c["property_id"] for c in manifest["checks"]]
    if args.props:
        props = [p for p in args.props.split(",")]
    if git("status", "--porcelain", "--untracked-files=no").strip():
        sys.exit("refusing: /repo has uncommitted changes")
    scratch = Path(tempfile.mkdtemp(prefix="seedtest_"))
    results = {}
    try:
        subprocess.run(["git", "-C", str(REPO), "apply", str(Path(args.patch).resolve())], check=True)
        with ThreadPoolExecutor(args.jobs) as ex:
            for prop, code, lines in ex.map(lambda p: run_check(p, args.tier, scratch), props):
                results[prop] = {"exit": code, "lines": lines}
    finally:
        git("checkout", "--", ".")
        subprocess.run(["rm", "-rf", str(scratch)])
    caught = [p for p, r in results.items() if r["exit"] == 1]
    for p in props:
        r = results.get(p, {})
        print(p, "exit", r.get("exit"), "|", " / ".join(r.get("lines", []))[:260])
    print("CAUGHT-BY:", ",".join(caught) if caught else "none")
    print(json.dumps({"caught_by": caught, "results": results}), file=sys.stderr)


if __name__ == "__main__":
    main()
