"""Resolve git conflict markers in a file by keeping BOTH sides (for additive one-line registries)."""
import sys
for path in sys.argv[1:]:
    out = []
    for line in open(path).read().splitlines(keepends=True):
        if line.startswith("<<<<<<< ") or line.startswith(">>>>>>> ") or line.startswith("======="):
            continue
        out.append(line)
    open(path, "w").write("".join(out))
    print("resolved", path)
