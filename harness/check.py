"""Entry point:  check.py <Cxx> [--tier quick|thorough] [--replay FILE]
Checks are discovered in harness/props_*.py (each exports CHECKS: {property id: Check subclass})."""
import importlib
import os
import sys
from pathlib import Path

HERE = Path(__file__).resolve().parent
sys.path.insert(0, str(HERE))

import framework  # noqa: E402


def all_checks():
    out = {}
    for p in sorted(HERE.glob("props_*.py")):
        mod = importlib.import_module(p.stem)
        out.update(getattr(mod, "CHECKS", {}))
    return out


def load(prop):
    for p in sorted(HERE.glob("props_*.py")):
        # import lazily: only the module that declares the property
        if f'"{prop}"' in p.read_text() or f"'{prop}'" in p.read_text():
            mod = importlib.import_module(p.stem)
            if prop in getattr(mod, "CHECKS", {}):
                return mod.CHECKS[prop]()
    raise SystemExit(f"no check for {prop}")


def limit_memory():
    """a changed implementation may allocate without bound; a watchdog thread aborts this process as an
    infrastructure error (exit 2) when its resident set exceeds VERIF_MEM_GB (default 12), instead of
    exhausting the machine. (An address-space rlimit is unusable: lean maps far more than it touches.)"""
    import threading
    import time
    cap = int(os.environ.get("VERIF_MEM_GB", "12")) * 1024 ** 3
    page = os.sysconf("SC_PAGE_SIZE")

    def watch():
        while True:
            try:
                rss = int(open("/proc/self/statm").read().split()[1]) * page
            except Exception:
                return
            if rss > cap:
                sys.stderr.write(f"INFRASTRUCTURE ERROR: resident memory {rss >> 20} MiB exceeds the cap\n")
                sys.stderr.flush()
                os._exit(2)
            time.sleep(0.5)

    threading.Thread(target=watch, daemon=True).start()


if __name__ == "__main__":
    limit_memory()
    if "--replay" not in sys.argv:
        framework.COV = framework.start_coverage()
    prop = sys.argv[1]
    try:
        chk = load(prop)
    except Exception as e:  # importing the harness module imports the implementation's public interface
        blame = framework.implementation_fault(e)
        if blame is None:
            raise
        # the implementation cannot even be imported / lacks a public name the property is stated about:
        # no input can satisfy the property - a violation (with nothing to replay but the import), not exit 2
        pth = framework.write_replay(prop, "violation", {"property": prop, "kind": "the implementation's public interface cannot be loaded",
                                                         "signature": f"{prop}:crash:{type(e).__name__}", "message": blame, "case": None})
        print(f"VIOLATION property={prop} replay={framework.relpath(pth)}")
        print(f"  {prop}:crash:{type(e).__name__}: {blame}")
        sys.exit(1)
    framework.main(chk, sys.argv[2:])
