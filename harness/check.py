"""Entry point:  check.py <Cxx> [--tier quick|thorough] [--replay FILE]
Checks are discovered in harness/props_*.py (each exports CHECKS: {property id: Check subclass})."""
import importlib
import sys
from pathlib import Path

HERE = Path(__file__).resolve().parent
sys.path.insert(0, str(HERE))

import framework  # noqa: E402


def all_checks():
    out = {}
    for p in sorted(HERE.glob("props_*.py")):
        mod = importlib.import_module(p.stem)
        out.update(getattr(mod, "CHECKS", {}))
    return out


def load(prop):
    for p in sorted(HERE.glob("props_*.py")):
        # import lazily: only the module that declares the property
        if f'"{prop}"' in p.read_text() or f"'{prop}'" in p.read_text():
            mod = importlib.import_module(p.stem)
            if prop in getattr(mod, "CHECKS", {}):
                return mod.CHECKS[prop]()
    raise SystemExit(f"no check for {prop}")


if __name__ == "__main__":
    prop = sys.argv[1]
    framework.main(load(prop), sys.argv[2:])
