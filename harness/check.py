"""Entry point:  check.py <Cxx> [--tier quick|thorough] [--replay FILE]"""
import sys
from pathlib import Path

sys.path.insert(0, str(Path(__file__).resolve().parent))

import framework  # noqa: E402


def load(prop):
    import props_sim
    if prop in props_sim.CHECKS:
        return props_sim.CHECKS[prop]()
    raise SystemExit(f"no check for {prop}")


if __name__ == "__main__":
    prop = sys.argv[1]
    framework.main(load(prop), sys.argv[2:])
