"""Systematic single-edit mutation sweep over the modelled source files (supporting evidence, not a proof):
for every generated mutant of a file, run the quick checks of the properties that depend on that file in a
scratch worktree of /repo (never /repo itself); a mutant no check reports is then run against the project's
own test suite - if the tests catch it, it is outside the brief ("changes that pass the existing tests");
otherwise it is listed as a survivor to be judged by hand (equivalent mutant, or a blind spot).

Usage: mutsweep.py [--per-file N] [--lanes K] [--files f1,f2] [--seed S] [--out DIR]
"""
import argparse
import ast
import copy
import json
import os
import random
import shutil
import subprocess
import sys
import tempfile
import time
from concurrent.futures import ThreadPoolExecutor
from pathlib import Path

VERIF = Path(__file__).resolve().parent.parent
REPO = Path(os.environ.get("VERIF_REPO", "/repo"))
PY = sys.executable

TARGETS = {
    "gradysim/simulator/event.py": ["C03", "C01", "C02"],
    "gradysim/simulator/simulation.py": ["C05", "C04", "C01", "C02", "C06"],
    "gradysim/simulator/handler/timer.py": ["C07", "C13"],
    "gradysim/simulator/handler/communication.py": ["C08", "C09", "C10"],
    "gradysim/simulator/handler/mobility.py": ["C11", "C12", "C20"],
    "gradysim/simulator/handler/assertion.py": ["C18"],
    "gradysim/encapsulator/python.py": ["C07", "C08", "C11", "C13", "C05"],
    "gradysim/encapsulator/interop.py": ["C14"],
    "gradysim/simulator/extension/camera.py": ["C19"],
    "gradysim/simulator/extension/communication_controller.py": ["C09", "C14"],
    "gradysim/simulator/extension/extension.py": ["C14", "C09"],
    "gradysim/protocol/position.py": ["C20", "C16", "C17"],
    "gradysim/protocol/plugin/dispatcher.py": ["C15"],
    "gradysim/protocol/plugin/mission_mobility.py": ["C16"],
    "gradysim/protocol/plugin/random_mobility.py": ["C17"],
    "gradysim/protocol/messages/communication.py": ["C08", "C14"],
    "gradysim/protocol/messages/mobility.py": ["C11", "C20", "C16"],
}

CMP = {ast.Lt: [ast.LtE, ast.Gt], ast.LtE: [ast.Lt, ast.GtE], ast.Gt: [ast.GtE, ast.Lt], ast.GtE: [ast.Gt, ast.LtE],
       ast.Eq: [ast.NotEq], ast.NotEq: [ast.Eq], ast.In: [ast.NotIn], ast.NotIn: [ast.In],
       ast.Is: [ast.IsNot], ast.IsNot: [ast.Is]}
BIN = {ast.Add: [ast.Sub], ast.Sub: [ast.Add], ast.Mult: [ast.Div, ast.Add], ast.Div: [ast.Mult], ast.Pow: [ast.Mult]}
LOGGING = {"debug", "info", "warning", "error", "critical", "warn", "exception"}


def skip_subtrees(tree):
    """ids of nodes inside logging calls, f-strings, docstrings, raise statements' messages, type annotations"""
    bad = set()
    for node in ast.walk(tree):
        inner = None
        if isinstance(node, ast.Call) and isinstance(node.func, ast.Attribute) and node.func.attr in LOGGING:
            inner = node
        elif isinstance(node, ast.JoinedStr):
            inner = node
        elif isinstance(node, ast.Raise):
            inner = node
        elif isinstance(node, (ast.AnnAssign,)) and node.value is None:
            inner = node
        if inner is not None:
            for sub in ast.walk(inner):
                bad.add(id(sub))
        for attr in ("annotation", "returns"):
            ann = getattr(node, attr, None)
            if ann is not None:
                for sub in ast.walk(ann):
                    bad.add(id(sub))
    return bad


def mutants(src):
    tree = ast.parse(src)
    nodes = list(ast.walk(tree))
    bad = skip_subtrees(tree)

    def clone(idx):
        t = copy.deepcopy(tree)
        return t, list(ast.walk(t))[idx]

    for idx, node in enumerate(nodes):
        if id(node) in bad:
            continue
        line = getattr(node, "lineno", 0)
        if isinstance(node, ast.Compare):
            for i, op in enumerate(node.ops):
                for new in CMP.get(type(op), []):
                    t, n = clone(idx)
                    n.ops[i] = new()
                    yield f"L{line} compare {type(op).__name__}->{new.__name__}", t
        elif isinstance(node, ast.BinOp):
            for new in BIN.get(type(node.op), []):
                t, n = clone(idx)
                n.op = new()
                yield f"L{line} binop {type(node.op).__name__}->{new.__name__}", t
        elif isinstance(node, ast.BoolOp):
            t, n = clone(idx)
            n.op = ast.Or() if isinstance(node.op, ast.And) else ast.And()
            yield f"L{line} boolop flipped", t
        elif isinstance(node, (ast.If, ast.While)) and not isinstance(node.test, ast.Constant):
            t, n = clone(idx)
            n.test = ast.UnaryOp(op=ast.Not(), operand=n.test)
            yield f"L{line} {type(node).__name__.lower()} condition negated", t
        elif isinstance(node, ast.UnaryOp) and isinstance(node.op, ast.Not):
            t, n = clone(idx)
            for parent in ast.walk(t):
                for field, value in ast.iter_fields(parent):
                    if value is n:
                        setattr(parent, field, n.operand)
                    elif isinstance(value, list):
                        for k, v in enumerate(value):
                            if v is n:
                                value[k] = n.operand
            yield f"L{line} not removed", t
        elif isinstance(node, ast.Constant) and isinstance(node.value, (int, float)) and not isinstance(node.value, bool):
            for new in ([node.value + 1, node.value - 1] if node.value != 0 else [1]):
                t, n = clone(idx)
                n.value = new
                yield f"L{line} constant {node.value!r}->{new!r}", t
        elif isinstance(node, ast.Constant) and isinstance(node.value, bool):
            t, n = clone(idx)
            n.value = not node.value
            yield f"L{line} constant {node.value}->{not node.value}", t
        elif isinstance(node, ast.Call) and len(node.args) >= 2 and not any(isinstance(a, ast.Starred) for a in node.args):
            t, n = clone(idx)
            n.args[0], n.args[1] = n.args[1], n.args[0]
            yield f"L{line} first two arguments swapped", t
        elif isinstance(node, ast.AugAssign):
            t, n = clone(idx)
            n.op = ast.Sub() if isinstance(node.op, ast.Add) else ast.Add()
            yield f"L{line} augmented assignment operator flipped", t
        if isinstance(node, (ast.FunctionDef, ast.If, ast.For, ast.While, ast.With, ast.Try)) or hasattr(node, "body"):
            body = getattr(node, "body", None)
            if isinstance(body, list):
                for k, st in enumerate(body):
                    if id(st) in bad:
                        continue
                    if isinstance(st, ast.Expr) and isinstance(st.value, ast.Constant):
                        continue                      # docstring
                    if isinstance(st, (ast.Expr, ast.Assign, ast.AugAssign)) and len(body) > 1:
                        t, n = clone(idx)
                        del n.body[k]
                        yield f"L{getattr(st, 'lineno', 0)} statement deleted", t
                    if isinstance(st, ast.Return) and st.value is not None:
                        pass
                    if k + 1 < len(body) and isinstance(st, (ast.Expr, ast.Assign, ast.AugAssign)) \
                            and isinstance(body[k + 1], (ast.Expr, ast.Assign, ast.AugAssign)) and id(body[k + 1]) not in bad:
                        t, n = clone(idx)
                        n.body[k], n.body[k + 1] = n.body[k + 1], n.body[k]
                        yield f"L{getattr(st, 'lineno', 0)} two statements swapped", t


def run(cmd, cwd, env=None, timeout=900):
    try:
        r = subprocess.run(cmd, cwd=str(cwd), env=env, stdout=subprocess.PIPE, stderr=subprocess.STDOUT, text=True, timeout=timeout)
        return r.returncode, r.stdout
    except subprocess.TimeoutExpired as e:
        return 124, (e.stdout or "") if isinstance(e.stdout, str) else ""


class Lane:
    def __init__(self, k, out):
        self.dir = Path(tempfile.mkdtemp(prefix=f"mutsweep{k}_", dir="/tmp"))
        shutil.rmtree(self.dir)
        code, o = run(["git", "-C", str(REPO), "worktree", "add", "--detach", str(self.dir), "HEAD"], cwd=REPO)
        if code != 0:
            raise RuntimeError(o)
        self.scratch = Path(tempfile.mkdtemp(prefix=f"mutsweep{k}_out_", dir="/tmp"))

    def close(self):
        run(["git", "-C", str(REPO), "worktree", "remove", "--force", str(self.dir)], cwd=REPO)
        shutil.rmtree(self.scratch, ignore_errors=True)

    def judge(self, rel, desc, code_text, props, with_tests=True):
        target = self.dir / rel
        original = target.read_text()
        res = {"file": rel, "mutant": desc, "killed_by": None, "tests": None}
        try:
            target.write_text(code_text)
            env = dict(os.environ, VERIF_REPO=str(self.dir), VERIF_GATE_CACHE="1", VERIF_COVERAGE="0",
                       VERIF_EVIDENCE_DIR=str(self.scratch / "ev"), VERIF_REPLAY_DIR=str(self.scratch / "rp"))
            c, o = run([PY, "-c", "import gradysim.simulator.simulation, gradysim.protocol.plugin.mission_mobility, "
                        "gradysim.protocol.plugin.random_mobility, gradysim.encapsulator.interop, "
                        "gradysim.simulator.extension.camera, gradysim.simulator.handler.assertion"],
                       cwd=self.dir, env=dict(env, PYTHONPATH=str(self.dir)))
            if c != 0:
                res["killed_by"] = "import"
                return res
            for p in props:
                c, o = run([str(VERIF / "harness" / "check"), p, "--tier", "quick"], cwd=VERIF, env=env, timeout=900)
                if c == 1 and "VIOLATION" in o:
                    line = next((l for l in o.splitlines() if l.startswith("VIOLATION")), "")
                    sig = next((l.strip() for l in o.splitlines() if l.startswith("  ")), "")
                    res["killed_by"] = p
                    res["concrete"] = "no-failing-input-found" not in line
                    res["signature"] = sig[:160]
                    return res
                if c not in (0, 1):
                    res.setdefault("infra", []).append([p, c, o[-200:]])
            if with_tests:
                c, o = run([PY, "-m", "pytest", "-q", "-x", "-p", "no:cacheprovider", "--timeout=600"], cwd=self.dir,
                           env=dict(os.environ, PYTHONPATH=str(self.dir)), timeout=1500)
                res["tests"] = "pass" if c == 0 else "fail"
            return res
        finally:
            target.write_text(original)


def main():
    ap = argparse.ArgumentParser()
    ap.add_argument("--per-file", type=int, default=30)
    ap.add_argument("--lanes", type=int, default=5)
    ap.add_argument("--files", default=None)
    ap.add_argument("--seed", type=int, default=0)
    ap.add_argument("--out", default=str(VERIF / "mutation"))
    ap.add_argument("--no-tests", action="store_true")
    a = ap.parse_args()
    files = a.files.split(",") if a.files else list(TARGETS)
    work = []
    for rel in files:
        src = (REPO / rel).read_text()
        base = ast.unparse(ast.parse(src))
        seen, ms = {base}, []
        for desc, tree in mutants(src):
            try:
                text = ast.unparse(ast.fix_missing_locations(tree))
                compile(text, rel, "exec")
            except Exception:
                continue
            if text in seen:
                continue
            seen.add(text)
            ms.append((desc, text))
        random.Random(f"{a.seed}:{rel}").shuffle(ms)
        total = len(ms)
        ms = ms[:a.per_file]
        print(f"{rel}: {total} mutants, {len(ms)} sampled", flush=True)
        work += [(rel, d, t) for d, t in ms]
    lanes = [Lane(k, a.out) for k in range(a.lanes)]
    free = list(lanes)
    results = []
    t0 = time.time()

    def job(item):
        lane = free.pop()
        try:
            rel, desc, text = item
            r = lane.judge(rel, desc, text, TARGETS[rel], with_tests=not a.no_tests)
            print(f"[{time.time() - t0:6.0f}s] {rel} {desc}: "
                  f"{'killed by ' + r['killed_by'] if r['killed_by'] else 'NOT REPORTED (tests ' + str(r['tests']) + ')'}", flush=True)
            return r
        finally:
            free.append(lane)

    try:
        with ThreadPoolExecutor(max_workers=a.lanes) as ex:
            results = list(ex.map(job, work))
    finally:
        for lane in lanes:
            lane.close()
    out = Path(a.out)
    out.mkdir(parents=True, exist_ok=True)
    summary = {"seed": a.seed, "per_file": a.per_file, "mutants": len(results),
               "killed_by_checks": sum(1 for r in results if r["killed_by"] not in (None, "import")),
               "not_importable": sum(1 for r in results if r["killed_by"] == "import"),
               "caught_only_by_tests": sum(1 for r in results if r["killed_by"] is None and r["tests"] == "fail"),
               "survivors": [r for r in results if r["killed_by"] is None and r["tests"] != "fail"]}
    (out / f"sweep_seed{a.seed}.json").write_text(json.dumps({"summary": summary, "results": results}, indent=1))
    print(json.dumps({k: v for k, v in summary.items() if k != "survivors"}))
    for r in summary["survivors"]:
        print("SURVIVOR", r["file"], r["mutant"])


if __name__ == "__main__":
    main()
