"""Base class for the simulator-level properties: scenario generation, real-simulator run, model
input, trace parsing helpers, greedy shrinking."""
import copy
import json
import random

import simgen
import simimpl
from common import bitsf, bitsv3, stable_hash
from framework import Check

SIM_MODELLED = [
    "gradysim/simulator/event.py", "gradysim/simulator/simulation.py",
    "gradysim/simulator/handler/timer.py", "gradysim/simulator/handler/communication.py",
    "gradysim/simulator/handler/mobility.py", "gradysim/encapsulator/python.py",
    "gradysim/simulator/extension/communication_controller.py", "gradysim/protocol/position.py",
]


def parse(trace):
    """-> list of callbacks {i, n, kind, key, t, pos, reqs:[(req, ok, i)]} and the other entries"""
    cbs, cur = [], None
    for i, e in enumerate(trace):
        if e[0] == "cb":
            cur = {"i": i, "n": e[1], "kind": e[2], "key": e[3], "t": e[4],
                   "pos": e[5] if len(e) > 5 else None, "reqs": []}
            cbs.append(cur)
        elif e[0] == "ext":
            # requests issued from outside any callback, between two steps, at the reported time e[2]
            cur = {"i": i, "n": e[1], "kind": "external", "key": "", "t": e[2], "pos": None, "reqs": []}
            cbs.append(cur)
        elif e[0] == "req":
            if cur is None:
                # issued outside any callback: through the provider between build() and the first step
                cur = {"i": i, "n": e[1], "kind": "prestart", "key": "", "t": 0, "pos": None, "reqs": []}
                cbs.append(cur)
            elif cur["kind"] == "prestart" and cur["n"] != e[1]:
                cur = {"i": i, "n": e[1], "kind": "prestart", "key": "", "t": 0, "pos": None, "reqs": []}
                cbs.append(cur)
            cur["reqs"].append((e[2], e[3], i))
        else:
            cur = None
    return cbs


def afters(trace):
    """executed events as seen through the after-step hook: [(iter, ts)] of the handler that reported
    most rounds (all handlers report the same on a healthy tree; C05 checks exactly that)"""
    by = {}
    for e in trace:
        if e[0] == "after":
            by.setdefault(e[1], []).append((e[2], e[3]))
    if not by:
        return []
    return max(by.values(), key=len)


def completed(case, impl):
    """did the run report completion (start returned / a step returned False)?"""
    if impl.get("crash"):
        return False
    if case["drive"]["mode"] == "start":
        return True
    return False in impl["rets"]


class SimCheck(Check):
    modelled = SIM_MODELLED
    profile = {}
    force_cfg = {}
    quick_n = 300
    thorough_n = 6000
    want_pos = False
    drive = None
    allow_tolerant = True      # scenarios in which a callback's exception escapes under a driver that keeps stepping

    def tweak(self, r, scn):
        """property-specific adjustment of a generated scenario"""
        return scn

    def generate(self, seed, tier):
        n = self.quick_n if tier == "quick" else self.thorough_n
        for i in range(n):
            s = stable_hash(self.prop, seed, i)
            scn, _ = simgen.gen_scenario(s, dict(self.force_cfg), dict(self.profile), copy.deepcopy(self.drive))
            scn["wantPos"] = self.want_pos
            scn["label"] = f"gen/{seed}/{i}"
            r = random.Random(s)
            scn = self.tweak(r, scn)
            if not self.allow_tolerant or scn["drive"]["mode"] != "steps" or scn["drive"].get("untilDone"):
                scn.pop("tolerant", None)
                if self.prop != "C06":
                    scn.pop("escapeAt", None)
            yield scn

    def behaviour(self, case):
        if case.get("frozen"):
            return None
        return simgen.Behaviour(stable_hash("beh", case.get("seed", 0)), case["cfg"], case.get("profile"))

    def run_impl(self, case):
        return simimpl.run_impl(case, self.behaviour(case), draw_seed=case.get("seed", 0))

    def model_input(self, case, impl):
        return simimpl.to_driver(case, impl)

    def crash_fail(self, impl):
        if impl.get("crash"):
            typ = impl["crash"].split(":")[0]
            return [(f"{self.prop}:crash:{typ}", f"the run aborted with {impl['crash']}")]
        return []

    def compare(self, case, impl, model):
        a, b = self.obs(case, impl), self.obs(case, model)
        diffs = []
        if model.get("untabled"):
            diffs.append(f"model reaches callbacks the implementation never made: {model['untabled'][:3]}")
        if a != b:
            diffs.append(first_diff(a, b))
        return diffs

    def obs(self, case, res):
        return res["trace"]

    def key(self, case, impl):
        return json.dumps(self.obs(case, impl), sort_keys=True, default=str)

    def sample(self, case, impl):
        return {"label": case.get("label"), "cfg": {k: v for k, v in case["cfg"].items() if k not in ("draws",)},
                "drive": case["drive"], "program_rows": len(impl["table"]),
                "trace_head": impl["trace"][:12], "trace_len": len(impl["trace"])}

    def stats(self, case, impl, acc):
        acc["scenarios"] = acc.get("scenarios", 0) + 1
        acc["trace_entries"] = acc.get("trace_entries", 0) + len(impl["trace"])
        acc["nodes_total"] = acc.get("nodes_total", 0) + case["cfg"]["nNodes"]
        for e in impl["trace"]:
            if e[0] == "req":
                k = "req_" + e[2][0] + ("" if e[3] else "_refused")
                acc[k] = acc.get(k, 0) + 1
            elif e[0] == "cb":
                k = "cb_" + e[2]
                acc[k] = acc.get(k, 0) + 1
        for x in impl.get("excTypes", []):
            acc["exc_" + x] = acc.get("exc_" + x, 0) + 1
        if impl.get("crash"):
            acc["crashes"] = acc.get("crashes", 0) + 1
        m = "drive_" + case["drive"]["mode"]
        acc[m] = acc.get(m, 0) + 1

    # -- shrinking: freeze the program as an explicit table, then drop rows / requests -------------
    def shrink(self, case, still_fails):
        impl = self.run_impl(case)
        frozen = copy.deepcopy(case)
        frozen["frozen"] = True
        frozen["table"] = impl["table"]
        frozen["cfg"]["draws"] = impl["draws"]
        frozen["prescribedDraws"] = True
        if not still_fails(frozen):
            return case
        best = frozen
        import time
        t0 = time.time()
        changed = True
        while changed and time.time() - t0 < 20:
            changed = False
            for i in range(len(best["table"]) - 1, -1, -1):
                if time.time() - t0 > 20:
                    break
                row = best["table"][i]
                if not row["reqs"]:
                    continue
                for j in range(len(row["reqs"]) - 1, -1, -1):
                    cand = copy.deepcopy(best)
                    del cand["table"][i]["reqs"][j]
                    if still_fails(cand):
                        best = cand
                        changed = True
        best["table"] = [r for r in best["table"] if r["reqs"]]
        return best


def first_diff(a, b):
    if isinstance(a, list) and isinstance(b, list):
        for i, (x, y) in enumerate(zip(a, b)):
            if x != y:
                return f"observation differs at index {i}: implementation {json.dumps(x, default=str)[:200]} vs model {json.dumps(y, default=str)[:200]}"
        return f"observation length differs: implementation {len(a)} vs model {len(b)}"
    return f"observation differs: implementation {json.dumps(a, default=str)[:300]} vs model {json.dumps(b, default=str)[:300]}"
