"""Confirm a seeded change independently and record it under /verif/seeded/<id>/.

usage: confirm_seed.py <src_dir with patch.diff demo.py notes.md> <seed id> <property id> [--no-tests]
Uses its own scratch worktree of /repo under /tmp (removed afterwards):
  1. patch applies on /repo HEAD; 2. unedited test suite passes with it; 3. demo exits non-zero with it
  and zero without it. Then runs every quick check against the change (harness/seedtest.py) and writes
  seeded/<id>/{patch.diff, demo.py, notes.md, meta.json}.
"""
import json
import os
import shutil
import subprocess
import sys
import tempfile
from pathlib import Path

HERE = Path(__file__).resolve().parent
VERIF = HERE.parent
REPO = Path("/repo")


def sh(cmd, cwd=None, env=None, timeout=1800):
    r = subprocess.run(cmd, cwd=cwd, env=env, stdout=subprocess.PIPE, stderr=subprocess.STDOUT, text=True,
                       timeout=timeout)
    return r.returncode, r.stdout


def main():
    src, sid, prop = Path(sys.argv[1]), sys.argv[2], sys.argv[3]
    run_tests = "--no-tests" not in sys.argv
    patch = (src / "patch.diff").resolve()
    wt = Path(tempfile.mkdtemp(prefix=f"confirm_{sid}_"))
    wt.rmdir()
    meta = {"id": sid, "property": prop, "source": "independent sub-agent given only the property text and a scratch worktree"}
    try:
        code, out = sh(["git", "-C", str(REPO), "worktree", "add", "--detach", str(wt), "HEAD", "-q"])
        assert code == 0, out
        env = dict(os.environ)
        env["PYTHONPATH"] = str(wt)
        env["PYTHONDONTWRITEBYTECODE"] = "1"
        demo = (src / "demo.py").resolve()
        c0, o0 = sh(["/venv/bin/python", str(demo)], cwd=str(wt), env=env, timeout=600)
        meta["demo_without_change"] = {"exit": c0, "tail": o0[-300:]}
        code, out = sh(["git", "-C", str(wt), "apply", str(patch)])
        meta["applies_on_head"] = (code == 0)
        if code != 0:
            meta["apply_error"] = out[-400:]
        else:
            c1, o1 = sh(["/venv/bin/python", str(demo)], cwd=str(wt), env=env, timeout=600)
            meta["demo_with_change"] = {"exit": c1, "tail": o1[-400:]}
            if run_tests:
                ct, ot = sh(["/venv/bin/python", "-m", "pytest", "-q", "-p", "no:cacheprovider", "--timeout=900"],
                            cwd=str(wt), env=env, timeout=3000)
                lines = [l for l in ot.splitlines() if "passed" in l or "failed" in l or "error" in l.lower()]
                meta["test_suite_with_change"] = {"exit": ct, "summary": lines[-1] if lines else ot[-200:]}
    finally:
        sh(["git", "-C", str(REPO), "worktree", "remove", "--force", str(wt)])
    ok = (meta.get("applies_on_head") and meta["demo_without_change"]["exit"] == 0
          and meta.get("demo_with_change", {}).get("exit", 0) != 0
          and (not run_tests or meta.get("test_suite_with_change", {}).get("exit") == 0))
    meta["confirmed"] = bool(ok)
    print(json.dumps(meta, indent=1))
    if ok:
        dst = VERIF / "seeded" / sid
        dst.mkdir(parents=True, exist_ok=True)
        shutil.copy(patch, dst / "patch.diff")
        shutil.copy(src / "demo.py", dst / "demo.py")
        if (src / "notes.md").exists():
            shutil.copy(src / "notes.md", dst / "notes.md")
        (dst / "meta.json").write_text(json.dumps(meta, indent=1) + "\n")
    return 0 if ok else 1


if __name__ == "__main__":
    sys.exit(main())
