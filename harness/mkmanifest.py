"""Regenerate /verif/MANIFEST.json from the checks that exist (harness/props_*.py) and
not_applicable.json (properties not claimed, with reasons). Run after adding/removing a check."""
import json
import sys
from pathlib import Path

HERE = Path(__file__).resolve().parent
sys.path.insert(0, str(HERE))
import check  # noqa: E402

VERIF = HERE.parent
NOTE = ("Trusted: Lean 4.33 kernel (axioms propext, Classical.choice, Quot.sound only; audited by #print axioms on every run; "
        "no sorry/native_decide/bv_decide/own axioms), fidelity of the hand-written Lean model (checked on every run by "
        "differential execution against /repo's working tree; sampled, not proved), Python runtime contracts (heapq, dict "
        "order, libm, dyadic float times exact), the harness itself. ")
TECH = ("Lean 4 theorems about a hand-written executable model (induction over runs / histories, all protocol programs as "
        "interaction trees) + differential correspondence of model and real code + direct trace predicate to find failing inputs")


def main():
    checks = check.all_checks()
    props = [json.loads(l) for l in (VERIF / "properties.jsonl").read_text().splitlines() if l.strip()]
    na_file = VERIF / "not_applicable.json"
    na = json.loads(na_file.read_text()) if na_file.exists() else {}
    entries, not_app = [], []
    reg = json.loads((VERIF / "lean" / "theorems.json").read_text())
    for p in props:
        pid = p["id"]
        if pid in checks and reg.get(pid):
            c = checks[pid]
            entries.append({
                "property_id": pid,
                "quick_cmd": f"harness/check {pid} --tier quick",
                "thorough_cmd": f"harness/check {pid} --tier thorough",
                "evidence_file": f"evidence/{pid}.json",
                "replay_cmd_template": f"harness/check {pid} --replay {{path}}",
                "engine": "lean4-model+correspondence",
                "level_claimed": {"category": "proof", "text": getattr(c, "level_text", c.rule),
                                  "design_ref": f"DESIGN.md section 3 ({pid})"},
                "level_note": NOTE + getattr(c, "level_note", ""),
                "technique": getattr(c, "technique", TECH),
            })
        else:
            not_app.append({"property_id": pid, "reason": na.get(pid, "check under construction in this session (model exists or is planned; see DESIGN.md section 7)")})
    m = {
        "version": 1,
        "setup_cmd": "cd lean && lake build GradysModel GradysProofs driver",
        "hooks": {"guard": "GRADYSIM_VERIF",
                  "enable": "no source hooks exist: every observation goes through public extension points (IProtocol, INodeHandler, IProvider, SimulationBuilder); the guard name is reserved",
                  "baseline_off_cmd": "cd /repo && /venv/bin/python -m pytest -ra -q -p no:cacheprovider --timeout=900 --continue-on-collection-errors",
                  "source_commits": [], "add_only": True},
        "engines": [{"name": "lean4-model+correspondence", "path": "lean/ (model, proofs, driver) + harness/ (Python)",
                     "serves_properties": [e["property_id"] for e in entries],
                     "kind_free_text": "Lean 4 executable model and kernel-checked theorems; compiled line-protocol driver; Python harness running the real gradysim code in-process and the direct property predicates"}],
        "checks": entries,
        "not_applicable": not_app,
        "notes": "See DESIGN.md. known_findings.json lists genuine defects (fixed by fix: commits in /repo, or recorded as known).",
    }
    (VERIF / "MANIFEST.json").write_text(json.dumps(m, indent=1) + "\n")
    print(f"{len(entries)} checks, {len(not_app)} not applicable")


if __name__ == "__main__":
    main()
