"""C14 — protocols behave the same in every environment wrapper.

ONE table-driven protocol class is instantiated under BOTH real wrappers
  * `InteropEncapsulator` (driven like OMNeT++ does: `set_id`, `set_timestamp`, then the callback), and
  * `PythonEncapsulator` on a `Node` with recording handler stubs (timer / communication / mobility),
and fed the same callback sequence at the same times.  Observation: the consequence lists the interop
callbacks return (type + payload content) vs the requests recorded by the python-side handlers, the
per-callback transcripts (what the protocol asked, and whether the call returned or raised), and the
real extension objects (`CameraHardware`, `CommunicationController`, `VisualizationController`) built
on the interop-wrapped protocol with every public method called.
"""
import copy
import json
import logging
import random
import warnings

from common import TICK, bitsf, bitsv3, fbits, stable_hash, to_ticks
from framework import Check
from simimpl import quiet_logging

from gradysim.encapsulator.interop import InteropEncapsulator, ConsequenceType
from gradysim.encapsulator.python import PythonEncapsulator
from gradysim.protocol.interface import IProtocol
from gradysim.protocol.messages.communication import (SendMessageCommand, BroadcastMessageCommand,
                                                      CommunicationCommandType)
from gradysim.protocol.messages.mobility import (GotoCoordsMobilityCommand, GotoGeoCoordsMobilityCommand,
                                                 SetSpeedMobilityCommand, MobilityCommandType)
from gradysim.protocol.messages.telemetry import Telemetry
from gradysim.simulator.extension.camera import CameraHardware, CameraConfiguration
from gradysim.simulator.extension.communication_controller import CommunicationController
from gradysim.simulator.extension.visualization_controller import VisualizationController
from gradysim.simulator.handler.interface import INodeHandler
from gradysim.simulator.node import Node

NAMES = ["a", "b", "c"]
EXT_METHODS = ["camera.take_picture", "camera.change_facing", "vis.paint_node", "vis.paint_environment",
               "vis.resize_nodes", "vis.show_node_id"]


def ctype_codes():
    """numeric enum values, read off the implementation (never hard-coded in the model)"""
    return {"communication": int(ConsequenceType.COMMUNICATION), "mobility": int(ConsequenceType.MOBILITY),
            "timer": int(ConsequenceType.TIMER), "trackVariable": int(ConsequenceType.TRACK_VARIABLE)}


def trig_key(n, kind, key, t):
    return f"{n}|{kind}|{t}|{key}"


# ---------------------------------------------------------------------------------- behaviour
class Behaviour:
    """reaction to a trigger (id, callback kind, payload key, time) = an action list drawn from a PRNG
    keyed by a process-independent hash of (seed, trigger)"""

    def __init__(self, seed, profile=None):
        self.seed = seed
        p = {"counts": [0, 0, 0, 1, 2, 3, 4, 5, 6, 8],
             "w": {"setTimer": 5, "send": 3, "broadcast": 2, "goto": 1.5, "gotoGeo": 0.7, "setSpeed": 1,
                   "track": 2, "ext": 1.5, "setRange": 0.7, "cancelTimer": 0.3},
             "offsets": [0, 1, 512, 1024, 4096, -1, -2048], "pGuarded": 0.0, "pBadDst": 0.2}
        p.update(profile or {})
        self.p = p
        self.uid = 0

    def react(self, n, kind, key, t):
        p = self.p
        if not isinstance(t, int):
            return []
        r = random.Random(stable_hash(self.seed, n, kind, key, t))
        k = r.choice(p["counts"])
        kinds = list(p["w"].keys())
        weights = [p["w"][x] for x in kinds]
        out = []
        for _ in range(k):
            a = self.make(r, r.choices(kinds, weights)[0], n, t)
            if r.random() < p["pGuarded"]:
                out.append(["onRefused", a, [self.make(r, r.choice(["setTimer", "broadcast", "track"]), n, t)]])
            else:
                out.append(a)
        return out

    def make(self, r, op, n, t):
        p = self.p
        if op == "setTimer":
            return ["setTimer", r.choice(NAMES), t + r.choice(p["offsets"])]
        if op == "cancelTimer":
            return ["cancelTimer", r.choice(NAMES)]
        if op == "send":
            self.uid += 1
            dst = r.choice([n, None]) if r.random() < p["pBadDst"] else r.choice([n + 1, n + 2, 0 if n else 7])
            return ["send", f"m{self.uid}", dst]
        if op == "broadcast":
            self.uid += 1
            return ["broadcast", f"b{self.uid}"]
        if op in ("goto", "gotoGeo"):
            q = (float(r.randint(-40, 40)), r.randint(-400, 400) / 8.0, float(r.randint(0, 20)))
            return [op, fbits(q[0]), fbits(q[1]), fbits(q[2])]
        if op == "setSpeed":
            return ["setSpeed", fbits(r.choice([10.0, 0.5, 64.0, 3.25]))]
        if op == "setRange":
            return ["setRange", fbits(r.choice([60.0, 5.0, 0.0, -1.0]))]
        if op == "track":
            return ["track", r.choice(["x", "y", "count"]), str(r.randint(0, 99))]
        if op == "ext":
            return ["ext", r.choice(EXT_METHODS)]
        raise ValueError(op)


# ---------------------------------------------------------------------------------- decoding
def decode_comm(cmd):
    """content of a CommunicationCommand -> action"""
    ct = getattr(cmd, "command_type", None)
    if ct == CommunicationCommandType.SEND:
        return ["send", cmd.message, cmd.destination]
    if ct == CommunicationCommandType.BROADCAST:
        return ["broadcast", cmd.message]
    return ["garbled", repr(cmd)]


def decode_mob(cmd):
    ct = getattr(cmd, "command_type", None)
    try:
        rest = (cmd.param_4, cmd.param_5, cmd.param_6)
        if ct == MobilityCommandType.GOTO_COORDS and rest == (0, 0, 0):
            return ["goto", fbits(cmd.param_1), fbits(cmd.param_2), fbits(cmd.param_3)]
        if ct == MobilityCommandType.GOTO_GEO_COORDS and rest == (0, 0, 0):
            return ["gotoGeo", fbits(cmd.param_1), fbits(cmd.param_2), fbits(cmd.param_3)]
        if ct == MobilityCommandType.SET_SPEED and rest == (0, 0, 0) and (cmd.param_2, cmd.param_3) == (0, 0):
            return ["setSpeed", fbits(cmd.param_1)]
    except Exception:
        pass
    return ["garbled", repr(cmd)]


def decode_consequence(c):
    """(ConsequenceType, payload) -> [numeric type, action]"""
    try:
        typ, payload = c
        code = int(typ)
        if typ == ConsequenceType.COMMUNICATION:
            return [code, decode_comm(payload)]
        if typ == ConsequenceType.MOBILITY:
            return [code, decode_mob(payload)]
        if typ == ConsequenceType.TIMER:
            return [code, ["setTimer", payload[0], to_ticks(payload[1])]]
        if typ == ConsequenceType.TRACK_VARIABLE:
            return [code, ["track", payload[0], payload[1]]]
    except Exception:
        pass
    return [None, ["garbled", repr(c)]]


class StubRefused(Exception):
    pass


class _Stub(INodeHandler):
    label = ""

    def __init__(self, rec):
        self.rec = rec

    @staticmethod
    def get_label():
        return "stub"

    def inject(self, event_loop):
        pass

    def register_node(self, node):
        pass


class TimerStub(_Stub):
    """python-side timer handler: records, refuses timers in the past (like the real one)"""

    def get_current_time(self):
        return self.rec.now

    def set_timer(self, timer, timestamp, node):
        self.rec.log.append(["timer", ["setTimer", timer, to_ticks(timestamp)], node.id])
        if timestamp < self.rec.now:
            raise StubRefused("past")

    def cancel_timer(self, timer, node):
        self.rec.log.append(["timer", ["cancelTimer", timer], node.id])


class CommStub(_Stub):
    def __init__(self, rec):
        super().__init__(rec)
        self.transmission_ranges = {}

    def handle_command(self, command, node):
        a = decode_comm(command)
        self.rec.log.append(["communication", a, node.id])
        if a[0] == "send" and (a[2] is None or a[2] == node.id):
            raise StubRefused("destination")


class MobStub(_Stub):
    def __init__(self, rec):
        super().__init__(rec)
        self.nodes = {}

    def handle_command(self, command, node):
        self.rec.log.append(["mobility", decode_mob(command), node.id])


# ---------------------------------------------------------------------------------- recorder
class Recorder:
    def __init__(self, case, behaviour, wrapper):
        self.wrapper = wrapper
        self.behaviour = behaviour
        self.table = {}
        for row in case.get("table", []):
            self.table[trig_key(row["n"], row["cb"], row["key"], row["t"])] = row
        self.frozen = bool(case.get("frozen"))
        self.transcripts = []      # one list of [act, ok] per callback
        self.exc = []              # exception type names of refused calls, in order
        self.triggers = []         # what the protocol read: (id, kind, key, time)
        self.ext_bad = []          # extension calls that returned a non-neutral value
        self.log = []              # python side: [handler, request, node id]
        self.now = 0.0
        self.ext = {}

    def on_callback(self, proto, kind, key):
        tr = []
        self.transcripts.append(tr)
        n = proto.provider.get_id()
        t = to_ticks(proto.provider.current_time())
        self.triggers.append([n, kind, key, t])
        k = trig_key(n, kind, key, t)
        row = self.table.get(k)
        if row is None:
            acts = [] if (self.frozen or self.behaviour is None) else self.behaviour.react(n, kind, key, t)
            row = {"n": n, "cb": kind, "key": key, "t": t, "acts": acts, "uncaught": False}
            self.table[k] = row
        unc = bool(row.get("uncaught"))
        for spec in row["acts"]:
            if spec[0] == "onRefused":
                if not self.issue(proto, spec[1], tr, unc):
                    for alt in spec[2]:
                        self.issue(proto, alt, tr, unc)
            else:
                self.issue(proto, spec, tr, unc)

    def issue(self, proto, act, tr, uncaught):
        try:
            self.perform(proto, act)
        except Exception as e:
            tr.append([act, False])
            self.exc.append(type(e).__name__)
            if uncaught:
                raise
            return False
        tr.append([act, True])
        return True

    def extension(self, proto, which):
        obj = self.ext.get(which)
        if obj is None:
            if which == "camera":
                obj = CameraHardware(proto, CameraConfiguration(20.0, 30.0, 180.0, 0.0))
            elif which == "vis":
                obj = VisualizationController(proto)
            else:
                obj = CommunicationController(proto)
            self.ext[which] = obj
        return obj

    def perform(self, proto, act):
        p = proto.provider
        op = act[0]
        if op == "setTimer":
            p.schedule_timer(act[1], act[2] / TICK)
        elif op == "cancelTimer":
            p.cancel_timer(act[1])
        elif op == "send":
            p.send_communication_command(SendMessageCommand(act[1], act[2]))
        elif op == "broadcast":
            p.send_communication_command(BroadcastMessageCommand(act[1]))
        elif op == "goto":
            p.send_mobility_command(GotoCoordsMobilityCommand(*bitsv3(act[1:4])))
        elif op == "gotoGeo":
            p.send_mobility_command(GotoGeoCoordsMobilityCommand(*bitsv3(act[1:4])))
        elif op == "setSpeed":
            p.send_mobility_command(SetSpeedMobilityCommand(bitsf(act[1])))
        elif op == "track":
            p.tracked_variables[act[1]] = act[2]
        elif op == "setRange":
            self.extension(proto, "comm").set_transmission_range(bitsf(act[1]))
        elif op == "ext":
            ret = call_ext(self, proto, act[1])
            if self.wrapper == "interop" and not is_neutral(act[1], ret):
                self.ext_bad.append([act[1], repr(ret)[:80]])
        else:
            raise ValueError(f"unknown action {op}")


def call_ext(rec, proto, name):
    which, method = name.split(".")
    obj = rec.extension(proto, which)
    if name == "camera.take_picture":
        return obj.take_picture()
    if name == "camera.change_facing":
        return obj.change_facing(90.0, 45.0)
    if name == "vis.paint_node":
        return obj.paint_node(0, (1.0, 0.0, 0.0))
    if name == "vis.paint_environment":
        return obj.paint_environment((0.0, 0.0, 1.0))
    if name == "vis.resize_nodes":
        return obj.resize_nodes(2.0)
    if name == "vis.show_node_id":
        return obj.show_node_id(0, True)
    raise ValueError(name)


def is_neutral(name, ret):
    return ret == [] if name == "camera.take_picture" else ret is None


def make_protocol(rec):
    class TableProtocol(IProtocol):
        def initialize(self):
            rec.on_callback(self, "initialize", "")

        def handle_timer(self, timer):
            rec.on_callback(self, "timer", timer)

        def handle_packet(self, message):
            rec.on_callback(self, "packet", message)

        def handle_telemetry(self, telemetry):
            rec.on_callback(self, "telemetry", "")

        def finish(self):
            rec.on_callback(self, "finish", "")

    return TableProtocol


def deliver(enc, step):
    kind, key = step[1], step[2]
    if kind == "initialize":
        return enc.initialize()
    if kind == "timer":
        return enc.handle_timer(key)
    if kind == "packet":
        return enc.handle_packet(key)
    if kind == "telemetry":
        return enc.handle_telemetry(Telemetry(current_position=bitsv3(step[3])))
    if kind == "finish":
        return enc.finish()
    raise ValueError(kind)


def run_interop(case, behaviour):
    rec = Recorder(case, behaviour, "interop")
    enc = InteropEncapsulator()
    enc.encapsulate(make_protocol(rec))
    enc.set_id(case["id"])
    out = []
    for step in case["steps"]:
        enc.set_timestamp(step[0] / TICK)
        n0 = len(rec.transcripts)
        try:
            ret = deliver(enc, step)
            ret = None if ret is None else [decode_consequence(c) for c in ret]
            if ret is None:
                ret = "returned-None"
        except Exception as e:
            ret = "raised:" + type(e).__name__
        tr = rec.transcripts[n0] if len(rec.transcripts) > n0 else []
        out.append({"ret": ret, "transcript": tr})
    pending = len(enc.provider.consequences)
    # the real extension objects, built directly on the interop-wrapped protocol, every public method
    ext = []
    before = len(enc.provider.consequences)
    rec2 = Recorder({"frozen": True}, None, "interop")
    for name in EXT_METHODS + ["comm.set_transmission_range"]:
        res = {"ok": True, "neutral": True, "touchesHandler": False, "exc": None}
        try:
            if name == "comm.set_transmission_range":
                ret = rec2.extension(enc.protocol, "comm").set_transmission_range(bitsf(case.get("extRange", fbits(25.0))))
            else:
                ret = call_ext(rec2, enc.protocol, name)
            res["neutral"] = is_neutral(name, ret)
        except Exception as e:
            res["ok"] = False
            res["exc"] = type(e).__name__
        if len(enc.provider.consequences) != before:
            res["touchesHandler"] = True      # an extension must not issue a request
        ext.append([name, res])
    return {"callbacks": out, "pending": pending, "ext": ext, "table": list(rec.table.values()),
            "triggers": rec.triggers, "exc": rec.exc, "extBad": rec.ext_bad}


def run_python(case, behaviour):
    rec = Recorder(case, behaviour, "python")
    node = Node()
    node.id = case["id"]
    node.position = (0.0, 0.0, 0.0)
    enc = PythonEncapsulator(node, timer=TimerStub(rec), communication=CommStub(rec), mobility=MobStub(rec))
    enc.encapsulate(make_protocol(rec))
    node.protocol_encapsulator = enc
    raised = []
    for step in case["steps"]:
        rec.now = step[0] / TICK
        n0 = len(rec.transcripts)
        try:
            deliver(enc, step)
            raised.append(None)
        except Exception as e:
            raised.append(type(e).__name__)
        if len(rec.transcripts) == n0:
            rec.transcripts.append([])
    return {"log": rec.log, "transcripts": rec.transcripts, "raised": raised, "table": list(rec.table.values()),
            "triggers": rec.triggers, "exc": rec.exc}


def run_shared_class():
    """ONE protocol class used under both wrappers in the same process, in both orders. The
    environment belongs to the provider instance, not to the protocol class: an extension built on the
    interop-wrapped instance is a no-op, the same extension on the python-wrapped instance works."""
    from gradysim.simulator.handler.communication import CommunicationHandler
    from gradysim.simulator.handler.timer import TimerHandler
    from gradysim.simulator.simulation import SimulationBuilder, SimulationConfiguration
    out = {}
    for order in ("python-first", "interop-first"):
        class K(IProtocol):
            def initialize(self):
                self.ctl = CommunicationController(self)
                self.ctl.set_transmission_range(25.0)
                self.cam = CameraHardware(self, CameraConfiguration(20.0, 30.0, 180.0, 0.0))
                self.seen = self.cam.take_picture()

            def handle_timer(self, timer): pass
            def handle_packet(self, message): pass
            def handle_telemetry(self, telemetry): pass
            def finish(self): pass

        def python_leg():
            comm = CommunicationHandler()
            b = SimulationBuilder(SimulationConfiguration(max_iterations=1, execution_logging=False))
            b.add_handler(comm)
            b.add_handler(TimerHandler())
            b.add_node(K, (0.0, 0.0, 0.0))
            b.add_node(K, (1.0, 0.0, 0.0))
            sim = b.build()
            quiet_logging()
            sim.step_simulation()
            return {"range0": comm.transmission_ranges.get(0)}

        def interop_leg():
            enc = InteropEncapsulator()
            enc.encapsulate(K)
            enc.set_id(0)
            ret = enc.initialize()
            return {"consequences": len(ret), "seen": enc.protocol.seen}

        res = {}
        for leg in (("python", python_leg), ("interop", interop_leg)) if order == "python-first" else \
                (("interop", interop_leg), ("python", python_leg)):
            try:
                res[leg[0]] = leg[1]()
            except Exception as e:
                res[leg[0]] = {"raised": type(e).__name__}
        out[order] = res
    return out


# ---------------------------------------------------------------------------------- the property, read directly
ROUTE = {"setTimer": "timer", "cancelTimer": "timer", "send": "communication", "broadcast": "communication",
         "goto": "mobility", "gotoGeo": "mobility", "setSpeed": "mobility"}
CTYPE_OF = {"setTimer": "timer", "send": "communication", "broadcast": "communication", "goto": "mobility",
            "gotoGeo": "mobility", "setSpeed": "mobility", "track": "trackVariable"}


def consequence_of(act, codes):
    k = CTYPE_OF.get(act[0])
    return None if k is None else [codes[k], act]


def issued(transcript, codes):
    out = []
    for act, ok in transcript:
        c = consequence_of(act, codes) if ok else None
        if c is not None:
            out.append(c)
    return out


def aborted_by_cancel(cb):
    tr = cb["transcript"]
    return cb["ret"] == "raised:NotImplementedError" and tr and tr[-1][0][0] == "cancelTimer" and not tr[-1][1]


class C14(Check):
    prop = "C14"
    level_text = ("Theorems for every protocol program (interaction tree), node id and callback sequence: every interop "
                  "callback returns exactly the consequences of the calls accepted during it and leaves nothing pending; "
                  "for acceptance-independent programs (and whenever nothing is refused) the requests the python wrapper "
                  "forwards, each to one handler in order, are the concatenation of the lists interop returns, tracked "
                  "variables apart; extension methods on a non-python provider return neutral values and issue nothing. "
                  "The model is tied to both real wrappers and the real extension classes by differential execution.")
    rule = ("one table-driven IProtocol under InteropEncapsulator (set_id/set_timestamp) and under PythonEncapsulator with "
            "recording handler stubs, same callback sequence (initialize, 3-14 timer/packet/telemetry callbacks at "
            "non-decreasing dyadic times, optional finish), 0-8 actions per callback mixing timers (some in the past), "
            "sends (some to self/None), broadcasts, three mobility commands, tracked variables, extension calls, "
            "set_transmission_range (some negative), rare caught cancel_timer, a third of the cases with programs that "
            "branch on refusal; plus every public method of the three real extension classes on the interop-wrapped "
            "protocol; non-trivial = some callbacks issue 0 and others >= 3 requests of >= 2 consequence types")
    assumptions = ["callbacks return normally (a protocol that lets cancel_timer's NotImplementedError escape is finding F14b)",
                   "wrapper equivalence is claimed for programs that do not branch on refusals, or runs in which nothing is "
                   "refused; cancel_timer has no interop counterpart",
                   "all three handlers are configured on the python side"]
    modelled = ["gradysim/encapsulator/interop.py", "gradysim/encapsulator/python.py",
                "gradysim/simulator/extension/extension.py",
                "gradysim/simulator/extension/camera.py (no-op decision)",
                "gradysim/simulator/extension/communication_controller.py",
                "gradysim/simulator/extension/visualization_controller.py (no-op decision)"]

    # ---- generation
    def generate(self, seed, tier):
        n = 600 if tier == "quick" else 12000
        for i in range(n):
            s = stable_hash("C14", seed, i)
            r = random.Random(s)
            steps = [[0, "initialize", ""]]
            t = 0
            uid = 0
            for _ in range(r.randint(3, 14)):
                t += r.choice([0, 0, 1, 512, 1024, 1024, 3072])
                kind = r.choice(["timer", "timer", "packet", "packet", "telemetry"])
                if kind == "timer":
                    steps.append([t, "timer", r.choice(NAMES)])
                elif kind == "packet":
                    uid += 1
                    steps.append([t, "packet", f"p{uid}"])
                else:
                    pos = (float(r.randint(-20, 20)), float(r.randint(-20, 20)), float(r.randint(0, 9)))
                    steps.append([t, "telemetry", "", [fbits(c) for c in pos]])
            if r.random() < 0.7:
                steps.append([t + r.choice([0, 1024]), "finish", ""])
            prof = {"pGuarded": 0.25 if i % 3 == 2 else 0.0}
            yield {"kind": "wrappers", "seed": s, "id": r.choice([0, 1, 3, 17]), "steps": steps, "profile": prof,
                   "extRange": fbits(r.choice([25.0, 0.0, -3.0, 60.0])), "label": f"gen/{seed}/{i}",
                   "sharedClass": i % 40 == 3}

    def behaviour(self, case):
        if case.get("frozen"):
            return None
        return Behaviour(stable_hash("beh", case.get("seed", 0)), case.get("profile"))

    # ---- implementation
    def run_impl(self, case):
        quiet_logging()
        with warnings.catch_warnings():
            warnings.simplefilter("ignore")
            io = run_interop(case, self.behaviour(case))
            # the python leg runs the SAME table (triggers met under interop are reused, new ones generated)
            case_py = dict(case)
            case_py["table"] = io["table"]
            py = run_python(case_py, self.behaviour(case))
            shared = run_shared_class() if case.get("sharedClass") else None
        quiet_logging()
        return {"interop": io, "python": py, "table": py["table"], "ctypes": ctype_codes(), "shared": shared}

    def model_input(self, case, impl):
        return {"kind": "interop", "id": case["id"], "steps": case["steps"], "table": impl["table"],
                "ctypes": impl["ctypes"], "extRange": case.get("extRange", fbits(25.0))}

    def compare(self, case, impl, model):
        diffs = []
        if model.get("untabled"):
            diffs.append(f"model reaches callbacks the implementation never made: {model['untabled'][:3]}")
        io, py = impl["interop"], impl["python"]
        a = [[None if isinstance(c["ret"], str) else c["ret"], c["transcript"]] for c in io["callbacks"]]
        b = [[c["ret"], c["transcript"]] for c in model["interop"]]
        for i, (x, y) in enumerate(zip(a, b)):
            if x != y:
                diffs.append(f"interop callback #{i} {case['steps'][i][:3]}: implementation {json.dumps(x)[:300]} / "
                             f"model {json.dumps(y)[:300]}")
                break
        if len(a) != len(b):
            diffs.append(f"interop: {len(a)} callbacks vs model {len(b)}")
        if io["pending"] != model["pending"]:
            diffs.append(f"interop pending consequences after the run: {io['pending']} / model {model['pending']}")
        la = [[h, r] for h, r, _ in py["log"]]
        if la != model["pyLog"]:
            k = next((i for i, (x, y) in enumerate(zip(la, model["pyLog"])) if x != y), min(len(la), len(model["pyLog"])))
            diffs.append(f"python forwarding log differs at #{k}: {la[k:k + 2]} / model {model['pyLog'][k:k + 2]}")
        if py["transcripts"] != model["pyTranscripts"]:
            diffs.append("python transcripts differ from the model's")
        ea = [[n, {k: v for k, v in r.items() if k != "exc"}] for n, r in io["ext"]]
        if ea != model["ext"]:
            k = next((i for i, (x, y) in enumerate(zip(ea, model["ext"])) if x != y), 0)
            diffs.append(f"extension on interop: {io['ext'][k]} / model {model['ext'][k]}")
        return diffs

    # ---- the property's statement on the implementation's observations
    def oracle(self, case, impl):
        fails = []
        codes = impl["ctypes"]
        io, py = impl["interop"], impl["python"]
        cbs = io["callbacks"]
        steps = case["steps"]
        for order, res in (impl.get("shared") or {}).items():
            i, p = res.get("interop", {}), res.get("python", {})
            if "raised" in i or i.get("consequences") != 0 or i.get("seen") != []:
                fails.append(("C14:extension-not-noop", f"one protocol class under both wrappers ({order}): extensions on "
                              f"the interop-wrapped instance gave {i} instead of being no-ops"))
            if "raised" in p or p.get("range0") != 25.0:
                fails.append(("C14:extension-disabled-in-python", f"one protocol class under both wrappers ({order}): the "
                              f"communication controller on the python-wrapped instance gave {p}; expected range 25.0"))
        # protocol-visible inputs: id and time, identical in both wrappers
        want = [[case["id"], s[1], s[2], s[0]] for s in steps]
        for name, got in (("interop", io["triggers"]), ("python", py["triggers"])):
            if got != want:
                k = next((i for i, (x, y) in enumerate(zip(got, want)) if x != y), min(len(got), len(want)))
                fails.append(("C14:callback-inputs", f"{name} wrapper: callback #{k} saw (id, kind, payload, time) = "
                              f"{got[k:k + 1]}, delivered {want[k:k + 1]}"))
        # A. each callback returns exactly what was issued during it, nothing left over
        carry, carry_cancel_only = [], True
        for i, cb in enumerate(cbs):
            mine = issued(cb["transcript"], codes)
            if isinstance(cb["ret"], str):
                if cb["ret"].startswith("raised:"):
                    carry = carry + mine
                    carry_cancel_only = carry_cancel_only and aborted_by_cancel(cb)
                else:
                    fails.append(("C14:returned-not-issued", f"interop callback #{i} {steps[i][:3]} returned None"))
                continue
            if cb["ret"] != mine:
                if carry and carry_cancel_only and cb["ret"] == carry + mine:
                    fails.append(("C14:interop-cancel-timer",
                                  f"interop callback #{i} {steps[i][:3]} returned {len(carry)} consequence(s) left over "
                                  f"from an earlier callback that cancel_timer aborted with NotImplementedError: {carry[:3]}"))
                else:
                    fails.append(("C14:returned-not-issued",
                                  f"interop callback #{i} {steps[i][:3]} returned {json.dumps(cb['ret'])[:240]} but issued "
                                  f"{json.dumps(mine)[:240]}"))
            carry, carry_cancel_only = [], True
        if io["pending"] != 0:
            if carry and carry_cancel_only and io["pending"] == len(carry):
                fails.append(("C14:interop-cancel-timer", f"{io['pending']} consequence(s) still pending after the last "
                              f"callback, issued before cancel_timer raised NotImplementedError"))
            else:
                fails.append(("C14:left-over", f"{io['pending']} consequence(s) pending after the last callback"))
        # B. python forwards every provider request to exactly one handler, in order, for this node
        flat_py = [a for tr in py["transcripts"] for a, _ in tr]
        want_log = [[ROUTE[a[0]], a, case["id"]] for a in flat_py if a[0] in ROUTE]
        if py["log"] != want_log:
            k = next((i for i, (x, y) in enumerate(zip(py["log"], want_log)) if x != y), min(len(py["log"]), len(want_log)))
            fails.append(("C14:python-forwarding", f"python wrapper: handler calls differ from the protocol's requests at "
                          f"#{k}: recorded {py['log'][k:k + 2]}, requested {want_log[k:k + 2]}"))
        #    wrapper equivalence, under the property's guard
        rows = {trig_key(r["n"], r["cb"], r["key"], r["t"]): r for r in impl["table"]}
        used = [rows.get(trig_key(*[tg[0], tg[1], tg[2], tg[3]])) for tg in io["triggers"]]
        listlike = all(r is None or all(a[0] != "onRefused" for a in r["acts"]) for r in used)
        uncaught = any(r is not None and r.get("uncaught") for r in used)
        refused = any(not ok for tr in py["transcripts"] for _, ok in tr) or \
            any(not ok for cb in cbs for _, ok in cb["transcript"])
        all_returned = all(not isinstance(cb["ret"], str) for cb in cbs) and all(x is None for x in py["raised"])
        if all_returned and not uncaught and (listlike or not refused):
            acts_io = [[a for a, _ in cb["transcript"]] for cb in cbs]
            acts_py = [[a for a, _ in tr] for tr in py["transcripts"]]
            if acts_io != acts_py:
                k = next((i for i, (x, y) in enumerate(zip(acts_io, acts_py)) if x != y), 0)
                fails.append(("C14:wrappers-differ", f"callback #{k} {steps[k][:3]}: the protocol issued {acts_io[k][:4]} "
                              f"under interop but {acts_py[k][:4]} under python"))
            fwd = [consequence_of(a, codes) for _, a, _ in py["log"] if a[0] != "cancelTimer"]
            ret = [c for cb in cbs for c in cb["ret"] if c[0] != codes["trackVariable"]]
            if fwd != ret:
                k = next((i for i, (x, y) in enumerate(zip(fwd, ret)) if x != y), min(len(fwd), len(ret)))
                fails.append(("C14:wrappers-differ", f"requests forwarded by the python wrapper differ from the consequences "
                              f"returned by interop at #{k}: {fwd[k:k + 2]} / {ret[k:k + 2]}"))
        # C. extensions are no-ops outside the python simulator
        for i, cb in enumerate(cbs):
            for a, ok in cb["transcript"]:
                if not ok and (a[0] == "ext" or (a[0] == "setRange" and bitsf(a[1]) >= 0)):
                    fails.append(("C14:extension-not-noop", f"interop callback #{i}: {a} raised "
                                  f"({sorted(set(io['exc']))}) instead of being a no-op"))
        for name, ret in io["extBad"]:
            fails.append(("C14:extension-not-noop", f"{name} returned {ret} under interop, not its neutral value"))
        neg = bitsf(case.get("extRange", fbits(25.0))) < 0
        for name, res in io["ext"]:
            expect_ok = not (name == "comm.set_transmission_range" and neg)
            if res["ok"] != expect_ok:
                fails.append(("C14:extension-not-noop", f"{name} on an interop-wrapped protocol raised {res['exc']}"
                              if expect_ok else f"{name} accepted a negative range"))
            elif res["ok"] and (not res["neutral"] or res["touchesHandler"]):
                fails.append(("C14:extension-not-noop", f"{name} on an interop-wrapped protocol returned a value or issued a request"))
        return fails

    # ---- bookkeeping
    def nontrivial(self, case, impl):
        codes = impl["ctypes"]
        cbs = impl["interop"]["callbacks"]
        zero = any(len(cb["transcript"]) == 0 for cb in cbs)
        rich = False
        for cb in cbs:
            cs = issued(cb["transcript"], codes)
            if len(cs) >= 3 and len({c[0] for c in cs}) >= 2:
                rich = True
        return zero and rich

    def key(self, case, impl):
        return json.dumps([[cb["ret"], cb["transcript"]] for cb in impl["interop"]["callbacks"]], sort_keys=True, default=str)

    def sample(self, case, impl):
        return {"label": case.get("label"), "id": case["id"], "steps": case["steps"][:6],
                "interop_returns": [cb["ret"] for cb in impl["interop"]["callbacks"][:3]],
                "python_log": impl["python"]["log"][:6], "ext": impl["interop"]["ext"][:3]}

    def stats(self, case, impl, acc):
        acc["cases"] = acc.get("cases", 0) + 1
        acc["callbacks"] = acc.get("callbacks", 0) + len(case["steps"])
        for cb in impl["interop"]["callbacks"]:
            for a, ok in cb["transcript"]:
                k = "act_" + a[0] + ("" if ok else "_refused")
                acc[k] = acc.get(k, 0) + 1
        for tr in impl["python"]["transcripts"]:
            for a, ok in tr:
                if not ok:
                    acc["python_refused_" + a[0]] = acc.get("python_refused_" + a[0], 0) + 1
        if any(any(a[0] == "onRefused" for a in r["acts"]) for r in impl["table"]):
            acc["cases_branching_on_refusal"] = acc.get("cases_branching_on_refusal", 0) + 1

    def shrink(self, case, still_fails):
        impl = self.run_impl(case)
        best = copy.deepcopy(case)
        best["frozen"] = True
        best["table"] = impl["table"]
        if not still_fails(best):
            return case
        changed = True
        while changed:
            changed = False
            for i in range(len(best["steps"]) - 1, 0, -1):
                cand = copy.deepcopy(best)
                del cand["steps"][i]
                if still_fails(cand):
                    best, changed = cand, True
            for ri in range(len(best["table"])):
                for ai in range(len(best["table"][ri]["acts"]) - 1, -1, -1):
                    cand = copy.deepcopy(best)
                    del cand["table"][ri]["acts"][ai]
                    if still_fails(cand):
                        best, changed = cand, True
        keys = {trig_key(case["id"], s[1], s[2], s[0]) for s in best["steps"]}
        best["table"] = [r for r in best["table"] if trig_key(r["n"], r["cb"], r["key"], r["t"]) in keys and r["acts"]]
        return best if still_fails(best) else case


CHECKS = {"C14": C14}
