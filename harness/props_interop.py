"""C14 — protocols behave the same in every environment wrapper.

ONE table-driven protocol class is instantiated under BOTH real wrappers
  * `InteropEncapsulator` (driven like OMNeT++ does: `set_id`, `set_timestamp`, then the callback), and
  * `PythonEncapsulator` on a `Node` with recording handler stubs (timer / communication / mobility),
and fed the same callback sequence at the same times.  Observation: the consequence lists the interop
callbacks return (type + payload content) vs the requests recorded by the python-side handlers, the
per-callback transcripts (what the protocol asked, and whether the call returned or raised), and the
real extension objects (`CameraHardware`, `CommunicationController`, `VisualizationController`) built
on the interop-wrapped protocol with every public method called.

Several instances of the one protocol class can be alive in a leg at the same time (OMNeT++ and the
python simulator both create one wrapper per node in one process; `ids`, `who`, `legs` of a case) with
their callbacks interleaved; the protocol keeps state (it counts its callbacks and reads its tracked
variables back into requests), and callbacks repeat with equal content (a stationary node's telemetry,
a re-sent packet, a periodic timer).

The protocol USES what its extensions return the way a caller may: the list `take_picture()` hands it
is completed (append / extend / insert / +=) before the number of entries goes into a broadcast.

Protocols built from plugins: like every stock plugin, the table protocol can ask for the dispatcher of
its instance (`create_dispatcher`, which replaces the instance's callback methods) from `initialize()`
— i.e. after the wrapper instantiated it — or when the first event arrives, and register handlers in
front of its callbacks (own action lists, CONTINUE / INTERRUPT per callback).  A second kind of case
(`kind: plugins`) builds a protocol from the real stock plugins (mission, random trip, leader,
follower), drives it through their public methods and compares, callback by callback, the requests
the python-side handlers saw with the consequences interop returned.

Spelling of the calls: a protocol is written against `IProvider` (and whatever drives a wrapper against
`IEncapsulator`), so it may pass arguments by the parameter names those interfaces publish.  In half of the
cases a share (0.25 / 0.5 / 1) of the protocol's provider calls — table protocol and the stock-plugin
protocol's own calls alike — and/or of the callbacks handed to the wrappers is spelt with keywords (all by
name, all by name in another order, first positional and the rest by name); the names are read off the
interfaces' signatures with `inspect`, the same spelling is used in both legs, the model never sees it.
"""
import copy
import inspect
import json
import logging
import os
import random
import subprocess
import sys
import warnings

from common import TICK, bitsf, bitsv3, fbits, stable_hash, to_ticks
from framework import Check
from simimpl import quiet_logging

from gradysim.encapsulator.interface import IEncapsulator
from gradysim.encapsulator.interop import InteropEncapsulator, ConsequenceType
from gradysim.encapsulator.python import PythonEncapsulator
from gradysim.protocol.interface import IProtocol, IProvider
from gradysim.protocol.messages.communication import (SendMessageCommand, BroadcastMessageCommand,
                                                      CommunicationCommandType)
from gradysim.protocol.messages.mobility import (GotoCoordsMobilityCommand, GotoGeoCoordsMobilityCommand,
                                                 SetSpeedMobilityCommand, MobilityCommandType)
from gradysim.protocol.messages.telemetry import Telemetry
from gradysim.protocol.plugin.dispatcher import create_dispatcher, DispatchReturn
from gradysim.protocol.plugin.follow_mobility import (MobilityLeaderPlugin, MobilityLeaderConfiguration,
                                                      MobilityFollowerPlugin, MobilityFollowerConfiguration,
                                                      BROADCAST_TIMER_TAG, FOLLOWER_TIMER_TAG, LEADER_TAG, FOLLOWER_TAG)
from gradysim.protocol.plugin.mission_mobility import (MissionMobilityPlugin, MissionMobilityConfiguration, LoopMission,
                                                       MissionMobilityPluginException)
from gradysim.protocol.plugin.random_mobility import RandomMobilityPlugin, RandomMobilityConfig
from gradysim.simulator.extension.camera import CameraHardware, CameraConfiguration
from gradysim.simulator.extension.communication_controller import CommunicationController
from gradysim.simulator.extension.visualization_controller import VisualizationController
from gradysim.simulator.handler.interface import INodeHandler
from gradysim.simulator.node import Node

NAMES = ["a", "b", "c"]
CB_KINDS = ["initialize", "timer", "packet", "telemetry", "finish"]
# what a protocol does to the list `take_picture()` handed to it before it reports the number of entries
# (the list is the caller's: in the python simulator it is built anew for every picture), and how many
# entries that adds to a picture on which nobody else is to be seen
PIC_HOWS = {"read": 0, "append": 1, "extend": 2, "insert": 1, "iadd": 1}
EXT_METHODS = ["camera.take_picture", "camera.change_facing", "vis.paint_node", "vis.paint_environment",
               "vis.resize_nodes", "vis.show_node_id"]


def ctype_codes():
    """numeric enum values, read off the implementation (never hard-coded in the model)"""
    return {"communication": int(ConsequenceType.COMMUNICATION), "mobility": int(ConsequenceType.MOBILITY),
            "timer": int(ConsequenceType.TIMER), "trackVariable": int(ConsequenceType.TRACK_VARIABLE)}


def trig_key(n, kind, key, t):
    return f"{n}|{kind}|{t}|{key}"


def case_ids(case):
    """node ids of the wrapped instances (instance 0 first)"""
    return list(case.get("ids") or [case["id"]])


def case_who(case):
    """instance index each step is addressed to"""
    w = case.get("who")
    return list(w) if w is not None else [0] * len(case["steps"])


def case_legs(case):
    """which instances exist in which leg; an absent instance's steps are not delivered there"""
    everyone = list(range(len(case_ids(case))))
    legs = case.get("legs") or {}
    return {"interop": list(legs.get("interop", everyone)), "python": list(legs.get("python", everyone))}


def leg_steps(case, leg):
    """global indices of the steps delivered in a leg"""
    present = set(case_legs(case)[leg])
    return [i for i, k in enumerate(case_who(case)) if k in present]


def nat_of(v):
    v = str(v)
    return int(v) if v.isascii() and v.isdigit() else 0


# ---------------------------------------------------------------------------------- how a call is spelt
SPELLINGS = ["kw", "kw", "kwrev", "tail"]


def published(iface, method):
    """the parameter names an interface of the project publishes for a method (read off its signature)"""
    try:
        ps = list(inspect.signature(getattr(iface, method)).parameters.values())
    except (AttributeError, TypeError, ValueError):
        return None
    if ps and ps[0].name == "self":
        ps = ps[1:]
    if any(p.kind is not inspect.Parameter.POSITIONAL_OR_KEYWORD for p in ps):
        return None
    return [p.name for p in ps]


def spelled(fn, iface, method, values, how):
    """call `fn(*values)` the way a caller written against `iface.method` may spell it: positionally, with
    every argument by its published name (in the published or another order), or the first one positionally
    and the rest by name"""
    names = published(iface, method)
    values = list(values)
    if how in (None, "pos") or names is None or len(names) != len(values):
        return fn(*values)
    pairs = list(zip(names, values))
    if how == "kw":
        return fn(**dict(pairs))
    if how == "kwrev":
        return fn(**dict(reversed(pairs)))
    if how == "tail":
        return fn(values[0], **dict(pairs[1:]))
    raise ValueError(how)


def gen_kw(tag, seed, i):
    """how a case's protocol (and the driver of its wrapper) spells its calls: half of the cases positionally
    throughout (like the project's own plugins), the others with a share of keyword spellings"""
    r = random.Random(stable_hash(tag, seed, i))
    share = r.choice([0.0, 0.0, 0.0, 0.25, 0.5, 1.0])               # of the protocol's provider calls
    deliver = r.choice([0.0, 0.0, 0.0, 0.5, 1.0])                   # of the callbacks handed to the wrapper
    if not share and not deliver:
        return None
    return {"seed": r.randrange(1 << 30), "share": share, "deliver": deliver}


def draw_spelling(kw, *where, which="share"):
    """spelling of one call, from the case's `kw` entry {"seed", "share", "deliver"} and the place of the call"""
    share = (kw or {}).get(which) or 0.0
    if not share:
        return "pos"
    r = random.Random(stable_hash("C14-kw", kw.get("seed", 0), which, *where))
    return r.choice(SPELLINGS) if r.random() < share else "pos"


# ---------------------------------------------------------------------------------- behaviour
class Behaviour:
    """reaction to a trigger (id, callback kind, payload key, time) = an action list drawn from a PRNG
    keyed by a process-independent hash of (seed, trigger)"""

    def __init__(self, seed, profile=None):
        self.seed = seed
        p = {"counts": [0, 0, 0, 1, 2, 3, 4, 5, 6, 8],
             "w": {"setTimer": 5, "send": 3, "broadcast": 2, "goto": 1.5, "gotoGeo": 0.7, "setSpeed": 1,
                   "track": 2, "ext": 1.5, "setRange": 0.7, "cancelTimer": 0.3,
                   "trackInc": 0.0, "sendTracked": 0.0, "sendCount": 0.0, "picReport": 0.5},
             "offsets": [0, 1, 512, 1024, 4096, -1, -2048], "pGuarded": 0.0, "pBadDst": 0.2}
        p.update(profile or {})
        self.p = p
        self.uid = 0

    def react(self, n, kind, key, t):
        p = self.p
        if not isinstance(t, int):
            return []
        r = random.Random(stable_hash(self.seed, n, kind, key, t))
        k = r.choice(p["counts"])
        kinds = list(p["w"].keys())
        weights = [p["w"][x] for x in kinds]
        out = []
        for _ in range(k):
            a = self.make(r, r.choices(kinds, weights)[0], n, t)
            if r.random() < p["pGuarded"]:
                out.append(["onRefused", a, [self.make(r, r.choice(["setTimer", "broadcast", "track"]), n, t)]])
            else:
                out.append(a)
        return out

    def react_stages(self, n, kind, key, t, count):
        """the dispatcher handlers of a protocol that plugs `count` of them in front of its own callbacks:
        one action list per handler, and the handler (if any) that answers INTERRUPT to this callback"""
        p = self.p
        if not isinstance(t, int):
            return [[] for _ in range(count)], None
        r = random.Random(stable_hash(self.seed, "stages", n, kind, key, t))
        kinds = list(p["w"].keys())
        weights = [p["w"][x] for x in kinds]
        stages = [[self.make(r, r.choices(kinds, weights)[0], n, t) for _ in range(r.choice([0, 1, 1, 2, 3]))]
                  for _ in range(count)]
        stop = r.randrange(count) if r.random() < p.get("pInterrupt", 0.3) else None
        return stages, stop

    def make(self, r, op, n, t):
        p = self.p
        if op == "picReport":
            return ["picReport", r.choice(["read", "append", "append", "append", "extend", "insert", "iadd"])]
        if op == "setTimer":
            return ["setTimer", r.choice(NAMES), t + r.choice(p["offsets"])]
        if op == "cancelTimer":
            return ["cancelTimer", r.choice(NAMES)]
        if op == "send":
            self.uid += 1
            dst = r.choice([n, None]) if r.random() < p["pBadDst"] else r.choice([n + 1, n + 2, 0 if n else 7])
            return ["send", f"m{self.uid}", dst]
        if op == "broadcast":
            self.uid += 1
            return ["broadcast", f"b{self.uid}"]
        if op in ("goto", "gotoGeo"):
            q = (float(r.randint(-40, 40)), r.randint(-400, 400) / 8.0, float(r.randint(0, 20)))
            return [op, fbits(q[0]), fbits(q[1]), fbits(q[2])]
        if op == "setSpeed":
            return ["setSpeed", fbits(r.choice([10.0, 0.5, 64.0, 3.25]))]
        if op == "setRange":
            return ["setRange", fbits(r.choice([60.0, 5.0, 0.0, -1.0]))]
        if op == "track":
            return ["track", r.choice(["x", "y", "count"]), str(r.randint(0, 99))]
        if op == "ext":
            return ["ext", r.choice(EXT_METHODS)]
        if op in ("trackInc", "sendTracked"):
            return [op, r.choice(["x", "y", "count"])]
        if op == "sendCount":
            return ["sendCount"]
        raise ValueError(op)


# ---------------------------------------------------------------------------------- decoding
def decode_comm(cmd):
    """content of a CommunicationCommand -> action"""
    ct = getattr(cmd, "command_type", None)
    if ct == CommunicationCommandType.SEND:
        return ["send", cmd.message, cmd.destination]
    if ct == CommunicationCommandType.BROADCAST:
        return ["broadcast", cmd.message]
    return ["garbled", repr(cmd)]


def decode_mob(cmd):
    ct = getattr(cmd, "command_type", None)
    try:
        rest = (cmd.param_4, cmd.param_5, cmd.param_6)
        if ct == MobilityCommandType.GOTO_COORDS and rest == (0, 0, 0):
            return ["goto", fbits(cmd.param_1), fbits(cmd.param_2), fbits(cmd.param_3)]
        if ct == MobilityCommandType.GOTO_GEO_COORDS and rest == (0, 0, 0):
            return ["gotoGeo", fbits(cmd.param_1), fbits(cmd.param_2), fbits(cmd.param_3)]
        if ct == MobilityCommandType.SET_SPEED and rest == (0, 0, 0) and (cmd.param_2, cmd.param_3) == (0, 0):
            return ["setSpeed", fbits(cmd.param_1)]
    except Exception:
        pass
    return ["garbled", repr(cmd)]


def decode_consequence(c):
    """(ConsequenceType, payload) -> [numeric type, action]"""
    try:
        typ, payload = c
        code = int(typ)
        if typ == ConsequenceType.COMMUNICATION:
            return [code, decode_comm(payload)]
        if typ == ConsequenceType.MOBILITY:
            return [code, decode_mob(payload)]
        if typ == ConsequenceType.TIMER:
            return [code, ["setTimer", payload[0], to_ticks(payload[1])]]
        if typ == ConsequenceType.TRACK_VARIABLE:
            return [code, ["track", payload[0], payload[1]]]
    except Exception:
        pass
    return [None, ["garbled", repr(c)]]


class StubRefused(Exception):
    pass


class _Stub(INodeHandler):
    label = ""

    def __init__(self, rec):
        self.rec = rec

    @staticmethod
    def get_label():
        return "stub"

    def inject(self, event_loop):
        pass

    def register_node(self, node):
        pass


class TimerStub(_Stub):
    """python-side timer handler: records, refuses timers in the past (like the real one)"""

    def get_current_time(self):
        return self.rec.now

    def set_timer(self, timer, timestamp, node):
        self.rec.log.append(["timer", ["setTimer", timer, to_ticks(timestamp)], node.id, self.rec.inst(node)])
        if timestamp < self.rec.now:
            raise StubRefused("past")

    def cancel_timer(self, timer, node):
        self.rec.log.append(["timer", ["cancelTimer", timer], node.id, self.rec.inst(node)])


class CommStub(_Stub):
    def __init__(self, rec):
        super().__init__(rec)
        self.transmission_ranges = {}

    def handle_command(self, command, node):
        a = decode_comm(command)
        self.rec.log.append(["communication", a, node.id, self.rec.inst(node)])
        if a[0] == "send" and (a[2] is None or a[2] == node.id):
            raise StubRefused("destination")


class MobStub(_Stub):
    def __init__(self, rec):
        super().__init__(rec)
        self.nodes = {}

    def handle_command(self, command, node):
        self.rec.log.append(["mobility", decode_mob(command), node.id, self.rec.inst(node)])


# ---------------------------------------------------------------------------------- recorder
class Recorder:
    def __init__(self, case, behaviour, wrapper):
        self.wrapper = wrapper
        self.behaviour = behaviour
        self.table = {}
        for row in case.get("table", []):
            self.table[trig_key(row["n"], row["cb"], row["key"], row["t"])] = row
        self.frozen = bool(case.get("frozen"))
        plug = case.get("plug") or {}
        self.stages = int(plug.get("stages", 0))     # dispatcher handlers the protocol puts in front of its callbacks
        self.plug_at = plug.get("at", "initialize") if self.stages else None
        self.kw = case.get("kw") or {}   # share of the provider calls spelt with the parameter names IProvider publishes
        self.spelt = {}                  # spellings used (statistics)
        self.transcripts = []      # one list of [act, ok] per delivered callback (all the handlers it reached)
        self.excs = []             # per delivered callback: exception type name (or None) of every transcript entry
        self.activations = []      # per delivered callback: the handlers reached, ["own" | stage, id, kind, key, time, pos]
        self.own_calls = []        # per delivered callback: how often the protocol's own method ran
        self.exc = []              # exception type names of refused calls, in order
        self.triggers = []         # what the protocol's own methods read: (id, kind, key, time)
        self.seen_pos = []         # ... and the position a telemetry callback carried (None otherwise)
        self.ext_bad = []          # extension calls that returned a non-neutral value
        self.log = []              # python side: [handler, request, node id, instance the node object belongs to]
        self.nodes = []            # python side: the Node objects, by instance
        self.now = 0.0
        self.ext = {}
        self.opened = True

    def inst(self, node):
        return next((k for k, nd in self.nodes if nd is node), None)

    def begin_step(self):
        """the driver is about to deliver one callback to a wrapper"""
        self.transcripts.append([])
        self.excs.append([])
        self.activations.append([])
        self.own_calls.append(0)
        self.opened = False

    def enter(self, proto):
        """a handler of the protocol was reached; the first one of a delivered callback counts it"""
        if not self.transcripts:
            self.begin_step()
        if not self.opened:
            self.opened = True
            proto.seen = getattr(proto, "seen", 0) + 1       # protocol-local state: callbacks received
        return self.transcripts[-1]

    def row_for(self, n, kind, key, t):
        k = trig_key(n, kind, key, t)
        row = self.table.get(k)
        if row is None:
            live = not (self.frozen or self.behaviour is None)
            row = {"n": n, "cb": kind, "key": key, "t": t, "uncaught": False,
                   "acts": self.behaviour.react(n, kind, key, t) if live else []}
            if self.stages:
                row["stages"], row["stop"] = self.behaviour.react_stages(n, kind, key, t, self.stages) if live else \
                    ([[] for _ in range(self.stages)], None)
            self.table[k] = row
        return row

    @staticmethod
    def pos_of(telemetry):
        try:
            return None if telemetry is None else [fbits(float(c)) for c in telemetry.current_position]
        except Exception:
            return ["garbled", repr(telemetry)[:80]]

    def run_acts(self, proto, acts, tr, unc):
        for spec in acts:
            if spec[0] == "onRefused":
                if not self.issue(proto, spec[1], tr, unc):
                    for alt in spec[2]:
                        self.issue(proto, alt, tr, unc)
            else:
                self.issue(proto, spec, tr, unc)

    def on_callback(self, proto, kind, key, telemetry=None):
        """the protocol's own initialize / handle_* / finish"""
        tr = self.enter(proto)
        self.own_calls[-1] += 1
        n = proto.provider.get_id()
        t = to_ticks(proto.provider.current_time())
        self.triggers.append([n, kind, key, t])
        self.seen_pos.append(self.pos_of(telemetry))
        self.activations[-1].append(["own", n, kind, key, t, self.pos_of(telemetry)])
        if (self.plug_at == "initialize" and kind == "initialize") or \
                (self.plug_at == "lazy" and kind in ("timer", "packet", "telemetry")):
            self.plug(proto)
        row = self.row_for(n, kind, key, t)
        self.run_acts(proto, row["acts"], tr, bool(row.get("uncaught")))

    def on_stage(self, proto, stage, kind, key, telemetry=None):
        """handler number `stage` of the protocol's dispatcher chain; answers CONTINUE or INTERRUPT"""
        tr = self.enter(proto)
        n = proto.provider.get_id()
        t = to_ticks(proto.provider.current_time())
        self.activations[-1].append([stage, n, kind, key, t, self.pos_of(telemetry)])
        row = self.row_for(n, kind, key, t)
        stages = row.get("stages") or []
        self.run_acts(proto, stages[stage] if stage < len(stages) else [], tr, bool(row.get("uncaught")))
        return DispatchReturn.INTERRUPT if row.get("stop") == stage else DispatchReturn.CONTINUE

    def plug(self, proto):
        """what every stock plugin does (usually from the protocol's initialize(), where the provider is
        there): ask for the protocol instance's dispatcher and register handlers in front of its callbacks"""
        if getattr(proto, "plugged", False):
            return
        proto.plugged = True
        rec = self
        for stage in range(self.stages):
            d = create_dispatcher(proto)
            d.register_initialize(lambda p, s=stage: rec.on_stage(p, s, "initialize", ""))
            d.register_handle_timer(lambda p, timer, s=stage: rec.on_stage(p, s, "timer", timer))
            d.register_handle_packet(lambda p, message, s=stage: rec.on_stage(p, s, "packet", message))
            d.register_handle_telemetry(lambda p, telemetry, s=stage: rec.on_stage(p, s, "telemetry", "", telemetry))
            d.register_finish(lambda p, s=stage: rec.on_stage(p, s, "finish", ""))

    def resolve(self, proto, act):
        """the request actually made: entries whose content depends on what the protocol instance has
        seen (`self.seen`), reads back from `provider.tracked_variables`, or is told by its camera"""
        op = act[0]
        if op == "trackInc":
            tv = proto.provider.tracked_variables
            return ["track", act[1], str(nat_of(tv.get(act[1], "0")) + 1)]
        if op == "sendTracked":
            return ["broadcast", f"{act[1]}={proto.provider.tracked_variables.get(act[1], '-')}"]
        if op == "sendCount":
            return ["broadcast", f"n={proto.seen}"]
        if op == "picReport":
            # the picture is the caller's list: the protocol completes it with what it knows itself and
            # reports how many entries it has now
            pic = call_ext(self, proto, "camera.take_picture")
            if self.wrapper == "interop" and not is_neutral("camera.take_picture", pic):
                self.ext_bad.append(["camera.take_picture", repr(pic)[:80]])
            me = {"position": (0.0, 0.0, float(proto.provider.get_id())), "type": "self"}
            how = act[1]
            if how == "append":
                pic.append(me)
            elif how == "extend":
                pic.extend([me, dict(me, type="remembered")])
            elif how == "insert":
                pic.insert(0, me)
            elif how == "iadd":
                pic += [me]
            elif how != "read":
                raise ValueError(how)
            return ["broadcast", f"pic={len(pic)}"]
        return act

    def issue(self, proto, act, tr, uncaught):
        try:
            act = self.resolve(proto, act)
            self.perform(proto, act)
        except Exception as e:
            tr.append([act, False])
            self.excs[-1].append(type(e).__name__)
            self.exc.append(type(e).__name__)
            if uncaught:
                raise
            return False
        tr.append([act, True])
        self.excs[-1].append(None)
        return True

    def extension(self, proto, which):
        slot = (id(proto), which)
        obj = self.ext.get(slot)
        if obj is None:
            if which == "camera":
                obj = CameraHardware(proto, CameraConfiguration(20.0, 30.0, 180.0, 0.0))
            elif which == "vis":
                obj = VisualizationController(proto)
            else:
                obj = CommunicationController(proto)
            self.ext[slot] = obj
            self.ext_keep = getattr(self, "ext_keep", []) + [proto]      # keeps id(proto) unique
        return obj

    def ask(self, proto, method, *values):
        """one call of a provider method, spelt positionally or with the names `IProvider` publishes"""
        p = proto.provider
        how = draw_spelling(self.kw, p.get_id(), to_ticks(p.current_time()), len(self.transcripts[-1]), method)
        if how != "pos":
            self.spelt[how] = self.spelt.get(how, 0) + 1
        return spelled(getattr(p, method), IProvider, method, values, how)

    def perform(self, proto, act):
        p = proto.provider
        op = act[0]
        if op == "setTimer":
            self.ask(proto, "schedule_timer", act[1], act[2] / TICK)
        elif op == "cancelTimer":
            self.ask(proto, "cancel_timer", act[1])
        elif op == "send":
            self.ask(proto, "send_communication_command", SendMessageCommand(act[1], act[2]))
        elif op == "broadcast":
            self.ask(proto, "send_communication_command", BroadcastMessageCommand(act[1]))
        elif op == "goto":
            self.ask(proto, "send_mobility_command", GotoCoordsMobilityCommand(*bitsv3(act[1:4])))
        elif op == "gotoGeo":
            self.ask(proto, "send_mobility_command", GotoGeoCoordsMobilityCommand(*bitsv3(act[1:4])))
        elif op == "setSpeed":
            self.ask(proto, "send_mobility_command", SetSpeedMobilityCommand(bitsf(act[1])))
        elif op == "track":
            p.tracked_variables[act[1]] = act[2]
        elif op == "setRange":
            self.extension(proto, "comm").set_transmission_range(bitsf(act[1]))
        elif op == "ext":
            ret = call_ext(self, proto, act[1])
            if self.wrapper == "interop" and not is_neutral(act[1], ret):
                self.ext_bad.append([act[1], repr(ret)[:80]])
        else:
            raise ValueError(f"unknown action {op}")


def call_ext(rec, proto, name):
    which, method = name.split(".")
    obj = rec.extension(proto, which)
    if name == "camera.take_picture":
        return obj.take_picture()
    if name == "camera.change_facing":
        return obj.change_facing(90.0, 45.0)
    if name == "vis.paint_node":
        return obj.paint_node(0, (1.0, 0.0, 0.0))
    if name == "vis.paint_environment":
        return obj.paint_environment((0.0, 0.0, 1.0))
    if name == "vis.resize_nodes":
        return obj.resize_nodes(2.0)
    if name == "vis.show_node_id":
        return obj.show_node_id(0, True)
    raise ValueError(name)


def is_neutral(name, ret):
    return ret == [] if name == "camera.take_picture" else ret is None


def make_protocol(rec):
    class TableProtocol(IProtocol):
        def initialize(self):
            rec.on_callback(self, "initialize", "")

        def handle_timer(self, timer):
            rec.on_callback(self, "timer", timer)

        def handle_packet(self, message):
            rec.on_callback(self, "packet", message)

        def handle_telemetry(self, telemetry):
            rec.on_callback(self, "telemetry", "", telemetry)

        def finish(self):
            rec.on_callback(self, "finish", "")

    return TableProtocol


def deliver(enc, step, how="pos"):
    """one callback handed to a wrapper, spelt positionally or with the names `IEncapsulator` publishes"""
    kind, key = step[1], step[2]
    if kind == "initialize":
        return enc.initialize()
    if kind == "timer":
        return spelled(enc.handle_timer, IEncapsulator, "handle_timer", [key], how)
    if kind == "packet":
        return spelled(enc.handle_packet, IEncapsulator, "handle_packet", [key], how)
    if kind == "telemetry":
        return spelled(enc.handle_telemetry, IEncapsulator, "handle_telemetry",
                       [Telemetry(current_position=bitsv3(step[3]))], how)
    if kind == "finish":
        return enc.finish()
    raise ValueError(kind)


def deliver_spelling(case, i):
    return draw_spelling(case.get("kw"), i, which="deliver")


def run_interop(case, behaviour):
    rec = Recorder(case, behaviour, "interop")
    ids, who, present = case_ids(case), case_who(case), case_legs(case)["interop"]
    cls = make_protocol(rec)          # ONE protocol class, one wrapper per node, all alive at once
    encs = {}
    for k in present:
        encs[k] = InteropEncapsulator()
        encs[k].encapsulate(cls)
        encs[k].set_id(ids[k])
    out = []
    for i in leg_steps(case, "interop"):
        step, enc = case["steps"][i], encs[who[i]]
        enc.set_timestamp(step[0] / TICK)
        rec.begin_step()
        try:
            ret = deliver(enc, step, deliver_spelling(case, i))
            ret = None if ret is None else [decode_consequence(c) for c in ret]
            if ret is None:
                ret = "returned-None"
        except Exception as e:
            ret = "raised:" + type(e).__name__
        out.append({"ret": ret, "transcript": rec.transcripts[-1], "calls": rec.own_calls[-1],
                    "reached": rec.activations[-1], "excs": rec.excs[-1]})
    pending_by = {k: len(encs[k].provider.consequences) for k in present}
    # the real extension objects, built directly on the interop-wrapped protocol, every public method
    ext = []
    enc = encs[present[0]]
    before = len(enc.provider.consequences)
    rec2 = Recorder({"frozen": True}, None, "interop")
    for name in EXT_METHODS + ["comm.set_transmission_range"]:
        res = {"ok": True, "neutral": True, "touchesHandler": False, "exc": None}
        try:
            if name == "comm.set_transmission_range":
                ret = rec2.extension(enc.protocol, "comm").set_transmission_range(bitsf(case.get("extRange", fbits(25.0))))
            else:
                ret = call_ext(rec2, enc.protocol, name)
            res["neutral"] = is_neutral(name, ret)
        except Exception as e:
            res["ok"] = False
            res["exc"] = type(e).__name__
        if len(enc.provider.consequences) != before:
            res["touchesHandler"] = True      # an extension must not issue a request
        ext.append([name, res])
    return {"callbacks": out, "pending": sum(pending_by.values()), "pendingBy": [[k, n] for k, n in pending_by.items()],
            "ext": ext, "table": list(rec.table.values()),
            "triggers": rec.triggers, "seenPos": rec.seen_pos, "exc": rec.exc, "extBad": rec.ext_bad,
            "spelt": rec.spelt}


def run_python(case, behaviour):
    rec = Recorder(case, behaviour, "python")
    ids, who, present = case_ids(case), case_who(case), case_legs(case)["python"]
    cls = make_protocol(rec)
    handlers = {"timer": TimerStub(rec), "communication": CommStub(rec), "mobility": MobStub(rec)}   # shared by the nodes
    encs = {}
    for k in present:
        node = Node()
        node.id = ids[k]
        node.position = (0.0, 0.0, 0.0)
        rec.nodes.append((k, node))
        encs[k] = PythonEncapsulator(node, **handlers)
        encs[k].encapsulate(cls)
        node.protocol_encapsulator = encs[k]
    raised, calls = [], []
    for i in leg_steps(case, "python"):
        step = case["steps"][i]
        rec.now = step[0] / TICK
        rec.begin_step()
        try:
            deliver(encs[who[i]], step, deliver_spelling(case, i))
            raised.append(None)
        except Exception as e:
            raised.append(type(e).__name__)
        calls.append(rec.own_calls[-1])
    return {"log": rec.log, "transcripts": rec.transcripts, "raised": raised, "calls": calls, "reached": rec.activations,
            "excs": rec.excs, "table": list(rec.table.values()), "triggers": rec.triggers, "seenPos": rec.seen_pos, "exc": rec.exc}


# ---------------------------------------------------------------------------------- protocols built from the stock plugins
class _PlugRec:
    def __init__(self):
        self.cur = []
        self.now = 0.0
        self.refused = False


class PlugTimerStub(_Stub):
    def get_current_time(self):
        return self.rec.now

    def set_timer(self, timer, timestamp, node):
        self.rec.cur.append(["setTimer", timer, fbits(float(timestamp))])
        if timestamp < self.rec.now:
            self.rec.refused = True
            raise StubRefused("past")

    def cancel_timer(self, timer, node):
        self.rec.cur.append(["cancelTimer", timer])


class PlugCommStub(_Stub):
    def handle_command(self, command, node):
        a = decode_comm(command)
        self.rec.cur.append(a)
        if a[0] == "send" and (a[2] is None or a[2] == node.id):
            self.rec.refused = True
            raise StubRefused("destination")


class PlugMobStub(_Stub):
    def __init__(self, rec):
        super().__init__(rec)
        self.nodes = {}

    def handle_command(self, command, node):
        self.rec.cur.append(decode_mob(command))


def plain_request(c):
    """a consequence returned by interop, as the request it stands for (times as float bits)"""
    try:
        typ, payload = c
        if typ == ConsequenceType.COMMUNICATION:
            return decode_comm(payload)
        if typ == ConsequenceType.MOBILITY:
            return decode_mob(payload)
        if typ == ConsequenceType.TIMER:
            return ["setTimer", payload[0], fbits(float(payload[1]))]
        if typ == ConsequenceType.TRACK_VARIABLE:
            return ["track", payload[0], repr(payload[1])]
    except Exception:
        pass
    return ["garbled", repr(c)[:120]]


def make_plugin_protocol(case):
    """a protocol put together the documented way: it creates stock plugins (every one of them hooks into the
    protocol instance through `create_dispatcher`) in `initialize()` — or when the first timer fires —, drives
    them through their public methods and reports what their public properties say"""
    specs, at = case["plugins"], case.get("at", "initialize")
    kw = case.get("kw") or {}

    class PluginProtocol(IProtocol):
        def ask(self, method, *values):
            """the protocol's own provider calls, a share of them spelt with the names `IProvider` publishes"""
            self.asked = getattr(self, "asked", 0) + 1
            return spelled(getattr(self.provider, method), IProvider, method, values,
                           draw_spelling(kw, "own", self.asked, method))

        def initialize(self):
            self.count = 0
            self.made = False
            self.mission = self.trip = self.leader = self.follower = None
            self.route = []
            if at == "initialize":
                self.make()
            self.ask("schedule_timer", "report", self.provider.current_time() + 1)

        def make(self):
            self.made = True
            for sp in specs:
                if sp["p"] == "mission":
                    self.mission = MissionMobilityPlugin(self, MissionMobilityConfiguration(
                        speed=sp["speed"], loop_mission=LoopMission[sp["loop"]], tolerance=sp["tol"]))
                    self.route = [tuple(w) for w in sp["waypoints"]]
                    self.mission.start_mission(list(self.route))
                elif sp["p"] == "random":
                    self.trip = RandomMobilityPlugin(self, RandomMobilityConfig(tolerance=sp["tol"]))
                    self.trip.initiate_random_trip()
                elif sp["p"] == "leader":
                    self.leader = MobilityLeaderPlugin(self, MobilityLeaderConfiguration(
                        broadcast_interval=sp["interval"], follower_timeout=sp["timeout"]))
                elif sp["p"] == "follower":
                    self.follower = MobilityFollowerPlugin(self, MobilityFollowerConfiguration(
                        scanning_interval=sp["scan"], leader_timeout=sp["timeout"]))
                    self.follower.set_relative_position(tuple(sp["rel"]))

        def status(self):
            out = []
            if self.mission is not None:
                out.append(f"wp={self.mission.current_waypoint} idle={self.mission.is_idle} rev={self.mission.is_reversed}")
            if self.trip is not None:
                out.append(f"trip={self.trip.trip_ongoing} target={self.trip.current_target}")
            if self.leader is not None:
                out.append(f"followers={sorted(self.leader.followers)}")
            if self.follower is not None:
                out.append(f"leader={self.follower.current_leader} at={self.follower.current_leader_position} "
                           f"known={sorted(self.follower.available_leaders)}")
            return "; ".join(out) if self.made else "-"

        def say(self, text):
            self.ask("send_communication_command", BroadcastMessageCommand(text))

        def handle_timer(self, timer):
            if not self.made:
                self.make()
            self.count += 1
            if timer == "report":
                self.say(f"{self.provider.get_id()} #{self.count} {self.status()}")
                self.ask("schedule_timer", "report", self.provider.current_time() + 1)
            elif timer == "halt":
                if self.mission is not None:
                    self.mission.stop_mission()
                if self.trip is not None:
                    self.trip.finish_random_trip()
            elif timer == "again":
                if self.mission is not None:
                    self.mission.start_mission(list(self.route))
                if self.trip is not None:
                    self.trip.initiate_random_trip()
            elif timer in ("turn", "skip") and self.mission is not None:
                try:
                    if timer == "turn":
                        self.mission.set_reversed(not self.mission.is_reversed)
                    else:
                        self.mission.set_current_waypoint(1)
                except MissionMobilityPluginException:
                    self.say(f"{timer} not possible")
            else:
                self.say(f"timer {timer} #{self.count}")

        def handle_packet(self, message):
            self.count += 1
            self.provider.tracked_variables["last"] = message[:24]
            self.ask("send_communication_command", SendMessageCommand(f"ack #{self.count}", self.provider.get_id() + 1))

        def handle_telemetry(self, telemetry):
            self.count += 1
            if self.count % 3 == 0:
                self.say(f"at {tuple(telemetry.current_position)} {self.status()}")

        def finish(self):
            self.provider.tracked_variables["done"] = self.status()

    return PluginProtocol


def deliver_plain(enc, step, how="pos"):
    kind, key = step[1], step[2]
    if kind == "telemetry":
        return spelled(enc.handle_telemetry, IEncapsulator, "handle_telemetry",
                       [Telemetry(current_position=tuple(step[3]))], how)
    return deliver(enc, step, how)


def run_plugins(case):
    """ONE protocol class built from stock plugins under both real wrappers, the same callbacks at the same times"""
    cls = make_plugin_protocol(case)
    state = random.getstate()
    try:
        # --- interop
        random.seed(case.get("rseed", 0))           # RandomMobilityPlugin draws from the global generator
        enc = InteropEncapsulator()
        enc.encapsulate(cls)
        enc.set_id(case["id"])
        io = []
        for i, step in enumerate(case["steps"]):
            enc.set_timestamp(step[0] / TICK)
            try:
                ret = deliver_plain(enc, step, deliver_spelling(case, i))
                io.append({"ret": [plain_request(c) for c in ret], "raised": None})
            except Exception as e:
                io.append({"ret": None, "raised": type(e).__name__})
        pending = len(enc.provider.consequences)
        # --- python
        random.seed(case.get("rseed", 0))
        rec = _PlugRec()
        node = Node()
        node.id = case["id"]
        node.position = (0.0, 0.0, 0.0)
        penc = PythonEncapsulator(node, timer=PlugTimerStub(rec), communication=PlugCommStub(rec), mobility=PlugMobStub(rec))
        penc.encapsulate(cls)
        node.protocol_encapsulator = penc
        py = []
        for i, step in enumerate(case["steps"]):
            rec.now = step[0] / TICK
            rec.cur = []
            try:
                deliver_plain(penc, step, deliver_spelling(case, i))
                py.append({"req": rec.cur, "raised": None})
            except Exception as e:
                py.append({"req": rec.cur, "raised": type(e).__name__})
        tv = {k: repr(v) for k, v in penc.provider.tracked_variables.items()}
    finally:
        random.setstate(state)
    return {"interop": io, "python": py, "pending": pending, "tvPython": tv, "refused": rec.refused}


def gen_plugins_case(seed, i):
    s = stable_hash("C14-plugins", seed, i)
    r = random.Random(s)
    rseed = r.randrange(1 << 30)
    mob = r.choice(["mission", "mission", "mission", "random", "follower", None])
    specs, targets = [], []
    if mob == "mission":
        grid = [(float(x), float(y), float(z)) for x in (0, 5, 10) for y in (0, 5) for z in (0, 4)]
        way = r.sample(grid, r.randint(2, 4))
        specs.append({"p": "mission", "waypoints": [list(w) for w in way], "loop": r.choice(["NO", "RESTART", "REVERSE"]),
                      "tol": r.choice([0.5, 1.0]), "speed": r.choice([5, 2.5])})
        targets = way * 3
    elif mob == "random":
        specs.append({"p": "random", "tol": 1.0})
        rr = random.Random(rseed)               # the trip the plugin will draw from the generator seeded alike
        targets = [(rr.uniform(-50, 50), rr.uniform(-50, 50), rr.uniform(0, 50)) for _ in range(8)]
    elif mob == "follower":
        specs.append({"p": "follower", "scan": 0.5, "timeout": r.choice([2.0, 0.75]), "rel": [1.0, 0.0, -1.0]})
    if mob is None or r.random() < 0.35:
        specs.append({"p": "leader", "interval": r.choice([0.5, 0.25]), "timeout": 3})
    r.shuffle(specs)
    social = any(sp["p"] in ("leader", "follower") for sp in specs)      # their first timers are absolute times
    at = "initialize" if social else r.choice(["initialize", "initialize", "lazy"])
    steps = [[0, "initialize", ""]]
    t, nxt = 0, 0
    for _ in range(r.randint(8, 28)):
        t += r.choice([0, 0, 256, 512, 1024])
        kind = r.choices(["telemetry", "timer", "packet"], [5, 3, 2])[0]
        if kind == "telemetry":
            if targets and r.random() < 0.65:
                base = targets[nxt % len(targets)]
                near = r.random() < 0.8
                pos = (base[0] + r.choice([0.0, 0.25, -0.25] if near else [3.0, -2.0]), base[1], base[2])
                nxt += 1 if near else 0
            elif targets:
                pos = r.choice(targets)
            else:
                pos = (float(r.randint(-9, 9)), float(r.randint(-9, 9)), 2.0)
            steps.append([t, "telemetry", "", list(pos)])
        elif kind == "timer":
            steps.append([t, "timer", r.choice(["report", "report", "halt", "again", "turn", "skip", "x",
                                                BROADCAST_TIMER_TAG, BROADCAST_TIMER_TAG, FOLLOWER_TIMER_TAG,
                                                FOLLOWER_TIMER_TAG])])
        else:
            who = r.choice([5, 6])
            msg = r.choice([f"{LEADER_TAG}:" + json.dumps({"id": who, "position": [float(r.randint(-9, 9)), 2.5, 7.0]}),
                            f"{LEADER_TAG}:" + json.dumps({"id": who, "position": [1.0, float(r.randint(-9, 9)), 0.0]}),
                            f"{FOLLOWER_TAG}:{r.choice([7, 8])}", f"hello {r.randint(0, 9)}"])
            steps.append([t, "packet", msg])
    if r.random() < 0.7:
        steps.append([t + r.choice([0, 1024]), "finish", ""])
    case = {"kind": "plugins", "seed": s, "rseed": rseed, "id": r.choice([0, 1, 3]), "plugins": specs, "at": at,
            "steps": steps, "label": f"gen-plugins/{seed}/{i}"}
    kw = gen_kw("C14-plugins-kw", seed, i)
    if kw:
        case["kw"] = kw
    return case


def run_shared_class():
    """ONE protocol class used under both wrappers in the same process, in both orders. The
    environment belongs to the provider instance, not to the protocol class: an extension built on the
    interop-wrapped instance is a no-op, the same extension on the python-wrapped instance works."""
    from gradysim.simulator.handler.communication import CommunicationHandler
    from gradysim.simulator.handler.timer import TimerHandler
    from gradysim.simulator.simulation import SimulationBuilder, SimulationConfiguration
    out = {}
    for order in ("python-first", "interop-first"):
        class K(IProtocol):
            def initialize(self):
                self.ctl = CommunicationController(self)
                self.ctl.set_transmission_range(25.0)
                self.cam = CameraHardware(self, CameraConfiguration(20.0, 30.0, 180.0, 0.0))
                self.seen = self.cam.take_picture()

            def handle_timer(self, timer): pass
            def handle_packet(self, message): pass
            def handle_telemetry(self, telemetry): pass
            def finish(self): pass

        def python_leg():
            comm = CommunicationHandler()
            b = SimulationBuilder(SimulationConfiguration(max_iterations=1, execution_logging=False))
            b.add_handler(comm)
            b.add_handler(TimerHandler())
            b.add_node(K, (0.0, 0.0, 0.0))
            b.add_node(K, (1.0, 0.0, 0.0))
            sim = b.build()
            quiet_logging()
            sim.step_simulation()
            return {"range0": comm.transmission_ranges.get(0)}

        def interop_leg():
            enc = InteropEncapsulator()
            enc.encapsulate(K)
            enc.set_id(0)
            ret = enc.initialize()
            return {"consequences": len(ret), "seen": enc.protocol.seen}

        res = {}
        for leg in (("python", python_leg), ("interop", interop_leg)) if order == "python-first" else \
                (("interop", interop_leg), ("python", python_leg)):
            try:
                res[leg[0]] = leg[1]()
            except Exception as e:
                res[leg[0]] = {"raised": type(e).__name__}
        out[order] = res
    return out


# ---------------------------------------------------------------------------------- the property, read directly
ROUTE = {"setTimer": "timer", "cancelTimer": "timer", "send": "communication", "broadcast": "communication",
         "goto": "mobility", "gotoGeo": "mobility", "setSpeed": "mobility"}
CTYPE_OF = {"setTimer": "timer", "send": "communication", "broadcast": "communication", "goto": "mobility",
            "gotoGeo": "mobility", "setSpeed": "mobility", "track": "trackVariable"}


def row_acts(row):
    """every entry of a table row: the protocol's own method and the handlers plugged in front of it"""
    return list(row["acts"]) + [a for st in row.get("stages") or [] for a in st]


def consequence_of(act, codes):
    k = CTYPE_OF.get(act[0])
    return None if k is None else [codes[k], act]


def issued(transcript, codes):
    out = []
    for act, ok in transcript:
        c = consequence_of(act, codes) if ok else None
        if c is not None:
            out.append(c)
    return out


def aborted_by_cancel(cb):
    tr = cb["transcript"]
    return cb["ret"] == "raised:NotImplementedError" and tr and tr[-1][0][0] == "cancelTimer" and not tr[-1][1]


class Pristine:
    """Evaluates a case in a process in which NO case has run before: a freshly started interpreter
    that has only imported this module forks one child per case.  Used when a failing input is
    minimised: a wrapper that keeps state between instances also keeps it between the cases of one
    check run, and a replay file must fail on its own (`--replay` starts a new process)."""

    def __init__(self):
        env = dict(os.environ)
        env["VERIF_COVERAGE"] = "0"
        self.proc = subprocess.Popen([sys.executable, os.path.abspath(__file__), "--pristine-server"],
                                     stdin=subprocess.PIPE, stdout=subprocess.PIPE, text=True, env=env)

    def fails(self, case):
        """signatures the property predicate reports for the case alone"""
        try:
            self.proc.stdin.write(json.dumps(case) + "\n")
            self.proc.stdin.flush()
            return [x[0] for x in json.loads(self.proc.stdout.readline())]
        except Exception:
            return None

    def close(self):
        try:
            self.proc.stdin.close()
            self.proc.wait(timeout=10)
        except Exception:
            self.proc.kill()


def pristine_server():
    import signal
    out = os.fdopen(os.dup(1), "w")
    sys.stdout = sys.stderr
    chk = C14()
    for line in sys.stdin:
        case = json.loads(line)
        r, w = os.pipe()
        pid = os.fork()
        if pid == 0:
            os.close(r)
            try:
                signal.alarm(60)
                res = [[sig, msg] for sig, msg in chk.oracle(case, chk.run_impl(case))]
            except BaseException as e:
                res = [["error", repr(e)]]
            with os.fdopen(w, "w") as f:
                f.write(json.dumps(res))
            os._exit(0)
        os.close(w)
        with os.fdopen(r) as f:
            data = f.read()
        os.waitpid(pid, 0)
        out.write((data.strip() or "[]") + "\n")
        out.flush()


class C14(Check):
    prop = "C14"
    level_text = ("Theorems for every protocol program (interaction tree), node id and callback sequence: every interop "
                  "callback returns exactly the consequences of the calls accepted during it and leaves nothing pending; "
                  "for acceptance-independent programs (and whenever nothing is refused) the requests the python wrapper "
                  "forwards, each to one handler in order, are the concatenation of the lists interop returns, tracked "
                  "variables apart; extension methods on a non-python provider return neutral values and issue nothing; "
                  "with any number of wrapped instances of the protocol class alive at once and their callbacks interleaved, "
                  "every instance returns / performs / forwards what it does when driven alone (the other instances, and the "
                  "other instances of the other run, do not matter); a protocol with handlers plugged in front of its "
                  "callbacks through its dispatcher (whenever it plugs them) is a protocol like any other: returns-exactly for "
                  "every such chain, wrapper equivalence for acceptance-independent chains under arbitrary refusals and for "
                  "any chain when nothing is refused; take_picture without a mobility handler hands out an empty list of its "
                  "own whatever was done to the earlier ones. "
                  "The model is tied to both real wrappers and the real extension classes by differential execution.")
    rule = ("one table-driven IProtocol class under InteropEncapsulator (set_id/set_timestamp) and under PythonEncapsulator with "
            "recording handler stubs, same callback sequence (initialize, 3-14 timer/packet/telemetry callbacks at "
            "non-decreasing dyadic times, optional finish), 0-8 actions per callback mixing timers (some in the past), "
            "sends (some to self/None), broadcasts, three mobility commands, tracked variables, extension calls, "
            "set_transmission_range (some negative), rare caught cancel_timer, a third of the cases with programs that "
            "branch on refusal; 1-3 wrapped instances of the class alive at once per wrapper (two thirds of the cases more "
            "than one: callbacks interleaved, or the others run to completion first like an earlier simulation in the same "
            "process, sometimes re-using the node id; in 40% of those the other instances exist under one wrapper only); "
            "half of the cases with a protocol that has memory (puts its callback count into a broadcast, increments a "
            "tracked variable it reads back, broadcasts a tracked variable it reads back; names shared by the instances); "
            "half of the cases draw callback contents from a small alphabet (a node that does not move incl. 0.0 / -0.0, "
            "re-sent packets) and a callback is repeated unchanged with probability 0 / 0.25 / 0.5; "
            "the protocol completes the picture lists its camera hands it (append/extend/insert/+=) and broadcasts their "
            "length (weight 0.5, in the memory half 2 of ~21); 40% of the cases with 1-3 handlers registered through "
            "create_dispatcher from the protocol's own initialize() (2/3) or at the first event (1/3), each with its own "
            "action list per callback, one of them answering INTERRUPT in 30% of the callbacks; "
            "half of the cases spell a share (0.25/0.5/1) of the protocol's provider calls and/or (40%: 0.5/1) of the "
            "callbacks handed to the wrapper with the parameter names IProvider / IEncapsulator publish (all by name, "
            "reversed, first positional + rest by name; names read with inspect; same spelling in both legs); "
            "plus every public method of the three real extension classes on the interop-wrapped "
            "protocol; non-trivial = some callbacks issue 0 and others >= 3 requests of >= 2 consequence types. "
            "Plus 150 (thorough 3000) protocols built from the stock plugins created in initialize() or at the first timer "
            "(mission with 2-4 waypoints and NO/RESTART/REVERSE loops, seeded random trip, leader, follower; 8-28 callbacks: "
            "telemetry mostly at the next waypoint / predicted random target, own and plugin timers, leader / follower / "
            "other packets; the protocol calls stop/start/set_reversed/set_current_waypoint and broadcasts the plugins' "
            "public status), under both wrappers, compared callback by callback (predicate only)")
    assumptions = ["callbacks return normally (a protocol that lets cancel_timer's NotImplementedError escape is finding F14b)",
                   "wrapper equivalence is claimed for programs that do not branch on refusals, or runs in which nothing is "
                   "refused; cancel_timer has no interop counterpart",
                   "all three handlers are configured on the python side",
                   "the callbacks of one node are delivered one at a time (no re-entrancy); a replay file is judged alone, "
                   "in a process that has run no other case",
                   "python side of a picture: the stub mobility handler knows no other node, so the picture is empty there too",
                   "stock-plugin cases: the plugins' own logic is not modelled (C16/C17); RandomMobilityPlugin draws from the "
                   "global generator, seeded alike before each leg; cases in which a python-side handler refuses a request "
                   "are outside the claim (none generated)"]
    modelled = ["gradysim/encapsulator/interop.py", "gradysim/encapsulator/python.py",
                "gradysim/simulator/extension/extension.py",
                "gradysim/simulator/extension/camera.py (no-op decision, a new list per picture)",
                "gradysim/protocol/plugin/dispatcher.py (chain order and INTERRUPT, as seen by the wrappers)",
                "gradysim/simulator/extension/communication_controller.py",
                "gradysim/simulator/extension/visualization_controller.py (no-op decision)"]

    # ---- generation
    def generate(self, seed, tier):
        n = 600 if tier == "quick" else 12000
        for i in range(n):
            s = stable_hash("C14", seed, i)
            r = random.Random(s)
            # how many wrapped instances of the protocol class are alive at once, and in which leg
            n_inst = r.choice([1, 1, 2, 2, 2, 3])
            ids = r.sample([0, 1, 3, 17], n_inst)
            everyone = list(range(n_inst))
            legs = {"interop": everyone, "python": everyone}
            if n_inst > 1:
                m = r.random()
                if m < 0.2:
                    legs["interop"] = [0]          # the others exist under the python wrapper only
                elif m < 0.4:
                    legs["python"] = [0]
            pattern = r.choice(["interleaved", "interleaved", "others-first"]) if n_inst > 1 else "interleaved"
            if pattern == "others-first" and r.random() < 0.5:
                ids = [ids[0]] + r.sample([0, 1, 3, 17], n_inst - 1)      # a later run numbers its nodes anew
            # content of the callbacks: fresh every time, or from a small alphabet so that equal
            # callbacks recur (a node that does not move, a packet that is re-sent, a periodic timer)
            still = r.random() < 0.5
            spots = [(0.0, 0.0, 0.0), (-0.0, 0.0, 0.0), (float(r.randint(-20, 20)), float(r.randint(-20, 20)), 3.0)]
            p_repeat = r.choice([0.0, 0.25, 0.5])
            steps, who = [], []
            for k in everyone:
                steps.append([0, "initialize", ""])
                who.append(k)
            t = 0
            uid = 0
            last = {}
            body = []
            for _ in range(r.randint(3, 14) + 3 * (n_inst - 1)):
                t += r.choice([0, 0, 1, 512, 1024, 1024, 3072])
                k = r.choice(everyone)
                if k in last and r.random() < p_repeat:
                    st = [t] + copy.deepcopy(last[k][1:])          # the same callback once more
                else:
                    kind = r.choice(["timer", "timer", "packet", "packet", "telemetry", "telemetry" if still else "timer"])
                    if kind == "timer":
                        st = [t, "timer", r.choice(NAMES)]
                    elif kind == "packet":
                        uid += 1
                        st = [t, "packet", f"p{r.randint(1, 2)}" if still else f"p{uid}"]
                        if r.random() < 0.12:
                            st[2] = ""          # an empty payload (a heartbeat) is a packet like any other (seeded C14_L)
                    else:
                        pos = r.choice(spots) if still else \
                            (float(r.randint(-20, 20)), float(r.randint(-20, 20)), float(r.randint(0, 9)))
                        st = [t, "telemetry", "", [fbits(c) for c in pos]]
                last[k] = st
                body.append((k, st))
            if pattern == "others-first":
                # an earlier simulation in the same process: the other instances run to completion first
                t0 = max([st[0] for k, st in body if k != 0], default=0)
                body = [(k, st) for k, st in body if k != 0] + \
                       [(k, [st[0] + t0] + st[1:]) for k, st in body if k == 0]
                t = max([st[0] for _, st in body], default=t)
            for k, st in body:
                steps.append(st)
                who.append(k)
            if r.random() < 0.7:
                for k in everyone:
                    if k == 0 or r.random() < 0.5:
                        steps.append([t + r.choice([0, 1024]), "finish", ""])
                        who.append(k)
                        t = steps[-1][0]
            prof = {"pGuarded": 0.25 if i % 3 == 2 else 0.0}
            if i % 2 == 1:
                # a protocol with memory: counts its callbacks, reads its tracked variables back, completes the
                # pictures its camera hands it
                prof["w"] = {"setTimer": 4, "send": 2, "broadcast": 1.5, "goto": 1, "gotoGeo": 0.5, "setSpeed": 0.7,
                             "track": 2.5, "ext": 1, "setRange": 0.5, "cancelTimer": 0.3,
                             "trackInc": 2, "sendTracked": 2.5, "sendCount": 1.5, "picReport": 2}
            case = {"kind": "wrappers", "seed": s, "id": ids[0], "ids": ids, "who": who, "legs": legs, "steps": steps,
                    "profile": prof, "extRange": fbits(r.choice([25.0, 0.0, -3.0, 60.0])), "label": f"gen/{seed}/{i}",
                    "sharedClass": i % 40 == 3}
            rp = random.Random(stable_hash("C14-plug", seed, i))
            if i % 5 in (1, 3):
                # a protocol built from plugins: like every stock plugin it asks for the dispatcher of its instance
                # (which replaces the instance's callback methods) and registers handlers in front of its own
                # callbacks — in initialize(), where the provider is there, or when the first event arrives
                case["plug"] = {"stages": rp.choice([1, 2, 2, 3]), "at": rp.choice(["initialize", "initialize", "lazy"])}
            kw = gen_kw("C14-kw", seed, i)
            if kw:
                case["kw"] = kw
            yield case
        # protocols built from the stock plugins (mission, random trip, leader, follower)
        for i in range(150 if tier == "quick" else 3000):
            yield gen_plugins_case(seed, i)

    def behaviour(self, case):
        if case.get("frozen"):
            return None
        return Behaviour(stable_hash("beh", case.get("seed", 0)), case.get("profile"))

    # ---- implementation
    def run_impl(self, case):
        quiet_logging()
        if case.get("kind") == "plugins":
            with warnings.catch_warnings():
                warnings.simplefilter("ignore")
                out = run_plugins(case)
            quiet_logging()
            return out
        with warnings.catch_warnings():
            warnings.simplefilter("ignore")
            io = run_interop(case, self.behaviour(case))
            # the python leg runs the SAME table (triggers met under interop are reused, new ones generated)
            case_py = dict(case)
            case_py["table"] = io["table"]
            py = run_python(case_py, self.behaviour(case))
            shared = run_shared_class() if case.get("sharedClass") else None
        quiet_logging()
        return {"interop": io, "python": py, "table": py["table"], "ctypes": ctype_codes(), "shared": shared}

    def model_input(self, case, impl):
        if case.get("kind") == "plugins":
            return None          # the stock plugins' own logic is not modelled here (C16, C17); predicate only
        return {"kind": "interop", "id": case_ids(case)[0], "ids": case_ids(case), "who": case_who(case),
                "legs": case_legs(case), "steps": case["steps"], "table": impl["table"],
                "ctypes": impl["ctypes"], "extRange": case.get("extRange", fbits(25.0)),
                "plug": case.get("plug") or {"stages": 0, "at": "initialize"}}

    def compare(self, case, impl, model):
        diffs = []
        if model.get("untabled"):
            diffs.append(f"model reaches callbacks the implementation never made: {model['untabled'][:3]}")
        io, py = impl["interop"], impl["python"]
        ids = case_ids(case)
        io_idx = leg_steps(case, "interop")
        a = [[None if isinstance(c["ret"], str) else c["ret"], c["transcript"]] for c in io["callbacks"]]
        b = [[c["ret"], c["transcript"]] for c in model["interop"]]
        for i, (x, y) in enumerate(zip(a, b)):
            if x != y:
                diffs.append(f"interop callback #{io_idx[i]} {case['steps'][io_idx[i]][:3]}: implementation "
                             f"{json.dumps(x)[:300]} / model {json.dumps(y)[:300]}")
                break
        if len(a) != len(b):
            diffs.append(f"interop: {len(a)} callbacks vs model {len(b)}")
        if io["pending"] != model["pending"]:
            diffs.append(f"interop pending consequences after the run: {io['pending']} / model {model['pending']}")
        for k, mlog in model["pyLog"]:
            la = [[h, r] for h, r, _, inst in py["log"] if inst == k]
            if la != mlog:
                j = next((i for i, (x, y) in enumerate(zip(la, mlog)) if x != y), min(len(la), len(mlog)))
                diffs.append(f"python forwarding log of node {ids[k]} differs at #{j}: {la[j:j + 2]} / model {mlog[j:j + 2]}")
        if len(py["log"]) != sum(len(mlog) for _, mlog in model["pyLog"]):
            diffs.append("python forwarding log: requests of nodes that are not in the run")
        if py["transcripts"] != model["pyTranscripts"]:
            j = next((i for i, (x, y) in enumerate(zip(py["transcripts"], model["pyTranscripts"])) if x != y), 0)
            diffs.append(f"python transcripts differ from the model's at delivered callback #{j}: "
                         f"{json.dumps(py['transcripts'][j:j + 1])[:200]} / {json.dumps(model['pyTranscripts'][j:j + 1])[:200]}")
        ea = [[n, {k: v for k, v in r.items() if k != "exc"}] for n, r in io["ext"]]
        if ea != model["ext"]:
            k = next((i for i, (x, y) in enumerate(zip(ea, model["ext"])) if x != y), 0)
            diffs.append(f"extension on interop: {io['ext'][k]} / model {model['ext'][k]}")
        return diffs

    # ---- the property's statement on the implementation's observations
    def oracle(self, case, impl):
        fails = self.predicate(case, impl)
        if fails and not getattr(self, "_shrinking", False):
            self.__dict__.setdefault("_failed", []).append((case, [sig for sig, _ in fails]))
        return fails

    def predicate_plugins(self, case, impl):
        """a deterministic protocol (built from stock plugins) fed the same callbacks at the same times issues the
        same requests in both wrappers, callback by callback; nothing is left over"""
        fails = []
        steps = case["steps"]
        if impl["refused"]:
            return fails         # a python-side handler refused a request: outside the claim (interop validates nothing)
        tv = {}
        for j, (a, b) in enumerate(zip(impl["interop"], impl["python"])):
            if a["raised"] != b["raised"]:
                fails.append(("C14:wrappers-differ", f"callback #{j} {steps[j][:3]}: interop "
                              f"{'raised ' + a['raised'] if a['raised'] else 'returned'}, python "
                              f"{'raised ' + b['raised'] if b['raised'] else 'returned'}"))
                break
            if a["raised"]:
                break            # an exception escaped in both: the rest is outside the claim
            for r in a["ret"]:
                if r[0] == "track":
                    tv[r[1]] = r[2]
            got = [r for r in a["ret"] if r[0] != "track"]
            want = [r for r in b["req"] if r[0] != "cancelTimer"]
            if got != want:
                d = next((i for i, (x, y) in enumerate(zip(got, want)) if x != y), min(len(got), len(want)))
                fails.append(("C14:wrappers-differ", f"callback #{j} {steps[j][:3]} (protocol with plugins "
                              f"{[sp['p'] for sp in case['plugins']]} created at {case.get('at')}): request number {d} is "
                              f"{got[d:d + 2]} under interop but {want[d:d + 2]} under python "
                              f"({len(got)} / {len(want)} requests in this callback)"))
                break
        else:
            if tv != impl["tvPython"]:
                fails.append(("C14:wrappers-differ", f"tracked variables: interop returned {tv}, python holds {impl['tvPython']}"))
            if impl["pending"]:
                fails.append(("C14:left-over", f"{impl['pending']} consequence(s) pending after the last callback"))
        return fails

    def predicate(self, case, impl):
        if case.get("kind") == "plugins":
            return self.predicate_plugins(case, impl)
        fails = []
        codes = impl["ctypes"]
        io, py = impl["interop"], impl["python"]
        cbs = io["callbacks"]
        steps = case["steps"]
        ids, who, legs = case_ids(case), case_who(case), case_legs(case)
        io_idx, py_idx = leg_steps(case, "interop"), leg_steps(case, "python")
        for order, res in (impl.get("shared") or {}).items():
            i, p = res.get("interop", {}), res.get("python", {})
            if "raised" in i or i.get("consequences") != 0 or i.get("seen") != []:
                fails.append(("C14:extension-not-noop", f"one protocol class under both wrappers ({order}): extensions on "
                              f"the interop-wrapped instance gave {i} instead of being no-ops"))
            if "raised" in p or p.get("range0") != 25.0:
                fails.append(("C14:extension-disabled-in-python", f"one protocol class under both wrappers ({order}): the "
                              f"communication controller on the python-wrapped instance gave {p}; expected range 25.0"))
        # protocol-visible inputs: every delivered callback reaches its protocol instance exactly once, with the
        # node's id, the time and the payload it was delivered with — identical in both wrappers
        plugged = bool((case.get("plug") or {}).get("stages"))
        for name, idx, reached in (("interop", io_idx, [cb.get("reached") for cb in cbs]), ("python", py_idx, py.get("reached"))):
            # a protocol with handlers plugged in front of its callbacks: every handler a delivered callback
            # reaches sees that callback, the protocol's own method at most once and last
            if not plugged or reached is None:
                continue
            for j, i in enumerate(idx):
                st = steps[i]
                want = [ids[who[i]], st[1], st[2], st[0], st[3] if st[1] == "telemetry" else None]
                got = reached[j] if j < len(reached) else None
                tags = [a[0] for a in got or []]
                if not got:
                    what = "reached no handler of the protocol"
                elif any(a[1:] != want for a in got):
                    what = f"reached handlers that saw (id, kind, payload, time, position) = {[a[1:] for a in got if a[1:] != want][:2]}"
                elif tags.count("own") > 1 or ("own" in tags and tags[-1] != "own"):
                    what = f"reached the handlers {tags}: the protocol's own method more than once or not last"
                else:
                    continue
                fails.append(("C14:callback-inputs", f"{name} wrapper: step #{i} {want} {what}"))
                break
        for name, idx, leg in (("interop", io_idx, io), ("python", py_idx, py)):
            if plugged:
                continue
            want = [[ids[who[i]], steps[i][1], steps[i][2], steps[i][0]] for i in idx]
            got = leg["triggers"]
            if got != want:
                k = next((j for j, (x, y) in enumerate(zip(got, want)) if x != y), min(len(got), len(want)))
                at = idx[k] if k < len(idx) else len(steps)
                fails.append(("C14:callback-inputs", f"{name} wrapper: the protocol's callback number {k} saw (id, kind, "
                              f"payload, time) = {got[k:k + 1]}, step #{at} delivered {want[k:k + 1]} "
                              f"({len(got)} callbacks reached the protocol, {len(want)} were delivered)"))
            else:
                wantp = [steps[i][3] if steps[i][1] == "telemetry" else None for i in idx]
                gotp = leg.get("seenPos", wantp)
                if gotp != wantp:
                    k = next((j for j, (x, y) in enumerate(zip(gotp, wantp)) if x != y), 0)
                    fails.append(("C14:callback-inputs", f"{name} wrapper: telemetry step #{idx[k]} delivered position bits "
                                  f"{wantp[k]}, the protocol saw {gotp[k]}"))
        # A. each callback returns exactly what its instance issued during it, nothing left over
        pending_by = dict((k, n) for k, n in io.get("pendingBy", [[legs["interop"][0], io["pending"]]]))
        for inst in legs["interop"]:
            carry, carry_cancel_only = [], True
            for j, i in enumerate(io_idx):
                if who[i] != inst:
                    continue
                cb = cbs[j]
                mine = issued(cb["transcript"], codes)
                if isinstance(cb["ret"], str):
                    if cb["ret"].startswith("raised:"):
                        carry = carry + mine
                        carry_cancel_only = carry_cancel_only and aborted_by_cancel(cb)
                    else:
                        fails.append(("C14:returned-not-issued", f"interop callback #{i} {steps[i][:3]} returned None"))
                    continue
                if cb["ret"] != mine:
                    if carry and carry_cancel_only and cb["ret"] == carry + mine:
                        fails.append(("C14:interop-cancel-timer",
                                      f"interop callback #{i} {steps[i][:3]} returned {len(carry)} consequence(s) left over "
                                      f"from an earlier callback that cancel_timer aborted with NotImplementedError: {carry[:3]}"))
                    else:
                        fails.append(("C14:returned-not-issued",
                                      f"interop callback #{i} {steps[i][:3]} of node {ids[inst]} returned "
                                      f"{json.dumps(cb['ret'])[:240]} but issued {json.dumps(mine)[:240]}"))
                carry, carry_cancel_only = [], True
            left = pending_by.get(inst, 0)
            if left != 0:
                if carry and carry_cancel_only and left == len(carry):
                    fails.append(("C14:interop-cancel-timer", f"{left} consequence(s) still pending after the last "
                                  f"callback, issued before cancel_timer raised NotImplementedError"))
                else:
                    fails.append(("C14:left-over", f"{left} consequence(s) pending on node {ids[inst]} after its last callback"))
        # B. python forwards every provider request to exactly one handler, in order, for the node that made it
        want_log = [[ROUTE[a[0]], a, ids[who[i]], who[i]] for j, i in enumerate(py_idx) for a, _ in py["transcripts"][j]
                    if a[0] in ROUTE]
        if py["log"] != want_log:
            k = next((i for i, (x, y) in enumerate(zip(py["log"], want_log)) if x != y), min(len(py["log"]), len(want_log)))
            fails.append(("C14:python-forwarding", f"python wrapper: handler calls [handler, request, node id, instance] differ "
                          f"from the protocols' requests at #{k}: recorded {py['log'][k:k + 2]}, requested {want_log[k:k + 2]}"))
        #    wrapper equivalence, under the property's guard, for every instance that is fed the same callbacks at the
        #    same times in both legs (whatever other instances exist in either leg)
        rows = {trig_key(r["n"], r["cb"], r["key"], r["t"]): r for r in impl["table"]}
        for inst in legs["interop"]:
            if inst not in legs["python"]:
                continue
            mine_io = [(i, cbs[j]) for j, i in enumerate(io_idx) if who[i] == inst]
            mine_py = [(i, py["transcripts"][j], py["raised"][j]) for j, i in enumerate(py_idx) if who[i] == inst]
            # the same protocol, the same callbacks, the same times: as long as the two runs have asked the same
            # things with the same outcome, a call one wrapper's provider goes through with is not one the other
            # wrapper's provider fails on (handlers refusing a request on the python side are the handlers' business,
            # cancel_timer is F14b, extensions are clause C), and a callback one wrapper returns from is not one
            # the other lets an exception out of
            py_excs = [py.get("excs", [])[j] if j < len(py.get("excs", [])) else None
                       for j, i in enumerate(py_idx) if who[i] == inst]
            for k, ((i, cb), (_, tr_py, raised_py)) in enumerate(zip(mine_io, mine_py)):
                tr_io, ex_io, ex_py = cb["transcript"], cb.get("excs"), py_excs[k]
                d = next((x for x, (u, v) in enumerate(zip(tr_io, tr_py)) if u != v), None)
                if d is None and len(tr_io) == len(tr_py):
                    raised_io = cb["ret"][len("raised:"):] if isinstance(cb["ret"], str) and cb["ret"].startswith("raised:") else None
                    if (raised_io is None) != (raised_py is None):
                        fails.append(("C14:wrappers-differ", f"callback #{i} {steps[i][:3]} of node {ids[inst]}: the protocol "
                                      f"asked the same {len(tr_io)} thing(s) with the same outcome under both wrappers, but the "
                                      f"callback {'raised ' + raised_io if raised_io else 'returned'} under interop and "
                                      f"{'raised ' + raised_py if raised_py else 'returned'} under python"))
                        break
                    if raised_io is not None:
                        break
                    continue
                if d is not None and tr_io[d][0] == tr_py[d][0] and tr_io[d][0][0] in CTYPE_OF and ex_io and ex_py:
                    act = tr_io[d][0]
                    if not tr_io[d][1] and tr_py[d][1]:
                        fails.append(("C14:wrappers-differ", f"callback #{i} {steps[i][:3]} of node {ids[inst]}: request "
                                      f"number {d} {act} went through under python but raised {ex_io[d]} under interop "
                                      f"(spelling of the calls: {case.get('kw') or 'positional'})"))
                    elif tr_io[d][1] and not tr_py[d][1] and ex_py[d] != StubRefused.__name__:
                        fails.append(("C14:wrappers-differ", f"callback #{i} {steps[i][:3]} of node {ids[inst]}: request "
                                      f"number {d} {act} went through under interop but raised {ex_py[d]} under python, where "
                                      f"no handler refused it (spelling of the calls: {case.get('kw') or 'positional'})"))
                break
            used = [rows.get(trig_key(ids[inst], steps[i][1], steps[i][2], steps[i][0])) for i, _ in mine_io]
            listlike = all(r is None or all(a[0] != "onRefused" for a in row_acts(r)) for r in used)
            uncaught = any(r is not None and r.get("uncaught") for r in used)
            refused = any(not ok for _, tr, _ in mine_py for _, ok in tr) or \
                any(not ok for _, cb in mine_io for _, ok in cb["transcript"])
            all_returned = all(not isinstance(cb["ret"], str) for _, cb in mine_io) and all(x is None for _, _, x in mine_py)
            if not (all_returned and not uncaught and (listlike or not refused)):
                continue
            if plugged:
                # the same handlers of the protocol are reached, callback by callback, in the same order
                hit_io = [[a[0] for a in cb.get("reached") or []] for _, cb in mine_io]
                hit_py = [[a[0] for a in py["reached"][j]] for j, i in enumerate(py_idx) if who[i] == inst]
                if hit_io != hit_py:
                    k = next((i for i, (x, y) in enumerate(zip(hit_io, hit_py)) if x != y), 0)
                    at = mine_io[k][0]
                    fails.append(("C14:wrappers-differ", f"callback #{at} {steps[at][:3]} of node {ids[inst]} reached the "
                                  f"protocol's handlers {hit_io[k]} under interop but {hit_py[k]} under python "
                                  f"(numbers: handlers the protocol registered with its dispatcher, in registration order)"))
            acts_io = [[a for a, _ in cb["transcript"]] for _, cb in mine_io]
            acts_py = [[a for a, _ in tr] for _, tr, _ in mine_py]
            if acts_io != acts_py:
                k = next((i for i, (x, y) in enumerate(zip(acts_io, acts_py)) if x != y), 0)
                at = mine_io[k][0]
                d = next((i for i, (x, y) in enumerate(zip(acts_io[k], acts_py[k])) if x != y), min(len(acts_io[k]), len(acts_py[k])))
                fails.append(("C14:wrappers-differ", f"callback #{at} {steps[at][:3]} of node {ids[inst]}: request number {d} the "
                              f"protocol issued is {acts_io[k][d:d + 2]} under interop but {acts_py[k][d:d + 2]} under python "
                              f"({len(acts_io[k])} / {len(acts_py[k])} requests in this callback)"))
            fwd = [consequence_of(a, codes) for _, a, _, k in py["log"] if a[0] != "cancelTimer" and k == inst]
            ret = [c for _, cb in mine_io for c in cb["ret"] if c[0] != codes["trackVariable"]]
            if fwd != ret:
                k = next((i for i, (x, y) in enumerate(zip(fwd, ret)) if x != y), min(len(fwd), len(ret)))
                fails.append(("C14:wrappers-differ", f"node {ids[inst]}: requests forwarded by the python wrapper differ from "
                              f"the consequences returned by interop at #{k}: {fwd[k:k + 2]} / {ret[k:k + 2]}"))
        # C. extensions are no-ops outside the python simulator
        for j, cb in enumerate(cbs):
            for a, ok in cb["transcript"]:
                if not ok and (a[0] in ("ext", "picReport") or (a[0] == "setRange" and bitsf(a[1]) >= 0)):
                    fails.append(("C14:extension-not-noop", f"interop callback #{io_idx[j]}: {a} raised "
                                  f"({sorted(set(io['exc']))}) instead of being a no-op"))
        for name, ret in io["extBad"]:
            fails.append(("C14:extension-not-noop", f"{name} returned {ret} under interop, not its neutral value"))
        neg = bitsf(case.get("extRange", fbits(25.0))) < 0
        for name, res in io["ext"]:
            expect_ok = not (name == "comm.set_transmission_range" and neg)
            if res["ok"] != expect_ok:
                fails.append(("C14:extension-not-noop", f"{name} on an interop-wrapped protocol raised {res['exc']}"
                              if expect_ok else f"{name} accepted a negative range"))
            elif res["ok"] and (not res["neutral"] or res["touchesHandler"]):
                fails.append(("C14:extension-not-noop", f"{name} on an interop-wrapped protocol returned a value or issued a request"))
        return fails

    # ---- bookkeeping
    def nontrivial(self, case, impl):
        if case.get("kind") == "plugins":
            sizes = [len(a["ret"] or []) for a in impl["interop"]]
            return 0 in sizes[1:] and sum(sizes[1:]) >= 4 and len({r[0] for a in impl["interop"][1:] for r in a["ret"] or []}) >= 2
        codes = impl["ctypes"]
        cbs = impl["interop"]["callbacks"]
        zero = any(len(cb["transcript"]) == 0 for cb in cbs)
        rich = False
        for cb in cbs:
            cs = issued(cb["transcript"], codes)
            if len(cs) >= 3 and len({c[0] for c in cs}) >= 2:
                rich = True
        return zero and rich

    def key(self, case, impl):
        if case.get("kind") == "plugins":
            return json.dumps([a["ret"] for a in impl["interop"]], sort_keys=True, default=str)
        return json.dumps([[cb["ret"], cb["transcript"]] for cb in impl["interop"]["callbacks"]], sort_keys=True, default=str)

    def sample(self, case, impl):
        if case.get("kind") == "plugins":
            return {"label": case.get("label"), "plugins": case["plugins"], "at": case.get("at"), "steps": case["steps"][:6],
                    "interop_returns": [a["ret"] for a in impl["interop"][:4]], "python_requests": [b["req"] for b in impl["python"][:4]]}
        return {"label": case.get("label"), "ids": case_ids(case), "legs": case_legs(case), "who": case_who(case)[:6],
                "steps": case["steps"][:6],
                "interop_returns": [cb["ret"] for cb in impl["interop"]["callbacks"][:3]],
                "python_log": impl["python"]["log"][:6], "ext": impl["interop"]["ext"][:3]}

    def stats(self, case, impl, acc):
        def bump(k, n=1):
            acc[k] = acc.get(k, 0) + n
        bump("cases")
        bump("callbacks", len(case["steps"]))
        if case.get("kind") == "plugins":
            bump("stock_plugin_cases")
            for sp in case["plugins"]:
                bump("stock_plugin_" + sp["p"])
            bump("stock_plugins_created_" + case.get("at", "initialize"))
            if (case.get("kw") or {}).get("share"):
                bump("stock_plugin_cases_with_own_calls_spelt_by_keyword")
            if impl["refused"]:
                bump("stock_plugin_cases_with_a_refused_request")
            for st, a in zip(case["steps"], impl["interop"]):
                if st[1] == "telemetry" and any(r[0] in ("goto", "garbled") for r in a["ret"] or []):
                    bump("stock_plugin_waypoint_reached")        # only a plugin's telemetry handler sends these
                if st[1] in ("timer", "packet") and str(st[2]).startswith("FollowMobilityPlugin") and (a["ret"] or []):
                    bump("stock_plugin_own_event_answered")
            return
        if case.get("plug"):
            bump(f"cases_with_handlers_plugged_at_{case['plug']['at']}")
            for cb in impl["interop"]["callbacks"]:
                tags = [a[0] for a in cb.get("reached") or []]
                if len(tags) > 1:
                    bump("callbacks_through_plugged_handlers")
                if tags and "own" not in tags:
                    bump("callbacks_interrupted_by_a_plugged_handler")
        ids, who, legs = case_ids(case), case_who(case), case_legs(case)
        bump(f"cases_with_{len(ids)}_instances")
        if legs["interop"] != legs["python"]:
            bump("cases_other_instances_in_one_leg_only")
        last = {}
        for st, k in zip(case["steps"], who):
            if last.get(k) is not None and last[k][1:] == st[1:]:
                bump("callback_equal_to_previous_" + st[1])
            last[k] = st
        rows = {trig_key(r["n"], r["cb"], r["key"], r["t"]): r for r in impl["table"]}
        written = {}
        for tg in impl["python"]["triggers"]:
            row = rows.get(trig_key(*tg))
            for a in (row["acts"] if row else []):
                flat = [a[1]] + list(a[2]) if a[0] == "onRefused" else [a]
                for x in flat:
                    if x[0] in ("track", "trackInc"):
                        if x[0] == "trackInc":
                            bump("tracked_read_back")
                            if any(n != tg[0] for n in written.get(x[1], ())):
                                bump("tracked_read_back_of_a_name_another_instance_wrote")
                        written.setdefault(x[1], set()).add(tg[0])
                    elif x[0] == "sendTracked":
                        bump("tracked_read_back")
                        if any(n != tg[0] for n in written.get(x[1], ())):
                            bump("tracked_read_back_of_a_name_another_instance_wrote")
                    elif x[0] == "sendCount":
                        bump("callback_count_in_request")
        for cb in impl["interop"]["callbacks"]:
            for a, ok in cb["transcript"]:
                bump("act_" + a[0] + ("" if ok else "_refused"))
        for tr in impl["python"]["transcripts"]:
            for a, ok in tr:
                if not ok:
                    bump("python_refused_" + a[0])
        for tg in impl["python"]["triggers"]:
            row = rows.get(trig_key(*tg))
            for a in (row_acts(row) if row else []):
                for x in ([a[1]] + list(a[2]) if a[0] == "onRefused" else [a]):
                    if x[0] == "picReport":
                        bump("picture_" + ("read" if x[1] == "read" else "completed") + "_and_reported")
        if any(any(a[0] == "onRefused" for a in row_acts(r)) for r in impl["table"]):
            bump("cases_branching_on_refusal")
        kw = case.get("kw") or {}
        if kw.get("share"):
            bump("cases_with_provider_calls_spelt_by_keyword")
        if kw.get("deliver"):
            bump("cases_with_callbacks_delivered_by_keyword")
        for how, n in (impl["interop"].get("spelt") or {}).items():
            bump("provider_calls_spelt_" + how, n)

    def shrink(self, case, still_fails):
        """smallest input that fails BY ITSELF, in a process that has run nothing else (so that the replay
        file reproduces); when the reported case only fails because of what earlier cases of this run left
        behind in the process, another failing case of the run with the same signature is taken instead"""
        from framework import known_match
        failed = list(getattr(self, "_failed", []))
        self._shrinking = True
        fresh = Pristine()
        try:
            sigs = next((sg for c, sg in failed if c is case), [])
            sig = next((x for x in sigs if not known_match(self.prop, x)), None)

            def alone(c):
                got = fresh.fails(c)
                return True if (got is None or sig is None) else sig in got

            def both(c):
                return still_fails(c) and alone(c)

            if case.get("kind") == "plugins":
                return self.minimise_plugins(case, both if alone(case) else still_fails)
            start = case
            if not alone(case):
                for c, sg in failed[:200]:
                    if c is not case and sig in sg and alone(c) and still_fails(c):
                        start = c
                        break
            return self.minimise(start, both)
        finally:
            fresh.close()
            self._shrinking = False

    def minimise_plugins(self, case, still_fails):
        best = copy.deepcopy(case)
        if best.get("kw"):
            cand = copy.deepcopy(best)
            del cand["kw"]
            if still_fails(cand):
                best = cand
        changed = True
        while changed:
            changed = False
            for i in range(len(best["steps"]) - 1, 0, -1):
                cand = copy.deepcopy(best)
                del cand["steps"][i]
                if still_fails(cand):
                    best, changed = cand, True
            for i in range(len(best["plugins"]) - 1, -1, -1):
                cand = copy.deepcopy(best)
                del cand["plugins"][i]
                if still_fails(cand):
                    best, changed = cand, True
        return best

    def minimise(self, case, still_fails):
        impl = self.run_impl(case)
        best = copy.deepcopy(case)
        best["frozen"] = True
        best["table"] = impl["table"]
        best["who"] = case_who(case)
        best["ids"] = case_ids(case)
        if not impl.get("shared"):
            best.pop("sharedClass", None)
        if not still_fails(best):
            return case
        if best.get("kw"):
            # the same protocol spelling every call positionally; failing that, one spelling throughout
            cand = copy.deepcopy(best)
            del cand["kw"]
            if still_fails(cand):
                best = cand
            for which in ("deliver", "share") if best.get("kw") else ():
                for v in (0.0, 1.0):
                    cand = copy.deepcopy(best)
                    cand["kw"][which] = v
                    if cand["kw"] == best["kw"] or still_fails(cand):
                        best = cand
                        break
        if best.get("plug"):
            cand = copy.deepcopy(best)          # the same protocol without its plugged handlers
            del cand["plug"]
            for row in cand["table"]:
                row.pop("stages", None)
                row.pop("stop", None)
            if still_fails(cand):
                best = cand
        changed = True
        while changed:
            changed = False
            for ri in range(len(best["table"])):
                for si in range(len(best["table"][ri].get("stages") or [])):
                    for ai in range(len(best["table"][ri]["stages"][si]) - 1, -1, -1):
                        cand = copy.deepcopy(best)
                        del cand["table"][ri]["stages"][si][ai]
                        if still_fails(cand):
                            best, changed = cand, True
            for i in range(len(best["steps"]) - 1, -1, -1):
                if best["steps"][i][1] == "initialize" and best["who"][i] == 0:
                    continue
                cand = copy.deepcopy(best)
                del cand["steps"][i]
                del cand["who"][i]
                if still_fails(cand):
                    best, changed = cand, True
            for ri in range(len(best["table"])):
                for ai in range(len(best["table"][ri]["acts"]) - 1, -1, -1):
                    cand = copy.deepcopy(best)
                    del cand["table"][ri]["acts"][ai]
                    if still_fails(cand):
                        best, changed = cand, True
        keys = {trig_key(best["ids"][k], s[1], s[2], s[0]) for s, k in zip(best["steps"], best["who"])}
        final = copy.deepcopy(best)
        final["table"] = [r for r in best["table"] if trig_key(r["n"], r["cb"], r["key"], r["t"]) in keys
                          and (r["acts"] or any(r.get("stages") or []) or r.get("stop") is not None)]
        return final if still_fails(final) else best


CHECKS = {"C14": C14}

if __name__ == "__main__" and "--pristine-server" in sys.argv:
    pristine_server()
