"""Checks C15 (dispatcher: order, INTERRUPT, (un)registration, idempotent creation, isolation) and
C17 (random mobility plugin: box, redraw on arrival, totality, quiet after finish).

Both drive the REAL classes (`create_dispatcher` / `ProtocolWrapper`, `RandomMobilityPlugin`) on real
`IProtocol` subclasses with a recording `IProvider` (C15 also: on the nodes of a real simulation that
delivers the callbacks through its encapsulator), in-process, through public API only, and compare
the property-scoped observation with the Lean model (`Driver/DispatcherDriver.lean` — `run` for
callees that only (un)register, `runNested` for callees that also call the protocol's methods
themselves or ask for the dispatcher from inside a callback —, `Driver/RandomTripDriver.lean`).  The `oracle_*` functions read the property directly off the
implementation's log, independently of the model."""
import copy
import dataclasses
import functools
import itertools
import json
import logging
import math
import random
import sys

from common import bitsf, bitsv3, fbits, stable_hash, v3bits
from framework import Check

from gradysim.protocol.interface import IProtocol, IProvider
from gradysim.protocol.messages.mobility import MobilityCommandType
from gradysim.protocol.messages.telemetry import Telemetry
from gradysim.protocol.plugin.dispatcher import DispatchReturn, create_dispatcher
from gradysim.protocol.plugin.random_mobility import RandomMobilityConfig, RandomMobilityPlugin

KINDS = ["initialize", "timer", "telemetry", "packet", "finish"]
INTERRUPTIBLE = {"timer", "telemetry", "packet"}
METHOD = {"initialize": "initialize", "timer": "handle_timer", "telemetry": "handle_telemetry",
          "packet": "handle_packet", "finish": "finish"}
REGISTER = {"initialize": "register_initialize", "timer": "register_handle_timer",
            "telemetry": "register_handle_telemetry", "packet": "register_handle_packet",
            "finish": "register_finish"}
UNREGISTER = {"initialize": "unregister_initialize", "timer": "unregister_handle_timer",
              "telemetry": "unregister_handle_telemetry", "packet": "unregister_handle_packet",
              "finish": "unregister_finish"}
RETS = ["cont", "interrupt", "none"]


def first_diff(a, b):
    if isinstance(a, list) and isinstance(b, list):
        for i, (x, y) in enumerate(zip(a, b)):
            if x != y:
                return (f"observation differs at index {i}: implementation {json.dumps(x, default=str)[:240]} "
                        f"vs model {json.dumps(y, default=str)[:240]}")
        return f"observation length differs: implementation {len(a)} vs model {len(b)}"
    return f"observation differs: implementation {json.dumps(a, default=str)[:300]} vs model {json.dumps(b, default=str)[:300]}"


class RecProvider(IProvider):
    """a provider that records what the protocol / plugin asks for"""

    def __init__(self, ident=0):
        self.ident = ident
        self.mobility = []
        self.communication = []
        self.timers = []
        self.tracked_variables = {}

    def send_communication_command(self, command):
        self.communication.append(command)

    def send_mobility_command(self, command):
        self.mobility.append(command)

    def schedule_timer(self, timer, timestamp):
        self.timers.append(("set", timer, timestamp))

    def cancel_timer(self, timer):
        self.timers.append(("cancel", timer))

    def current_time(self):
        return 0.0

    def get_id(self):
        return self.ident


# ================================================================================================
# C15 — dispatcher
# ================================================================================================
SIM_KINDS = ["timer", "telemetry", "packet"]     # callbacks a running simulation can be made to deliver at will
MAX_NESTING = 40
FLAVOURS = ["classic"] * 10 + ["nested"] * 7 + ["sim"] * 3
NESTED_MODEL = True


class _Courier(IProtocol):
    """sim mode: a further node without a dispatcher; the controller has it send the packets of the history"""

    def initialize(self):
        pass

    def handle_timer(self, timer):
        pass

    def handle_packet(self, message):
        pass

    def handle_telemetry(self, telemetry):
        pass

    def finish(self):
        pass


class _quiet_root:
    """every Simulator adds a console handler to the root logger and sets its level; keep the harness process
    as it was (logging is not part of the observation)"""

    def __enter__(self):
        root = logging.getLogger()
        self.saved = (list(root.handlers), root.level)
        root.setLevel(logging.CRITICAL)

    def __exit__(self, *a):
        root = logging.getLogger()
        for h in list(root.handlers):
            if h not in self.saved[0]:
                root.removeHandler(h)
        root.setLevel(self.saved[1])


class _Plug:
    """a plugin written as a class: its handlers are METHODS, and `plug.on` is evaluated anew wherever it is
    used (`register(self.on)` in start(), `unregister(self.on)` in stop()): equal bound-method objects, never
    the identical one"""

    def __init__(self, run, hid):
        self.run, self.hid = run, hid

    def on(self, instance, *args):
        return self.run.invoke(["h", self.hid], instance, args, None)


@dataclasses.dataclass(frozen=True)
class _ValueHandler:
    """a callable value object (a callable dataclass): built anew for every request, equal by value"""
    run: object
    hid: int

    def __call__(self, instance, *args):
        return self.run.invoke(["h", self.hid], instance, args, None)


def rop_is_request(rop):
    return rop[0] in ("reg", "unreg", "register", "unregister")


def case_is_extended(case):
    """does the history use what the first model (`Disp.run`) has no notion of: nested dispatches, a dispatcher
    asked for from inside a callback, callbacks delivered by a running simulation"""
    if case.get("sim"):
        return True
    for row in case.get("beh", []):
        for sc in row["scripts"]:
            if any(not rop_is_request(rop) for rop in sc["ops"]):
                return True
    return False


class _DispRun:
    """one history on real protocol instances; the recording protocol and the handler closures
    report every invocation here.

    `case["sim"]` (optional): the instances are the protocols of the nodes of a REAL simulation (SimulationBuilder,
    TimerHandler + MobilityHandler + CommunicationHandler, one further courier node) driven step by step by this
    object as an external controller.  create / register / unregister ops are done between two steps; a
    `dispatch p kind` op makes the simulator deliver that callback to node p through its encapsulator (a timer
    set for now, a packet sent by the courier, the next mobility update) and steps until it arrived.  Everything
    the simulator delivers on the way (initialize of every node at the first step, telemetry of every node at
    every mobility update, finish of every node at the end) is a dispatch of the history as well: the run
    reports the EFFECTIVE history (`ops`) next to the results, and the property is judged on that."""

    def __init__(self, case):
        self.case = case
        self.scripts = {}
        for row in case.get("beh", []):
            self.scripts[json.dumps(row["callee"])] = row
        self.counts = {}
        self.wrappers = {}
        # "drop_at": k — from op k on nobody keeps a dispatcher: every (un)registration, also the re-entrant
        # ones, asks `create_dispatcher(protocol)` again and lets the result go (k = 0: never kept at all)
        self.drop_at = case.get("drop_at")
        self.asked = set()       # instances a dispatcher was asked for (the harness may not hold it any more)
        self.dropped = False
        self.stack = []          # frames {pid, kind, payload, calls} of the running (nested) dispatches
        self.implicit = None     # sim mode, while a step runs: frames of the callbacks the simulator delivered
        self.serial = 0
        self.sim = case.get("sim")
        self.eff_ops, self.eff_results = [], []
        # "styles": {hid: kind of callable the handler is} (default: one closure kept by the harness);
        # "rebound": kinds of callback for which every protocol instance has bound an implementation of its own
        # choice to itself (`self.handle_packet = self._handle_packet_as_sink`, role / state pattern) when it
        # was constructed, i.e. before anybody asked for a dispatcher
        self.styles = case.get("styles") or {}
        self.rebound = list(case.get("rebound") or [])
        self.plugs = {}
        run = self

        def cls_or_own(kind):
            # the class-level method is the protocol's own method unless the instance exposes another one
            return "cls" if kind in run.rebound else "own"

        class RecProto(IProtocol):
            pid = None

            def __init__(self):
                for k in run.rebound:
                    setattr(self, METHOD[k], getattr(self, "_as_role_" + k))

            def initialize(self):
                return run.invoke(cls_or_own("initialize"), self, (), "initialize")

            def handle_timer(self, timer):
                return run.invoke(cls_or_own("timer"), self, (timer,), "timer")

            def handle_packet(self, message):
                return run.invoke(cls_or_own("packet"), self, (message,), "packet")

            def handle_telemetry(self, telemetry):
                return run.invoke(cls_or_own("telemetry"), self, (telemetry,), "telemetry")

            def finish(self):
                return run.invoke(cls_or_own("finish"), self, (), "finish")

            # the implementations an instance binds to itself (case["rebound"])
            def _as_role_initialize(self):
                return run.invoke("own", self, (), "initialize")

            def _as_role_timer(self, timer):
                return run.invoke("own", self, (timer,), "timer")

            def _as_role_packet(self, message):
                return run.invoke("own", self, (message,), "packet")

            def _as_role_telemetry(self, telemetry):
                return run.invoke("own", self, (telemetry,), "telemetry")

            def _as_role_finish(self):
                return run.invoke("own", self, (), "finish")

        self.protos = {}
        pids = []
        for op in case["ops"]:
            if op[1] not in pids:
                pids.append(op[1])
        if self.sim:
            self.build_sim(RecProto, pids)
        else:
            for p in pids:
                proto = RecProto.instantiate(RecProvider(p))
                proto.pid = p
                self.protos[p] = proto
        self.handlers = {}

    # ---------------------------------------------------------------------------------- simulation
    def build_sim(self, RecProto, pids):
        from gradysim.simulator.handler.communication import CommunicationHandler
        from gradysim.simulator.handler.mobility import MobilityConfiguration, MobilityHandler
        from gradysim.simulator.handler.timer import TimerHandler
        from gradysim.simulator.simulation import SimulationBuilder, SimulationConfiguration
        n = (max(pids) + 1) if pids else 1
        rate = float(self.sim.get("rate", 1.0))
        ticks = sum(1 for op in self.case["ops"] if op[0] == "dispatch" and op[2] == "telemetry")
        self.n_nodes = n + 1
        self.max_steps_left = (ticks + 3) * (self.n_nodes + 1) + 4 * len(self.case["ops"]) + 10
        with _quiet_root():
            builder = SimulationBuilder(SimulationConfiguration(duration=rate * (ticks + 1) + rate / 2,
                                                                execution_logging=False))
            builder.add_handler(TimerHandler())
            builder.add_handler(MobilityHandler(MobilityConfiguration(update_rate=rate)))
            builder.add_handler(CommunicationHandler())
            ids = [builder.add_node(RecProto, (0.0, 0.0, 0.0)) for _ in range(n)]
            self.courier_id = builder.add_node(_Courier, (0.0, 0.0, 0.0))
            self.simulator = builder.build()
        for p in ids:
            proto = self.simulator.get_node(p).protocol_encapsulator.protocol
            proto.pid = p
            self.protos[p] = proto
        self.courier = self.simulator.get_node(self.courier_id).protocol_encapsulator.protocol
        self.sim_over = False
        self.sim_begun = False

    def sim_step(self):
        """one step of the simulation; the callbacks it delivered to the recorded nodes become dispatches of the
        effective history; returns (frames, simulation goes on)"""
        self.implicit = []
        crash = None
        alive = False
        try:
            with _quiet_root():
                alive = self.simulator.step_simulation()
        except Exception as e:      # nothing in a history makes the real code raise here
            crash = type(e).__name__
        frames, self.implicit = self.implicit, None
        self.sim_begun = True
        self.max_steps_left -= 1
        if crash is not None:
            if not frames:
                frames.append({"pid": None, "kind": None, "payload": (), "calls": []})
            frames[-1]["calls"].append(["crash", crash, 0, [], {}])
            alive = False
        for fr in frames:
            if fr["pid"] is not None or crash is not None:
                self.eff_ops.append(["dispatch", fr["pid"], fr["kind"]])
                self.eff_results.append(fr["calls"])
        if not alive or self.max_steps_left <= 0:
            self.sim_over = True
        return frames

    def sim_deliver(self, p, kind, tag):
        """make the running simulation deliver callback `kind` to node p and step until it did"""
        if self.sim_over:
            return
        proto = self.protos[p]
        if kind == "timer":
            payload = ("t" + tag,)
            proto.provider.schedule_timer(payload[0], proto.provider.current_time())
            want = lambda fr: fr["pid"] == p and fr["kind"] == "timer" and fr["payload"] == payload    # noqa: E731
        elif kind == "packet":
            from gradysim.protocol.messages.communication import SendMessageCommand
            payload = ("m" + tag,)
            self.courier.provider.send_communication_command(SendMessageCommand(payload[0], p))
            want = lambda fr: fr["pid"] == p and fr["kind"] == "packet" and fr["payload"] == payload   # noqa: E731
        else:
            want = lambda fr: fr["pid"] == p and fr["kind"] == "telemetry"                              # noqa: E731
        for _ in range(2 * self.n_nodes + 3):
            frames = self.sim_step()
            if any(want(fr) for fr in frames):
                return
            if self.sim_over:
                return
        # the simulator went on and on without the callback reaching anything of the chain of node p
        self.eff_ops.append(["dispatch", p, kind])
        self.eff_results.append([])

    def sim_finish(self):
        while not self.sim_over:
            self.sim_step()

    def kind_of_args(self, args):
        """sim mode: which callback the simulator is delivering, from what it delivers (the payloads are ours)"""
        if not args:
            return "finish" if self.sim_begun else "initialize"
        if isinstance(args[0], Telemetry):
            return "telemetry"
        if isinstance(args[0], str) and args[0].startswith("t"):
            return "timer"
        if isinstance(args[0], str) and args[0].startswith("m"):
            return "packet"
        return None

    def implicit_frame(self, instance, args):
        pid = getattr(instance, "pid", None)
        kind = self.kind_of_args(args)
        fr = self.implicit[-1] if self.implicit else None
        if (fr is not None and fr["pid"] == pid and fr["kind"] == kind and len(fr["payload"]) == len(args)
                and all(a is b or (isinstance(a, str) and a == b) for a, b in zip(fr["payload"], args))):
            return fr
        fr = {"pid": pid, "kind": kind, "payload": tuple(args), "calls": []}
        self.implicit.append(fr)
        return fr

    # ---------------------------------------------------------------------------------- requests
    def handler(self, hid):
        """the callable that is handler hid, as the code making a request writes it down"""
        style = self.styles.get(str(hid), "closure")
        if style == "method":
            if hid not in self.plugs:
                self.plugs[hid] = _Plug(self, hid)
            return self.plugs[hid].on            # a new bound-method object at every evaluation
        if style == "value":
            return _ValueHandler(self, hid)      # a new, equal object at every evaluation
        if style == "partial":
            if hid not in self.handlers:
                self.handlers[hid] = functools.partial(_Plug.on, _Plug(self, hid))
            return self.handlers[hid]
        if hid not in self.handlers:
            def handler(instance, *args, _hid=hid):
                return self.invoke(["h", _hid], instance, args, None)
            self.handlers[hid] = handler
        return self.handlers[hid]

    def create(self, pid):
        """`create_dispatcher` on instance pid (top level or from inside a callback), as a result"""
        existed = pid in self.asked
        w = create_dispatcher(self.protos[pid])
        rewrapped = pid in self.wrappers and w is not self.wrappers[pid]
        self.asked.add(pid)
        if not self.dropped:
            self.wrappers[pid] = w
        del w
        return ["rewrapped", True] if rewrapped else ["created", existed]

    def request(self, pid, name, kind, hid):
        """a (un)registration on instance pid through its wrapper, as a result string"""
        if self.dropped:
            if pid not in self.asked:
                return "nodispatcher"
            w = create_dispatcher(self.protos[pid])     # asked again, not retained beyond this request
        else:
            w = self.wrappers.get(pid)
        if w is None:
            return "nodispatcher"
        if name in ("reg", "register"):
            getattr(w, REGISTER[kind])(self.handler(hid))
            return "ok"
        try:
            getattr(w, UNREGISTER[kind])(self.handler(hid))
            return "ok"
        except ValueError:
            return "absent"

    def payload(self, kind, tag):
        self.serial += 1
        return {"initialize": (), "finish": (), "timer": ("t" + tag,), "packet": ("m" + tag,),
                "telemetry": (Telemetry(current_position=(float(self.serial), 0.0, 0.0)),)}[kind]

    def call(self, proto, pid, kind, tag):
        """call method `kind` of the protocol (top level: the harness; nested: a callee of a running
        dispatch); returns the invocations it made"""
        payload = self.payload(kind, tag)
        fr = {"pid": pid, "kind": kind, "payload": payload, "calls": []}
        if len(self.stack) >= MAX_NESTING:
            return [["crash", "NestingGuard", 0, [], {}]]
        self.stack.append(fr)
        try:
            getattr(proto, METHOD[kind])(*payload)
        except Exception as e:     # nothing in a history makes the real code raise here
            fr["calls"].append(["crash", type(e).__name__, 0, [], {}])
        finally:
            self.stack.pop()
        return fr["calls"]

    def invoke(self, entry, instance, args, own_kind):
        cur = self.stack[-1] if self.stack else None
        if cur is None and self.implicit is not None:
            cur = self.implicit_frame(instance, args)
        kind = own_kind if own_kind is not None else (cur["kind"] if cur else None)
        pid = getattr(instance, "pid", None)
        callee = ["own", pid, kind] if entry == "own" else entry
        key = json.dumps(callee)
        n = self.counts.get(key, 0)
        self.counts[key] = n + 1
        row = self.scripts.get(key)
        script = {"ops": [], "ret": "cont"}
        if row is not None:
            script = row["scripts"][n] if n < len(row["scripts"]) else {"ops": [], "ret": row.get("default", "cont")}
        rops = []
        for rop in script["ops"]:
            if rop[0] == "dispatch":
                # the callee calls the protocol's method `rop[1]` itself, on the instance it runs for
                # (a watchdog raising a synthetic timer, an envelope handler re-delivering the payload)
                rops.append([rop, self.call(instance, pid, rop[1], f"n{self.serial}")])
            elif rop[0] == "create":
                rops.append([rop, self.create(pid) if pid in self.protos else "foreign"])
            else:
                rops.append([rop, self.request(pid, rop[0], rop[1], rop[2])])
        extra = {"pid": pid, "kind": kind,
                 "args_ok": cur is not None and len(args) == len(cur["payload"]) and
                 all(a is b or (isinstance(a, str) and a == b) for a, b in zip(args, cur["payload"]))}
        if cur is not None:
            cur["calls"].append([entry, script["ret"], n, rops, extra])
        return {"cont": DispatchReturn.CONTINUE, "interrupt": DispatchReturn.INTERRUPT, "none": None}[script["ret"]]

    def churn(self, n):
        """many other protocol instances get a dispatcher (a large simulation: one per node); this must
        not disturb the instances of the history (the registry is unbounded, per instance)"""
        class Other(IProtocol):
            def initialize(self): pass
            def handle_timer(self, timer): pass
            def handle_packet(self, message): pass
            def handle_telemetry(self, telemetry): pass
            def finish(self): pass
        self.others = []
        for k in range(n):
            o = Other.instantiate(RecProvider(10_000 + k))
            create_dispatcher(o)
            self.others.append(o)

    def run(self, ops):
        churn = self.case.get("churn")
        for i, op in enumerate(ops):
            if churn and i == churn["at"]:
                self.churn(churn["n"])
            if self.drop_at is not None and i >= self.drop_at and not self.dropped:
                self.dropped = True
                self.wrappers.clear()
            name, p = op[0], op[1]
            if name == "dispatch" and self.sim and op[2] in SIM_KINDS:
                self.sim_deliver(p, op[2], str(i))      # appends what the simulator delivered
                continue
            if name == "create":
                res = self.create(p)
            elif name in ("register", "unregister"):
                res = self.request(p, name, op[2], op[3])
            elif name == "dispatch":
                res = self.call(self.protos[p], p, op[2], str(i))
            else:
                raise ValueError(f"unknown op {op}")
            self.eff_ops.append(op)
            self.eff_results.append(res)
        if self.sim:
            self.sim_finish()
        return self.eff_results


def disp_run_impl(case):
    run = _DispRun(case)
    results = run.run(case["ops"])
    out = {"results": results}
    if case.get("sim"):
        out["ops"] = run.eff_ops       # the history as the simulator made it happen
    return out


def eff_ops(case, impl):
    return impl["ops"] if "ops" in impl else case["ops"]


def strip_call(c):
    """an invocation without the implementation-only fifth field (also in the nested dispatches)"""
    return [c[0], c[1], c[2], [[rop, [strip_call(x) for x in r] if rop[0] == "dispatch" else r] for rop, r in c[3]]]


def strip_calls(op, res):
    return [strip_call(c) for c in res] if op[0] == "dispatch" else res


def flat_events(calls):
    """a dispatch result as the flat event list the extended model prints"""
    out = []
    for c in calls:
        out.append(["call", c[0], c[2]])
        for rop, r in c[3]:
            if rop[0] == "dispatch":
                out.append(["begin", rop[1]])
                out.extend(flat_events(r))
                out.append(["end", rop[1]])
            elif rop[0] == "create":
                out.append(["create", r])
            else:
                out.append(["req", rop, r])
        out.append(["ret", c[0], c[1]])
    return out


def disp_oracle(case, impl, notes=None):
    """C15 read directly off the implementation's invocation log.  Every call of a protocol method — by the
    harness, by the simulator's encapsulator, or by a callee of a running dispatch (nested) — must invoke the
    chain as it stood when THAT call began: newest registration first, the protocol's own method last, each
    once, up to the first INTERRUPT (timer / packet / telemetry); requests made meanwhile count from the
    next call on."""
    fails = []
    created, chains, registered = set(), {}, set()
    notes = notes if notes is not None else {}

    def note(k):
        notes[k] = notes.get(k, 0) + 1

    def chain(p, k):
        return chains.setdefault((p, k), ["own"]) if p in created else ["own"]

    def create(p, res, where):
        if res[0] == "rewrapped":
            fails.append(("C15:rewrapped", f"{where}: create_dispatcher on an already wrapped instance {p} "
                          "returned a different wrapper"))
        elif res[1] != (p in created):
            fails.append(("C15:create-result", f"{where}: create on instance {p} existed={res[1]}"))
        created.add(p)

    def request(p, name, k, h, res, where):
        entry = ["h", h]
        if p not in created:
            want = "nodispatcher"
        elif name in ("reg", "register"):
            want = "ok"
            chain(p, k).insert(0, entry)
            registered.add((p, k, h))
        else:
            c = chain(p, k)
            if entry in c:
                want = "ok"
                c.remove(entry)
            else:
                want = "absent"
        if res != want:
            fails.append((f"C15:{'register' if name in ('reg', 'register') else 'unregister'}-result",
                          f"{where}: {name} {k} handler {h} on instance {p} answered {res}, expected {want}"))

    def dispatch(p, k, res, where, enclosing):
        """enclosing: the running dispatches this one is nested in, as (p, kind, snapshot, more to come)"""
        snapshot = list(chain(p, k))
        intr = k in INTERRUPTIBLE
        if enclosing:
            note("nested_dispatches")
            for (ep, ek, esnap, more) in enclosing:
                if (ep, ek) == (p, k):
                    note("nested_same_kind")
                    if esnap != snapshot and more:
                        note("nested_same_kind_chain_changed_outer_goes_on")
                    break
        stopped = None          # index of the call after which the chain must stop
        for j, call in enumerate(res):
            entry, ret, _n, rops, extra = call
            if entry == "crash":
                fails.append((f"C15:crash:{ret}", f"{where}: dispatch {k} on instance {p} raised {ret}"))
                return
            if stopped is not None:
                fails.append(("C15:interrupt-ignored", f"{where}: dispatch {k} on {p}: {res[stopped][0]} returned "
                              f"INTERRUPT but {entry} was still invoked"))
                return
            if j >= len(snapshot):
                what = "C15:repeated" if entry in [c[0] for c in res[:j]] else "C15:foreign"
                fails.append((what, f"{where}: dispatch {k} on {p} invoked {entry} after the whole chain "
                              f"{snapshot} (as it stood when the dispatch began) had run"))
                return
            if entry == "cls":
                fails.append(("C15:own-method", f"{where}: dispatch {k} on instance {p} with chain {snapshot}: the chain "
                              "did not end in the method the instance exposed when its dispatcher was created (an "
                              "implementation the instance had bound to itself) but in the method of its class"))
                return
            if entry != snapshot[j]:
                if entry in snapshot[j + 1:]:
                    what, txt = "C15:skipped", f"skipped {snapshot[j]}"
                elif entry in [c[0] for c in res[:j]]:
                    what, txt = "C15:repeated", f"invoked {entry} again"
                else:
                    what, txt = "C15:foreign", f"invoked {entry}, which was not in the chain when the dispatch began"
                fails.append((what, f"{where}: dispatch {k} on instance {p} with chain {snapshot}: {txt} "
                              f"(invocations: {[c[0] for c in res]})"))
                return
            if extra.get("pid") != p or extra.get("kind") != k:
                fails.append(("C15:isolation", f"{where}: dispatch {k} on {p} invoked {entry} for instance "
                              f"{extra.get('pid')} / kind {extra.get('kind')}"))
            if not extra.get("args_ok"):
                fails.append(("C15:payload", f"{where}: {entry} did not receive the dispatched arguments"))
            if entry != "own" and (p, k, entry[1]) not in registered:
                fails.append(("C15:isolation", f"{where}: handler {entry[1]} ran for instance {p} kind {k} "
                              "where it was never registered"))
            more = j + 1 < len(snapshot) and not (ret == "interrupt" and intr)
            for rop, r in rops:
                if rop[0] == "dispatch":
                    dispatch(p, rop[1], r, f"{where}, {rop[1]} dispatched from inside {entry} ({k})",
                             [(p, k, snapshot, more)] + enclosing)
                elif rop[0] == "create":
                    create(p, r, f"{where}, inside {entry}")
                else:
                    request(p, rop[0], rop[1], rop[2], r, f"{where}, inside {entry}")
            if ret == "interrupt" and intr:
                stopped = j
        want = len(snapshot) if stopped is None else stopped + 1
        if len(res) < want:
            if not intr and res and res[-1][1] == "interrupt":
                fails.append(("C15:lifecycle-interrupted", f"{where}: {k} on instance {p}: {res[-1][0]} returned "
                              f"INTERRUPT and the rest of the chain {snapshot[len(res):]} was not run"))
            else:
                fails.append(("C15:skipped", f"{where}: dispatch {k} on {p} ran {[c[0] for c in res]} "
                              f"of the chain {snapshot} without an INTERRUPT"))

    for i, (op, res) in enumerate(zip(eff_ops(case, impl), impl["results"])):
        name, p = op[0], op[1]
        if name == "create":
            create(p, res, f"op {i}")
        elif name in ("register", "unregister"):
            request(p, name, op[2], op[3], res, f"op {i}")
        elif name == "dispatch":
            if p is None:
                fails.append((f"C15:crash:{res[-1][1] if res else '?'}", f"op {i}: a step of the simulation raised"))
                continue
            if p in created and "ops" in impl:
                note("sim_dispatch_through_chain")
                if len(chain(p, op[2])) > 1:
                    note("sim_dispatch_through_chain_with_handlers")
            dispatch(p, op[2], res, f"op {i}", [])
    return fails


def all_calls(res):
    for c in res:
        yield c
        for rop, r in c[3]:
            if rop[0] == "dispatch":
                yield from all_calls(r)


def disp_interesting(case, impl):
    """a dispatch over a chain of >= 3 with an INTERRUPT strictly inside and a successful re-entrant
    (un)registration in the same dispatch"""
    for op, res in zip(eff_ops(case, impl), impl["results"]):
        if op[0] != "dispatch" or len(res) < 2:
            continue
        last = res[-1]
        inside = last[1] == "interrupt" and last[0] != "own" and len(res) >= 2 and op[2] in INTERRUPTIBLE
        reent = any(r == "ok" for c in res for _, r in c[3])
        if inside and reent:
            return True
    return False


def gen_disp(seed, max_ops=60, flavour="classic"):
    """flavour "classic": callees only (un)register; "nested": callees also call the protocol's methods
    themselves (nested dispatch) and ask for the dispatcher from inside a callback; "sim": like nested, and the
    instances are the nodes of a real simulation that delivers the callbacks (see _DispRun)"""
    r = random.Random(stable_hash("disp", seed))
    sim = flavour == "sim"
    extended = flavour != "classic"
    n_inst = r.choice([1, 1, 2, 2, 3])
    n_h = r.randint(2, 6)
    hot = r.sample(KINDS, r.choice([1, 2, 2, 3]))
    if (sim or r.random() < 0.7) and not (set(hot) & INTERRUPTIBLE):
        hot[0] = r.choice(sorted(INTERRUPTIBLE))
    p_intr = r.choice([0.1, 0.25, 0.4])
    p_reent = r.choice([0.15, 0.35, 0.6])
    p_nest = r.choice([0.1, 0.25, 0.4]) if extended else 0.0
    p_pattern = r.choice([0.0, 0.15, 0.3]) if extended else 0.0
    # instances whose dispatcher is first asked for late: from inside a callback, or by a later top-level op
    lazy = {p for p in range(n_inst) if extended and r.random() < (0.6 if sim else 0.3)}
    budget = {"nested": 6}

    def kind():
        return r.choice(hot) if r.random() < 0.85 else r.choice(KINDS)

    def dkind():
        k = kind()
        while sim and k not in SIM_KINDS:
            k = r.choice(hot + SIM_KINDS)
        return k

    def nested(k):
        if budget["nested"] <= 0:
            return []
        budget["nested"] -= 1
        return [["dispatch", k]]

    def script(self_id, own_of=None):
        ops = []
        if self_id is not None and p_pattern > 0 and r.random() < p_pattern:
            # usage patterns: a one-shot handler that removes itself and raises the callback again; a
            # handshake handler that installs its successor and re-delivers; a plain re-delivery
            k = r.choice(hot)
            x = r.random()
            first = ([["unreg", k, self_id]] if x < 0.4 else [["reg", k, r.randrange(n_h + 1)]] if x < 0.75 else
                     [["unreg", k, r.randrange(n_h)]] if x < 0.9 else [])
            ops = first + nested(k)
            x = r.random()
            return {"ops": ops, "ret": "none" if x < 0.15 else "cont"}
        if own_of is not None and own_of in lazy and r.random() < 0.7:
            ops.append(["create"])
        while r.random() < p_reent and len(ops) < 3:
            x = r.random()
            if p_nest > 0 and r.random() < p_nest:
                ops += nested(kind())
            elif self_id is not None and x < 0.3:
                ops.append(["unreg", kind(), self_id])          # self-unregistration
            elif x < 0.55:
                ops.append(["unreg", kind(), r.randrange(n_h)])
            elif extended and x < 0.6:
                ops.append(["create"])
            else:
                ops.append(["reg", kind(), r.randrange(n_h + 1)])
        x = r.random()
        ret = "interrupt" if x < p_intr else ("none" if x < p_intr + 0.15 else "cont")
        return {"ops": ops, "ret": ret}

    beh = []
    for h in range(n_h + 1):
        if r.random() < 0.85:
            beh.append({"callee": ["h", h], "scripts": [script(h) for _ in range(r.randint(0, 4))],
                        "default": r.choice(RETS + ["cont", "cont"])})
    for p in range(n_inst):
        for k in KINDS:
            if r.random() < (0.5 if p in lazy else 0.15):
                beh.append({"callee": ["own", p, k], "scripts": [script(None, own_of=p) for _ in range(r.randint(1, 2))],
                            "default": r.choice(RETS)})
    ops = []
    live = {}
    for p in range(n_inst):
        if p not in lazy and r.random() < 0.9:
            ops.append(["create", p])
    n = r.randint(5, max_ops)
    while len(ops) < n:
        p = r.randrange(n_inst)
        x = r.random()
        if x < (0.02 if p in lazy else 0.04):
            ops.append(["create", p])
        elif x < 0.42:
            k, h = kind(), r.randrange(n_h + 1)
            ops.append(["register", p, k, h])
            live.setdefault((p, k), []).append(h)
        elif x < 0.55:
            k = kind()
            cand = live.get((p, k), [])
            h = r.choice(cand) if cand and r.random() < 0.7 else r.randrange(n_h + 1)
            ops.append(["unregister", p, k, h])
            if h in cand:
                cand.remove(h)
        else:
            ops.append(["dispatch", p, dkind()])
    if lazy:
        # the late top-level request of a lazily wrapped instance: after some callbacks were delivered to it
        for p in sorted(lazy):
            mine = [i for i, op in enumerate(ops) if op[0] == "dispatch" and op[1] == p]
            if mine and r.random() < 0.7:
                ops.insert(mine[r.randrange(min(3, len(mine)))] + 1, ["create", p])
    case = {"kind": "dispatcher", "beh": beh, "ops": ops}
    if sim:
        case["sim"] = {"rate": r.choice([1.0, 0.5, 0.25])}
    return case


def enum_disp(max_len, variant):
    """every history of <= max_len ops after `create 0` over a small alphabet (1 instance, kinds
    timer + finish, handlers 0 and 1 with fixed re-entrant / interrupting behaviours)"""
    if variant == 0:
        beh = [{"callee": ["h", 0], "scripts": [{"ops": [["unreg", "timer", 0], ["unreg", "finish", 0]], "ret": "cont"}],
                "default": "cont"},
               {"callee": ["h", 1], "scripts": [{"ops": [["reg", "timer", 0]], "ret": "interrupt"}], "default": "interrupt"}]
    else:
        beh = [{"callee": ["h", 0], "scripts": [{"ops": [["reg", "timer", 1], ["reg", "finish", 1]], "ret": "interrupt"}],
                "default": "none"},
               {"callee": ["h", 1], "scripts": [{"ops": [], "ret": "cont"}, {"ops": [["unreg", "timer", 0]], "ret": "cont"}],
                "default": "interrupt"}]
    alphabet = [["create", 0], ["dispatch", 0, "timer"], ["dispatch", 0, "finish"], ["unregister", 0, "finish", 0]]
    for h in (0, 1):
        alphabet += [["register", 0, "timer", h], ["register", 0, "finish", h], ["unregister", 0, "timer", h]]
    for n in range(1, max_len + 1):
        for combo in itertools.product(alphabet, repeat=n):
            yield {"kind": "dispatcher", "beh": beh, "ops": [["create", 0]] + [list(c) for c in combo], "label": "enum"}


def enum_disp_two(max_len):
    beh = [{"callee": ["h", 0], "scripts": [{"ops": [["unreg", "packet", 0]], "ret": "interrupt"}], "default": "cont"}]
    alphabet = []
    for p in (0, 1):
        alphabet += [["create", p], ["dispatch", p, "packet"], ["register", p, "packet", 0], ["register", p, "packet", 1],
                     ["unregister", p, "packet", 0]]
    for n in range(1, max_len + 1):
        for combo in itertools.product(alphabet, repeat=n):
            yield {"kind": "dispatcher", "beh": beh, "ops": [list(c) for c in combo], "label": "enum2"}


class C15(Check):
    prop = "C15"
    level_text = ("Theorems over the dispatcher model, for every history of create / register / unregister / dispatch over any "
                  "number of instances and every handler behaviour (scripted re-entrant (un)registrations, any results): a "
                  "dispatch invokes a prefix of the chain as it stood when it began, newest registration first and the "
                  "protocol's own method last; the prefix ends exactly at the first INTERRUPT for timer/packet/telemetry and "
                  "is the whole chain for initialize/finish; unregister removes exactly one occurrence or raises leaving "
                  "everything unchanged; re-entrant requests take effect from the next dispatch; create is idempotent; "
                  "instances are isolated. Extended model (callees of arbitrary behaviour that also call the protocol's "
                  "methods themselves, to any nesting depth, and ask for the dispatcher from inside a callback): every call, "
                  "nested ones included, invokes the chain as it stood when THAT call began (whole for initialize/finish, up "
                  "to the first INTERRUPT otherwise), worlds stay well-formed, other instances untouched, and the extension "
                  "is conservative over the first model. Tied to the code by differential execution on real protocol "
                  "instances, called directly and (15%) delivered to by a real simulation through its encapsulator.")
    rule = ("histories of 5-60 ops (create / register / unregister / dispatch) over 1-3 real protocol instances, the 5 kinds "
            "and 2-7 handler closures whose k-th invocation performs scripted (un)registrations on its instance and returns "
            "CONTINUE / INTERRUPT / None (own methods scripted too); in 35% of the histories nobody keeps the dispatcher "
            "(from the start, or from some op on): every request, also the re-entrant ones, goes through a fresh "
            "create_dispatcher(protocol) whose result is let go at once; 35% of the histories: callees also call the "
            "protocol's own methods (nested dispatch of any kind on the instance they run for, <= 6 per history; patterns "
            "one-shot handler = unregister itself + raise the callback again, handshake = register a successor + re-deliver) "
            "and ask for the dispatcher from inside a callback (instances wrapped late); 15%: the same with the instances "
            "being the protocols of the nodes of a REAL simulation (SimulationBuilder, timer + mobility + communication "
            "handlers, a courier node) stepped by an external controller: requests between two steps, every dispatch "
            "delivered by the simulator through the node's encapsulator (timer set for now, packet from the courier, next "
            "mobility update), the first create_dispatcher of 60% of the nodes coming only after callbacks were delivered; "
            "initialize / telemetry of every node / finish as the simulator issues them are part of the judged history; "
            "in 40% of the histories the handlers are other kinds of callable than a closure somebody keeps: bound methods "
            "and callable value objects written down anew at every request (equal, never identical, to what was "
            "registered), kept functools.partial objects; in 15% the protocol instances bound implementations of their "
            "own to 1-5 of their callbacks when they were constructed (self.handle_packet = self._as_role_packet), before "
            "any dispatcher was asked for: the chain must end in THAT method; "
            "thorough: every history of <= 5 ops over a 10-op "
            "alphabet x 2 behaviours, <= 4 ops over two instances; non-trivial = a dispatch over a chain of >= 3 stopped by "
            "an INTERRUPT strictly inside, with a successful re-entrant (un)registration in the same dispatch")
    assumptions = ["handlers do not raise (a re-entrant unregister of an absent handler is caught inside the handler)",
                   "a callee that calls the protocol's methods itself does so on the instance it runs for; the nesting depth "
                   "is finite (model: fuel)",
                   "nobody else monkey-patches the protocol's methods (module docstring)"]
    technique = ("Lean 4 theorems about a hand-written executable model (induction over operation histories; every handler "
                 "behaviour as a function of the invocation number, incl. scripted re-entrant requests) + differential "
                 "correspondence of model and real classes + direct predicate on the implementation's log to find failing inputs")
    level_note = ("Not covered: handlers that raise; nested calls on ANOTHER instance. The histories run on a real "
                  "simulation are given to the model as the effective history (controller ops + every callback the "
                  "simulator delivered, in order); that the simulator delivers a requested callback at all is checked only "
                  "as far as the chain is concerned (nothing of the chain ran = skipped). "
                  "Whether anybody keeps the object returned by create_dispatcher is not a notion of the model (create is "
                  "idempotent there); the histories in which nobody does are compared with the same model. ")
    modelled = ["gradysim/protocol/plugin/dispatcher.py"]
    quick_n = 1500
    thorough_n = 40000

    def generate(self, seed, tier):
        n = self.quick_n if tier == "quick" else self.thorough_n
        for i in range(n):
            # half of the histories: callees only (un)register (the first model); 35%: callees also call the
            # protocol's methods themselves (nested dispatch) and ask for the dispatcher from inside a callback;
            # 15%: the same on the nodes of a real simulation that delivers the callbacks
            flavour = FLAVOURS[i % len(FLAVOURS)]
            c = gen_disp(stable_hash(self.prop, seed, i), max_ops=30 if flavour == "sim" else 60, flavour=flavour)
            c["label"] = f"gen/{seed}/{i}" + ("" if flavour == "classic" else "/" + flavour)
            if i % 25 == 7 and flavour != "sim":
                # 150 other instances get dispatchers in the middle of the history, then the first
                # instance asks for its dispatcher again and is dispatched once more
                insts = sorted({op[1] for op in c["ops"]})
                c["churn"] = {"at": len(c["ops"]), "n": 150}
                c["ops"] = c["ops"] + [["create", insts[0]], ["dispatch", insts[0], "timer"],
                                       ["dispatch", insts[0], "finish"]]
                c["label"] += "/churn"
            r2 = random.Random(stable_hash("disp-keep", self.prop, seed, i))
            x = r2.random()
            if x < 0.35:
                # nobody keeps the dispatcher (`create_dispatcher(p).register_…(h)` each time): never (2/3)
                # or only up to some point of the history (a holder that goes away)
                c["drop_at"] = 0 if x < 0.23 else r2.randrange(1, len(c["ops"]) + 1)
                c["label"] += "/asked-again"
            r3 = random.Random(stable_hash("disp-objects", self.prop, seed, i))
            if r3.random() < 0.4:
                # what KIND of callable a handler is: a closure the plugin keeps (default), a bound method written
                # down anew at every request (`register(self.on)` ... `unregister(self.on)`), a callable value
                # object built anew at every request, a functools.partial that is kept
                hids = sorted({op[3] for op in c["ops"] if op[0] in ("register", "unregister")} |
                              {rop[2] for row in c["beh"] for sc in row["scripts"] for rop in sc["ops"]
                               if rop[0] in ("reg", "unreg")})
                c["styles"] = {str(h): r3.choice(["method", "method", "value", "partial", "closure"]) for h in hids}
                c["label"] += "/callables"
            if r3.random() < 0.15:
                # protocol instances that bound an implementation of their own choice to themselves when they
                # were constructed (role / state pattern), before any dispatcher was asked for
                c["rebound"] = sorted(r3.sample(KINDS, r3.choice([1, 1, 2, 5])))
                c["label"] += "/rebound"
            yield c
        if tier == "thorough":
            yield from enum_disp(5, 0)
            yield from enum_disp(4, 1)
            for c in enum_disp(4, 0):
                yield dict(c, drop_at=0, label="enum/asked-again")
            yield from enum_disp_two(4)

    def run_impl(self, case):
        return disp_run_impl(case)

    def model_input(self, case, impl):
        if case_is_extended(case):
            if not NESTED_MODEL or any(op[1] is None for op in eff_ops(case, impl)):
                return None      # a step of the simulation raised: no history to give to the model
            return {"kind": "dispatcher-nested", "beh": case.get("beh", []), "ops": eff_ops(case, impl),
                    "fuel": MAX_NESTING + 2}
        return {"kind": "dispatcher", "beh": case.get("beh", []), "ops": case["ops"]}

    def compare(self, case, impl, model):
        ops = eff_ops(case, impl)
        if case_is_extended(case):
            a = [flat_events(r) if op[0] == "dispatch" else r for op, r in zip(ops, impl["results"])]
        else:
            a = [strip_calls(op, r) for op, r in zip(ops, impl["results"])]
        b = model["results"]
        return [] if a == b else [first_diff(a, b)]

    def oracle(self, case, impl):
        return disp_oracle(case, impl)

    def nontrivial(self, case, impl):
        return disp_interesting(case, impl)

    def key(self, case, impl):
        return json.dumps([case["ops"], case.get("beh", []), case.get("drop_at"), case.get("sim"), case.get("styles"),
                           case.get("rebound")], sort_keys=True)

    def sample(self, case, impl):
        return {"label": case.get("label"), "beh": case.get("beh", [])[:4], "ops": eff_ops(case, impl)[:20],
                "results": [strip_calls(op, r) for op, r in zip(eff_ops(case, impl)[:20], impl["results"][:20])]}

    def stats(self, case, impl, acc):
        def inc(k, v=1):
            acc[k] = acc.get(k, 0) + v
        inc("histories")
        ops = eff_ops(case, impl)
        inc("ops", len(ops))
        inc("instances_total", len({op[1] for op in case["ops"]}))
        for st in set((case.get("styles") or {}).values()):
            inc("histories_with_handlers_of_kind_" + st)
        if case.get("rebound"):
            inc("histories_instances_with_self_bound_callbacks")
        if case.get("sim"):
            inc("histories_on_a_real_simulation")
            inc("ops_done_by_the_controller", len(case["ops"]))
        elif case_is_extended(case):
            inc("histories_with_nested_dispatch_or_lazy_create")
        notes = {}
        disp_oracle(case, impl, notes)
        for k, v in notes.items():
            inc(k, v)
        drop = case.get("drop_at")
        if drop is not None and drop < len(case["ops"]):
            inc("histories_dispatcher_not_kept" if drop == 0 else "histories_dispatcher_dropped_midway")
        delivered = {}      # sim: callbacks delivered to an instance before its dispatcher was first asked for
        for i, (op, res) in enumerate(zip(ops, impl["results"])):
            inc("op_" + op[0])
            if op[0] in ("register", "unregister"):
                inc(f"{op[0]}_{res}")
                st = (case.get("styles") or {}).get(str(op[3]), "closure")
                if st != "closure" and op[0] == "unregister":
                    inc(f"unregister_{res}_of_a_{st}")
                if drop is not None and not case.get("sim") and i >= drop and res == "ok":
                    inc(f"{op[0]}_ok_through_a_dispatcher_asked_again")
            elif op[0] == "create":
                inc("create_again" if res[1] else "create_first")
                if case.get("sim") and not res[1] and delivered.get(op[1]):
                    inc("sim_first_create_after_callbacks_were_delivered")
            elif op[0] == "dispatch":
                inc("dispatch_" + str(op[2]))
                inc("invocations", len(res))
                acc["max_invocations_in_one_dispatch"] = max(acc.get("max_invocations_in_one_dispatch", 0), len(res))
                for c in all_calls(res):
                    inc("ret_" + str(c[1]))
                    for rop, r in c[3]:
                        if rop[0] == "dispatch":
                            inc("reentrant_dispatch_" + rop[1])
                        elif rop[0] == "create":
                            inc("reentrant_create_" + ("again" if r[1] else "first"))
                            if case.get("sim") and not r[1] and delivered.get(op[1]):
                                inc("sim_first_create_after_callbacks_were_delivered")
                        else:
                            inc(f"reentrant_{rop[0]}_{r}")
                delivered[op[1]] = True
                if res and res[-1][1] == "interrupt" and res[-1][0] != "own":
                    inc("dispatch_cut_by_interrupt" if op[2] in INTERRUPTIBLE else "lifecycle_interrupt_ignored")

    def shrink(self, case, still_fails):
        best = copy.deepcopy(case)
        best.pop("label", None)
        changed = True
        while changed:
            changed = False
            for i in range(len(best["ops"]) - 1, -1, -1):
                cand = copy.deepcopy(best)
                del cand["ops"][i]
                if cand.get("drop_at") is not None and i < cand["drop_at"]:
                    cand["drop_at"] -= 1    # the dispatcher is let go before the same op as before
                if still_fails(cand):
                    best, changed = cand, True
            if best.get("drop_at"):
                cand = copy.deepcopy(best)
                cand["drop_at"] = 0
                if still_fails(cand):
                    best, changed = cand, True
            for extra in ("styles", "rebound"):
                if best.get(extra):
                    cand = copy.deepcopy(best)      # all handlers plain closures / ordinary protocol classes
                    del cand[extra]
                    if still_fails(cand):
                        best, changed = cand, True
            if best.get("sim"):
                cand = copy.deepcopy(best)      # the same history by direct calls, without a simulation
                del cand["sim"]
                if still_fails(cand):
                    best, changed = cand, True
            for i in range(len(best.get("beh", [])) - 1, -1, -1):
                cand = copy.deepcopy(best)
                del cand["beh"][i]
                if still_fails(cand):
                    best, changed = cand, True
                    continue
                row = best["beh"][i]
                for j in range(len(row["scripts"]) - 1, -1, -1):
                    for m in range(len(row["scripts"][j]["ops"]) - 1, -1, -1):
                        cand = copy.deepcopy(best)
                        del cand["beh"][i]["scripts"][j]["ops"][m]
                        if still_fails(cand):
                            best, changed = cand, True
                            row = best["beh"][i]
        return best


# ================================================================================================
# C17 — random mobility plugin
# ================================================================================================
class DrawSource:
    """serves a prescribed list of draws, then a seeded stream; remembers what it handed out.
    While `channel` is set (another plugin of the same process is being driven) the draws come from
    that channel's own prescribed list / stream and are counted there."""

    def __init__(self, prescribed, seed=0, side=()):
        self.prescribed = list(prescribed)
        self.rng = random.Random(seed)
        self.values = []
        self.channel = None
        self.side = [{"prescribed": list(p), "rng": random.Random(stable_hash("side-draws", seed, j)), "values": []}
                     for j, p in enumerate(side)]

    def __call__(self):
        if self.channel is not None:
            ch = self.side[self.channel]
            i = len(ch["values"])
            v = ch["prescribed"][i] if i < len(ch["prescribed"]) else ch["rng"].random()
            ch["values"].append(v)
            return v
        i = len(self.values)
        v = self.prescribed[i] if i < len(self.prescribed) else self.rng.random()
        self.values.append(v)
        return v


class _SourceRandom(random.Random):
    """the documented way to give `random.Random` another basic generator: override random().
    `uniform` stays the standard library's own `a + (b - a) * self.random()`."""

    def __init__(self, source):
        super().__init__(0)
        self._source = source

    def random(self):
        return self._source()


class patched_draws:
    """like simimpl.patched_random: module-level random.random / random.uniform draw from `source`"""

    def __init__(self, source):
        self.source = source

    def __enter__(self):
        self._old = (random.random, random.uniform)
        random.random = self.source
        random.uniform = _SourceRandom(self.source).uniform
        return self.source

    def __exit__(self, *a):
        random.random, random.uniform = self._old


class ProviderRefused(Exception):
    """what the recording provider raises for a mobility command it was told to refuse (link down, vehicle
    not ready): `IProvider.send_mobility_command` of a real provider can fail, and the caller may catch that"""


class _TelChain:
    """the telemetry chain of the plugin's protocol as the dispatcher is specified (C15): newest registration
    first — the plugin's trip handler (registered when a trip is started, removed when it is finished) and
    foreign `filter` handlers whose k-th invocation returns a scripted CONTINUE / INTERRUPT / None — and then
    the protocol's own method.  Used by the generator's reference and by the direct predicate."""

    def __init__(self):
        self.entries = []

    def start_trip(self):
        self.stop_trip()
        self.entries.insert(0, "trip")

    def stop_trip(self):
        self.entries = [e for e in self.entries if e != "trip"]

    def add_filter(self, rets):
        self.entries.insert(0, {"rets": list(rets), "n": 0})

    def blocked(self):
        """would the next telemetry be cut off before it reaches the trip handler"""
        for e in self.entries:
            if e == "trip":
                return False
            if (e["rets"][e["n"]] if e["n"] < len(e["rets"]) else "cont") == "interrupt":
                return True
        return False

    def deliver(self):
        """one telemetry: (it reaches the trip handler, it reaches the protocol's own method)"""
        trip = False
        for e in list(self.entries):
            if e == "trip":
                trip = True
                continue
            n = e["n"]
            e["n"] = n + 1
            if (e["rets"][n] if n < len(e["rets"]) else "cont") == "interrupt":
                return trip, False
        return trip, True


def op_refused(op):
    return len(op) > 1 and op[-1] == "refused" and op[0] in ("initiate", "travel")


def case_is_adverse(case):
    """ops the plugin model has no notion of: foreign filters in the chain, commands the provider refuses"""
    return any(op[0] == "filter" or op_refused(op) for op in case["ops"])


class _TripProto(IProtocol):
    def __init__(self):
        self.telemetry_calls = 0

    def initialize(self):
        pass

    def handle_timer(self, timer):
        pass

    def handle_packet(self, message):
        pass

    def handle_telemetry(self, telemetry):
        self.telemetry_calls += 1

    def finish(self):
        pass


def cmd_obs(c):
    try:
        if c.command_type == MobilityCommandType.GOTO_COORDS and (c.param_4, c.param_5, c.param_6) == (0, 0, 0):
            return v3bits((c.param_1, c.param_2, c.param_3))
        return ["other", int(c.command_type)]
    except Exception as e:
        return ["bad-command", type(e).__name__]


def chain_probe(plugin):
    """number of closures the plugin has in the telemetry chain, read from the wrapper's (private) list;
    None when that representation is not there.  Used for the correspondence only (the model's
    `registered handler` component), never by the property predicate."""
    ch = getattr(getattr(plugin, "_dispatcher", None), "_handle_telemetry_chain", None)
    return len(ch) - 1 if isinstance(ch, list) else None


def make_config(cfg, how):
    """the RandomMobilityConfig of a case; how = "default": the plugin's default argument is used"""
    if how == "default":
        return None
    return RandomMobilityConfig(x_range=(bitsf(cfg["x"][0]), bitsf(cfg["x"][1])),
                                y_range=(bitsf(cfg["y"][0]), bitsf(cfg["y"][1])),
                                z_range=(bitsf(cfg["z"][0]), bitsf(cfg["z"][1])),
                                tolerance=bitsf(cfg["tol"]))


def trip_run_impl(case):
    """`case["peers"]` (optional): further plugins of the same process, each on its own protocol instance with
    its own provider (the nodes of a swarm), built from the same configuration — the very same object
    ("shared": a module-level constant), an equal one each ("equal") or the constructor's default argument
    ("default") — and driven by their own little histories in between the ops of the first plugin."""
    cfg = case["cfg"]
    peers = case.get("peers") or {}
    n_peers = peers.get("n", 0)
    how = peers.get("config", "own")
    src = DrawSource([bitsf(b) for b in case["draws"]], seed=stable_hash("trip-extra", len(case["draws"])),
                     side=[[bitsf(b) for b in d] for d in (peers.get("draws", []) + [[]] * n_peers)[:n_peers]])
    provider = RecProvider(0)
    results = []
    events = []     # chronological: ["cmd", index into provider.mobility] | ["begin", act] | ["end", act, outcome]
    send = provider.send_mobility_command

    refusing = {"on": False, "n": 0}

    def recording_send(command):
        if refusing["on"]:
            refusing["n"] += 1
            events.append(["refused"])
            raise ProviderRefused("mobility command refused")
        events.append(["cmd", len(provider.mobility)])
        send(command)
    provider.send_mobility_command = recording_send
    hooks = 0

    def build(proto, config):
        return RandomMobilityPlugin(proto) if config is None else RandomMobilityPlugin(proto, config)

    def step(plugin, proto, prov, op):
        """one op on one plugin: (ret, commands it made the provider of that plugin receive, own calls)"""
        n0, own0 = len(prov.mobility), proto.telemetry_calls
        ret = None
        try:
            name = op[0]
            if name == "initiate":
                plugin.initiate_random_trip()
            elif name == "finish":
                plugin.finish_random_trip()
            elif name == "tel":
                proto.handle_telemetry(Telemetry(current_position=bitsv3(op[1])))
            elif name == "travel":
                ret = v3bits(plugin.travel_to_random_waypoint())
            elif name == "filter":
                create_dispatcher(proto).register_handle_telemetry(make_filter(op[1]))
            elif name == "ongoing":
                ret = plugin.trip_ongoing
                if not isinstance(ret, bool):
                    ret = ["not-a-bool", repr(ret)]
            elif name == "target":
                t = plugin.current_target
                ret = None if t is None else v3bits(t)
            elif name == "hook":
                create_dispatcher(proto).register_handle_telemetry(make_hook(op[1]))
            else:
                raise ValueError(f"unknown op {op}")
        except ProviderRefused:
            ret = "refused"          # the caller catches what its provider raised
        except Exception as e:
            ret = "crash:" + type(e).__name__
        return ret, [cmd_obs(c) for c in prov.mobility[n0:]], proto.telemetry_calls - own0

    with patched_draws(src):
        # construction order: `main_at` peers first, then the plugin of the history, then the other peers
        shared = make_config(cfg, how) if how in ("shared", "default") else None
        main_at = min(peers.get("main_at", 0), n_peers)
        fleet = []      # (plugin, proto, provider) of the peers

        def build_peer(j):
            prov = RecProvider(j + 1)
            pr = _TripProto.instantiate(prov)
            fleet.append((build(pr, shared if how in ("shared", "default") else make_config(cfg, "own")), pr, prov))
        for j in range(main_at):
            build_peer(j)
        proto = _TripProto.instantiate(provider)
        config = shared if how in ("shared", "default") else make_config(cfg, "own")
        plugin = build(proto, config)
        for j in range(main_at, n_peers):
            build_peer(j)
        peer_log = [{"ops": [], "results": []} for _ in range(n_peers)]
        peer_ops = [po for po in peers.get("ops", []) if 0 <= po[1] < n_peers]

        def run_peer_ops(i, last=False):
            for at, j, op in peer_ops:
                if at == i or (last and at > i):
                    src.channel = j
                    try:
                        ret, cmds, own = step(*fleet[j], op)
                    finally:
                        src.channel = None
                    peer_log[j]["ops"].append(op)
                    peer_log[j]["results"].append({"ret": ret, "cmds": cmds, "own": own})

        def make_hook(scripts):
            """a foreign telemetry handler whose k-th invocation calls the plugin re-entrantly"""
            state = {"n": 0}

            def hook(instance, telemetry):
                acts = scripts[state["n"]] if state["n"] < len(scripts) else []
                state["n"] += 1
                for a in acts:
                    events.append(["begin", a])
                    try:
                        {"finish": plugin.finish_random_trip, "initiate": plugin.initiate_random_trip,
                         "travel": plugin.travel_to_random_waypoint}[a]()
                        events.append(["end", a, "ok"])
                    except Exception as e:
                        events.append(["end", a, "crash:" + type(e).__name__])
                return DispatchReturn.CONTINUE
            return hook

        def make_filter(rets):
            """a foreign telemetry handler that never touches the plugin: its k-th invocation returns rets[k]"""
            state = {"n": 0}

            def telemetry_filter(instance, telemetry):
                ret = rets[state["n"]] if state["n"] < len(rets) else "cont"
                state["n"] += 1
                return {"cont": DispatchReturn.CONTINUE, "interrupt": DispatchReturn.INTERRUPT, "none": None}[ret]
            return telemetry_filter

        for i, op in enumerate(case["ops"]):
            run_peer_ops(i)
            n0, e0 = len(provider.mobility), len(events)
            refusing["on"], refusing["n"] = op_refused(op), 0
            try:
                ret, cmds, own = step(plugin, proto, provider, op)
            finally:
                refusing["on"] = False
            if op[0] in ("hook", "filter") and ret is None:
                hooks += 1
            h = chain_probe(plugin)
            res = {"ret": ret, "cmds": cmds, "own": own, "h": None if h is None else h - hooks}
            if refusing["n"]:
                res["refused"] = refusing["n"]
            if case.get("hooked"):
                res["events"] = [(["cmd", cmds[e[1] - n0]] if e[0] == "cmd" else e) for e in events[e0:]]
            results.append(res)
        run_peer_ops(len(case["ops"]), last=True)
    out = {"results": results, "used": len(src.values), "draws": [fbits(v) for v in src.values]}
    if n_peers:
        for j, log in enumerate(peer_log):
            log["used"] = len(src.side[j]["values"])
        out["peers"] = peer_log
    return out


def sqdist(a, b):
    return (b[0] - a[0]) ** 2 + (b[1] - a[1]) ** 2 + (b[2] - a[2]) ** 2


def trip_oracle(case, impl):
    """C17 read directly off the commands / query results of the implementation: of the plugin of the
    history and, each on its own, of every other plugin that was built from the same configuration."""
    fails = trip_oracle_one(case["cfg"], case["ops"], impl["results"], impl["used"], bool(case.get("hooked")), "")
    how = (case.get("peers") or {}).get("config")
    for j, peer in enumerate(impl.get("peers", [])):
        fails += trip_oracle_one(case["cfg"], peer["ops"], peer["results"], peer["used"], False,
                                 f"plugin #{j + 1} (own protocol and provider, {how} configuration): ")
    return fails


def trip_oracle_one(cfg, ops, results, used, hooked, who):
    """the property for one plugin configured with cfg, on its ops and what they made its provider receive"""
    fails = []
    box = [sorted((bitsf(cfg[a][0]), bitsf(cfg[a][1]))) for a in "xyz"]
    tol = bitsf(cfg["tol"])
    ongoing, target, ever = False, None, False
    total_cmds = 0
    chain = _TelChain()
    for i, (op, res) in enumerate(zip(ops, results)):
        name, ret, cmds = op[0], res["ret"], res["cmds"]
        total_cmds += len(cmds) + res.get("refused", 0)
        if isinstance(ret, str) and ret.startswith("crash:"):
            fails.append((f"C17:{ret}", f"op {i} {name} raised {ret[6:]} (trip ongoing: {ongoing}, trips so far: {ever})"))
            continue
        pts = []
        for c in cmds:
            if c and c[0] in ("other", "bad-command"):
                fails.append(("C17:not-goto", f"op {i} {name}: provider received {c}"))
                continue
            p = bitsv3(c)
            pts.append(p)
            for axis, (lo, hi), v in zip("xyz", box, p):
                slack = 4 * math.ulp(max(abs(lo), abs(hi), 1e-300))
                if not (lo - slack <= v <= hi + slack):
                    fails.append(("C17:out-of-box", f"op {i} {name}: waypoint {p} has {axis}={v!r} outside [{lo!r}, {hi!r}]"))
        if ret == "refused":
            # the provider raised for the goto of this call and the caller caught it: no trip was started by
            # this call, nothing was sent; trip, target and handlers are what they were before it
            if cmds:
                fails.append(("C17:unexpected-command", f"op {i}: {name} was refused by the provider but "
                              f"{len(cmds)} command(s) arrived"))
        elif name == "initiate":
            if len(pts) != 1:
                fails.append(("C17:initiate-commands", f"op {i}: initiate sent {len(cmds)} commands"))
            ongoing, ever = True, True
            chain.start_trip()               # a trip that is started is registered now: newest handler
            target = pts[-1] if pts else target
        elif name == "finish":
            if cmds:
                fails.append(("C17:unexpected-command", f"op {i}: finish sent {len(cmds)} commands"))
            ongoing = False
            chain.stop_trip()
        elif name == "filter":
            if cmds:
                fails.append(("C17:unexpected-command", f"op {i}: registering a foreign handler sent commands"))
            chain.add_filter(op[1])
        elif name == "travel":
            if len(cmds) != 1 or cmds[0] != ret:
                fails.append(("C17:returned-differs", f"op {i}: travel returned {ret} but the provider received {cmds}"))
        elif name == "hook":
            if cmds:
                fails.append(("C17:unexpected-command", f"op {i}: registering a foreign handler sent commands"))
        elif name == "tel" and hooked:
            # foreign handlers may call the plugin re-entrantly: judge every command at its place in the
            # chronological event log of this dispatch (missed redraws are not judged here)
            pos = bitsv3(op[1])
            if res["own"] != 1:
                fails.append(("C17:own-calls", f"op {i}: the protocol's own handle_telemetry ran {res['own']} times"))
            inside = None
            shape = [e[0] if e[0] == "cmd" else e[0] + ":" + e[1] for e in res["events"]]
            for ev in res["events"]:
                if ev[0] == "begin":
                    inside = ev[1]
                elif ev[0] == "end":
                    if ev[2] != "ok":
                        fails.append((f"C17:{ev[2]}", f"op {i}: re-entrant {ev[1]} raised {ev[2][6:]}"))
                    elif ev[1] == "finish":
                        ongoing = False
                    elif ev[1] == "initiate":
                        ongoing, ever = True, True
                    inside = None
                elif ev[0] == "cmd" and ev[1] and ev[1][0] not in ("other", "bad-command"):
                    p = bitsv3(ev[1])
                    if inside == "initiate":
                        target = p
                    elif inside == "travel":
                        pass
                    elif not ongoing:
                        fails.append(("C17:command-when-idle", f"op {i}: telemetry at {pos}: a goto was sent after the trip "
                                      f"had been finished from inside the same dispatch (events {shape})"))
                    else:
                        if not (target is not None and sqdist(pos, target) <= tol * tol):
                            fails.append(("C17:spurious-redraw", f"op {i}: telemetry at {pos}, target {target}, tolerance "
                                          f"{tol}: new waypoint although not arrived (events {shape})"))
                        target = p
        elif name == "tel":
            pos = bitsv3(op[1])
            reaches_trip, reaches_own = chain.deliver()
            if res["own"] != (1 if reaches_own else 0):
                fails.append(("C17:own-calls", f"op {i}: the protocol's own handle_telemetry ran {res['own']} times"
                              + ("" if reaches_own else " although a handler registered before it interrupted the chain")))
            if ongoing and not reaches_trip:
                # a handler registered AFTER the trip was (last) started returned INTERRUPT: this telemetry is not
                # reported to the plugin
                if cmds:
                    fails.append(("C17:spurious-redraw", f"op {i}: telemetry at {pos} was interrupted by a handler "
                                  f"registered after the trip was started, yet {len(cmds)} goto(s) were sent"))
                    target = pts[-1] if pts else target
            elif not ongoing:
                if cmds:
                    fails.append(("C17:command-when-idle", f"op {i}: telemetry at {pos} with no trip ongoing "
                                  f"(trips started before: {ever}) made the plugin send {len(cmds)} goto(s)"))
                    target = pts[-1] if pts else target
            else:
                arrived = target is not None and sqdist(pos, target) <= tol * tol
                if arrived and not cmds:
                    fails.append(("C17:missed-redraw", f"op {i}: telemetry at {pos} within {tol} of target {target}: no new waypoint"))
                elif not arrived and cmds:
                    fails.append(("C17:spurious-redraw", f"op {i}: telemetry at {pos}, target {target}, tolerance {tol}: "
                                  f"{len(cmds)} new waypoint(s) although not arrived"))
                elif len(cmds) > 1:
                    fails.append(("C17:multiple-redraw", f"op {i}: one arrival produced {len(cmds)} gotos"))
                if pts:
                    target = pts[-1]
        elif name == "ongoing":
            if cmds:
                fails.append(("C17:unexpected-command", f"op {i}: query sent commands"))
            if ret is not ongoing:
                fails.append(("C17:query-ongoing", f"op {i}: trip_ongoing is {ret}, expected {ongoing}"))
        elif name == "target":
            if cmds:
                fails.append(("C17:unexpected-command", f"op {i}: query sent commands"))
            got = None if ret is None else bitsv3(ret)
            if ongoing or not ever:
                ok = got == target
            else:
                ok = got is None or got == target       # after finish: the last target or None
            if not ok:
                fails.append(("C17:query-target", f"op {i}: current_target is {got}, expected {target} (ongoing {ongoing})"))
    if used != 3 * total_cmds:
        fails.append(("C17:draw-count", f"{used} draws consumed for {total_cmds} waypoints"))
    return [(sig, who + msg) for sig, msg in fails] if who else fails


def trip_interesting(case, impl):
    """>= 2 initiates before a finish, and >= 1 arrival (a telemetry during a trip that drew a waypoint)"""
    run, double, arrival, ongoing = 0, False, False, False
    for op, res in zip(case["ops"], impl["results"]):
        if op[0] == "initiate":
            run += 1
            ongoing = True
        elif op[0] == "finish":
            if run >= 2:
                double = True
            run, ongoing = 0, False
        elif op[0] == "tel" and ongoing and res["cmds"]:
            arrival = True
    return double and arrival


DYADIC_DRAWS = [0.0, 0.5, 0.25, 0.75, 0.125, 0.375, 0.875, 1.0 - 2.0 ** -53]
BOXES = [(-50.0, 50.0), (0.0, 50.0), (0.0, 0.0), (7.0, 7.0), (-3.5, -3.5), (0.0, 2.0 ** -10), (-1024.0, 1024.0),
         (-8.0, -2.0), (16.0, 48.0)]


def ref_uniform(lo, hi, u):
    return lo + (hi - lo) * u


class _Ref:
    """generator-side reference of the intended behaviour, used only to aim telemetry positions"""

    def __init__(self, cfg, draws):
        self.cfg, self.draws, self.used = cfg, draws, 0
        self.ongoing, self.target = False, None
        self.chain = _TelChain()

    def travel(self):
        d = self.draws[self.used:self.used + 3]
        self.used += 3
        if len(d) < 3:
            return None
        return tuple(ref_uniform(self.cfg[a][0], self.cfg[a][1], u) for a, u in zip("xyz", d))

    def apply(self, op):
        if op_refused(op):
            self.travel()                    # drawn, refused by the provider: nothing else changes
        elif op[0] == "initiate":
            self.target = self.travel()
            self.ongoing = True
            self.chain.start_trip()
        elif op[0] == "finish":
            self.ongoing = False
            self.chain.stop_trip()
        elif op[0] == "travel":
            self.travel()
        elif op[0] == "filter":
            self.chain.add_filter(op[1])
        elif op[0] == "tel":
            reaches_trip, _ = self.chain.deliver()
            if reaches_trip and self.ongoing and self.target is not None:
                if sqdist(bitsv3(op[1]), self.target) <= self.cfg["tol"] * self.cfg["tol"]:
                    self.target = self.travel()


def aim(r, ref, lattice, how):
    """a telemetry position relative to the reference target"""
    tol = ref.cfg["tol"]
    t = ref.target if ref.target is not None else (0.0, 0.0, 0.0)
    axis = r.randrange(3)
    sign = r.choice([-1.0, 1.0])

    def off(d):
        p = list(t)
        p[axis] = p[axis] + sign * d
        if not abs(p[axis]) <= 1e9:          # a tolerance near the top of the float range: the node stays on earth
            p[axis] = t[axis] + sign * (4000.0 + (d if d <= 1e9 else 0.0) % 1000.0)
        return tuple(p)
    if how == "at":
        return t
    if how == "boundary" and lattice:
        return off(tol)                      # squared distance == tol^2 exactly on the lattice
    if how == "inside":
        return off(tol / 2)
    if how == "outside":
        return off(2 * tol + 1.0)
    if how == "close":
        return off(tol * 0.875)              # still within the tolerance, by 1/8 of it
    if how == "near":
        return off(tol * 1.25)               # beyond the tolerance by a quarter of it (tol 0: on the target)
    return (r.uniform(-2000, 2000), r.uniform(-2000, 2000), r.uniform(3000, 4000))   # far


HUGE_TOLERANCES = [1e160, sys.float_info.max, 1.5e154, 2.0 ** 600, 1e300, math.inf]
DEFAULT_CFG = {"x": (-50.0, 50.0), "y": (-50.0, 50.0), "z": (0.0, 50.0), "tol": 1.0}   # RandomMobilityConfig()


def gen_peers(seed, cfg, lattice, n_main_ops, how):
    """further plugins built from the same configuration (see trip_run_impl), each with a short history of its
    own aimed at its own waypoints, placed in between the ops of the first plugin"""
    r = random.Random(stable_hash("trip-peers", seed))
    n = r.choice([0, 1]) if how == "default" and r.random() < 0.3 else r.choice([1, 1, 2, 3])
    draws, ops = [], []
    for j in range(n):
        k = r.randint(1, 8)
        d = [r.choice(DYADIC_DRAWS) if lattice else r.random() for _ in range(3 * k + 3)]
        ref = _Ref(cfg, d)
        places = sorted(r.randrange(n_main_ops + 1) for _ in range(k))
        for m, at in enumerate(places):
            x = r.random()
            if (m == 0 and x < 0.8) or x < 0.1:
                op = ["initiate"]
            elif x < 0.17:
                op = ["finish"]
            elif x < 0.85:
                op = ["tel", v3bits(aim(r, ref, lattice, r.choice(["at", "boundary", "close", "near", "inside", "outside"])))]
            elif x < 0.9:
                op = ["travel"]
            else:
                op = [r.choice(["ongoing", "target"])]
            ref.apply(op)
            ops.append([at, j, op])
        draws.append([fbits(v) for v in d])
    ops.sort(key=lambda po: po[0])           # stable: every plugin keeps the order of its own ops
    return {"n": n, "config": how, "main_at": r.randrange(n + 1), "draws": draws, "ops": ops}


def gen_trip(seed, max_ops=40):
    r = random.Random(stable_hash("trip", seed))
    r2 = random.Random(stable_hash("trip-fleet", seed))
    # 40%: the plugin is one of several built from one configuration: the same object (a module-level constant
    # used by every node's protocol), equal objects, or the constructor's default argument
    how = r2.choice(["shared", "shared", "shared", "equal", "default"]) if r2.random() < 0.4 else None
    lattice = r.random() < 0.6
    cfg = {}
    for a in "xyz":
        if lattice or r.random() < 0.3:
            lo, hi = r.choice(BOXES)
        else:
            lo = r.uniform(-500, 500)
            hi = lo + r.choice([0.0, r.uniform(0, 1e-6), r.uniform(0, 300)])
        if r.random() < 0.04:
            lo, hi = hi, lo                   # random.uniform accepts a reversed range
        cfg[a] = (lo, hi)
    cfg["tol"] = r.choice([0.0, 0.5, 1.0, 2.0, 2.0, 4.0, 10.0]) if lattice or r.random() < 0.5 else r.uniform(0.01, 20)
    if how == "default":
        cfg = dict(DEFAULT_CFG)
    r3 = random.Random(stable_hash("trip-extreme", seed))
    if how != "default" and r3.random() < 0.06:
        # "every telemetry counts as an arrival": a huge finite tolerance (its square is beyond the float range),
        # or an infinite one
        cfg["tol"] = r3.choice(HUGE_TOLERANCES)
    n = r.randint(3, max_ops)
    draws = [r.choice(DYADIC_DRAWS) if (lattice or r.random() < 0.2) else r.random() for _ in range(3 * n + 6)]
    ref = _Ref(cfg, draws)
    mode = r.choice(["mixed", "mixed", "restart", "idle-first", "arrivals"])
    ops = []
    if mode == "idle-first":
        for _ in range(r.randint(1, 4)):
            ops.append(r.choice([["ongoing"], ["target"], ["finish"], ["tel", v3bits(aim(r, ref, lattice, "far"))]]))
    # 15% of the histories: other telemetry handlers live on the same protocol (a geofence / sensor-fusion filter
    # that returns INTERRUPT for some telemetries), registered at any moment of the history; 12%: the provider
    # refuses the goto of some initiate on an idle plugin / of some travel (it raises, the caller catches it).
    # Decided by a stream of their own: the other histories are what they were.
    r4 = random.Random(stable_hash("trip-adverse", seed))
    filtered = r4.random() < 0.15
    refusing = r4.random() < 0.12
    while len(ops) < n:
        y = r4.random() if (filtered or refusing) else 1.0
        if filtered and y < 0.1:
            op = ["filter", [r4.choice(["interrupt", "interrupt", "interrupt", "cont", "none"]) for _ in range(r4.randint(1, 10))]]
            ops.append(op)
            ref.apply(op)
            continue
        if filtered and ref.ongoing and ref.chain.blocked() and y < 0.4:
            op = ["initiate"]                # started again while another handler sits in front of the trip's
            ops.append(op)
            ref.apply(op)
            continue
        if refusing and 0.5 <= y < 0.62:
            op = ["travel", "refused"] if ref.ongoing else ["initiate", "refused"]
            ops.append(op)
            ref.apply(op)
            continue
        x = r.random()
        if x < (0.3 if mode == "restart" else 0.12):
            op = ["initiate"]
        elif x < (0.4 if mode == "restart" else 0.22):
            op = ["finish"]
        elif x < 0.75:
            hows = (["at", "at", "boundary", "inside", "outside", "far", "close", "near"] if mode != "arrivals" else
                    ["at", "at", "inside", "boundary", "outside", "close", "near"])
            op = ["tel", v3bits(aim(r, ref, lattice, r.choice(hows)))]
        elif x < 0.8:
            op = ["travel"]
        else:
            op = [r.choice(["ongoing", "target"])]
        ops.append(op)
        ref.apply(op)
    hooked = r.random() < 0.12 and not filtered and not refusing    # (the reference does not follow re-entrant calls)
    if hooked:
        # foreign telemetry handlers that call the plugin from inside a dispatch (no model counterpart)
        for _ in range(r.choice([1, 1, 2])):
            scripts = [r.choice([["finish"], ["finish"], [], ["initiate"], ["finish", "initiate"], ["travel"], ["initiate", "finish"]])
                       for _ in range(r.randint(1, 4))]
            ops.insert(r.randrange(len(ops) + 1), ["hook", scripts])
    return {"kind": "randomtrip", **({"hooked": True} if hooked else {}),
            **({"peers": gen_peers(seed, cfg, lattice, len(ops), how)} if how else {}),
            "cfg": {"x": [fbits(cfg["x"][0]), fbits(cfg["x"][1])], "y": [fbits(cfg["y"][0]), fbits(cfg["y"][1])],
                    "z": [fbits(cfg["z"][0]), fbits(cfg["z"][1])], "tol": fbits(cfg["tol"])},
            "draws": [fbits(d) for d in draws], "ops": ops}


def enum_trip(max_len):
    """every history of <= max_len ops over {initiate, finish, telemetry on / off the (reference)
    target, travel, the two queries}, dyadic box and draws"""
    cfg = {"x": (-8.0, 8.0), "y": (0.0, 16.0), "z": (4.0, 4.0), "tol": 2.0}
    draws = [DYADIC_DRAWS[(5 * i + 1) % 7] for i in range(3 * max_len + 6)]
    alphabet = ["initiate", "finish", "tel-at", "tel-far", "travel", "ongoing", "target"]
    jcfg = {a: [fbits(cfg[a][0]), fbits(cfg[a][1])] for a in "xyz"}
    jcfg["tol"] = fbits(cfg["tol"])
    jdraws = [fbits(d) for d in draws]
    for n in range(1, max_len + 1):
        for combo in itertools.product(alphabet, repeat=n):
            ref = _Ref(cfg, draws)
            ops = []
            for c in combo:
                if c == "tel-at":
                    op = ["tel", v3bits(ref.target if ref.target is not None else (0.0, 0.0, 0.0))]
                elif c == "tel-far":
                    op = ["tel", v3bits((100.0, 100.0, 100.0))]
                else:
                    op = [c]
                ops.append(op)
                ref.apply(op)
            yield {"kind": "randomtrip", "cfg": jcfg, "draws": jdraws, "ops": ops, "label": "enum"}


class C17(Check):
    prop = "C17"
    level_text = ("Theorems over the plugin model (on the dispatcher model), for every box, tolerance, draw stream and every "
                  "history of initiate / finish / telemetry / travel / queries: over the reals every drawn coordinate lies in "
                  "its axis' range and the waypoint returned is the one sent; during a trip a telemetry draws exactly one new "
                  "waypoint iff it is within the tolerance of the target and none otherwise; queries and finish are defined in "
                  "every state, finishing without a trip is a no-op; the number of registered trip handlers is 1 during a trip "
                  "and 0 otherwise, so after finish no telemetry produces a command. Tied to the code by differential "
                  "execution of the real plugin with controlled draws (bit-exact waypoints).")
    rule = ("boxes incl. degenerate lo = hi, dyadic and random bounds (4% reversed), tolerances incl. 0, histories of 3-40 ops "
            "of initiate / finish / telemetry (on target, exactly on the tolerance boundary on the lattice, inside, outside, "
            "far) / travel / queries in every order incl. query-before-start and initiate-initiate-finish, draws prescribed "
            "through random.random / random.uniform (dyadic incl. 0 and 1-2^-53, or random); telemetry also at 7/8 and 5/4 of "
            "the tolerance from the target; in 40% of the histories the plugin is one of 2-4 plugins (each on its own "
            "protocol instance and provider, like the nodes of a swarm) built from one configuration — the same "
            "RandomMobilityConfig object, equal objects or the constructor's default argument —, built before and after "
            "it and driven by short histories of their own in between its ops; the direct predicate judges every plugin on "
            "its own; 15% of the histories: foreign telemetry handlers that never touch the plugin but return a scripted "
            "CONTINUE / INTERRUPT / None per invocation are registered on the same protocol at any moment, and a trip "
            "sitting behind an interrupting one is often started again (a trip that is started is the newest handler: "
            "telemetry cut off by a handler registered after the last start is not reported to the plugin, everything "
            "else is); 12%: the provider refuses (raises for) the goto of an initiate on an idle plugin or of a travel "
            "and the caller catches it: nothing was started, the plugin stays idle and quiet; thorough: every history of <= 6 "
            "ops over a 7-op alphabet; non-trivial = >= 2 initiates before a finish and >= 1 arrival")
    assumptions = ["lo <= hi for the in-box theorem (random.uniform also accepts a reversed range; the check then uses the "
                   "sorted bounds)", "0 <= u < 1 for every draw", "IEEE rounding of lo + (hi - lo) * u is not formalised (the "
                   "direct predicate allows 4 ulp at the box faces)",
                   "decisions within rounding distance of the tolerance boundary are generated on the dyadic lattice only"]
    technique = ("Lean 4 theorems about a hand-written executable model (induction over operation histories; every handler "
                 "behaviour as a function of the invocation number, incl. scripted re-entrant requests) + differential "
                 "correspondence of model and real classes + direct predicate on the implementation's log to find failing inputs")
    level_note = ("The in-box theorem is over the reals (IEEE rounding of lo + (hi - lo) * u trusted); the other theorems hold "
                  "for every scalar type. The number of trip closures in the dispatcher's telemetry chain (the model's "
                  "'registered handler' component) is read from the wrapper's private list for the correspondence only, and "
                  "skipped if that list is not there. Plugin calls made re-entrantly from foreign telemetry handlers are "
                  "outside the model: ~12% of the generated histories exercise them against the direct predicate only. "
                  "The model describes one plugin: the further plugins built from the same configuration (40% of the "
                  "histories) are judged by the direct predicate only, the plugin of the history by both. "
                  "Histories with foreign filter handlers or refused commands are judged by the direct predicate only. "
                  "Not generated: a refused goto of an initiate while a trip is ONGOING (the pinned code then cannot "
                  "finish or restart: findings/F17c_C17_refused_reinitiate_candidate.json), a refused goto of a redraw. "
                  "A restart issued by an earlier handler of the same telemetry dispatch is exercised, but whether the "
                  "same telemetry may then draw once more is not decided by the property text and not judged. ")
    modelled = ["gradysim/protocol/plugin/random_mobility.py", "gradysim/protocol/plugin/dispatcher.py",
                "gradysim/protocol/position.py (squared_distance)"]
    quick_n = 1500
    thorough_n = 30000

    def generate(self, seed, tier):
        n = self.quick_n if tier == "quick" else self.thorough_n
        for i in range(n):
            c = gen_trip(stable_hash(self.prop, seed, i))
            c["label"] = f"gen/{seed}/{i}"
            yield c
        yield from enum_trip(3 if tier == "quick" else 6)

    def run_impl(self, case):
        return trip_run_impl(case)

    def model_input(self, case, impl):
        if case.get("hooked") or case_is_adverse(case):
            return None      # re-entrant plugin calls from foreign handlers, foreign filters in the chain, commands
            #                  the provider refuses: direct predicate only
        # the model is given the very stream the implementation consumed (prescribed prefix first)
        draws = impl["draws"] + case["draws"][len(impl["draws"]):]
        return {"kind": "randomtrip", "cfg": case["cfg"], "draws": draws, "ops": case["ops"]}

    def compare(self, case, impl, model):
        diffs = []
        a = impl["results"]
        b = model["results"]
        if any(r["h"] is None for r in a):       # the wrapper's chain is not readable: leave it out
            a = [dict(r, h=None) for r in a]
            b = [dict(r, h=None) for r in b]
        if a != b:
            diffs.append(first_diff(a, b))
        if impl["used"] != model["used"]:
            diffs.append(f"draws consumed: implementation {impl['used']} vs model {model['used']}")
        return diffs

    def oracle(self, case, impl):
        return trip_oracle(case, impl)

    def nontrivial(self, case, impl):
        return trip_interesting(case, impl)

    def key(self, case, impl):
        return json.dumps([case["cfg"], case["ops"], case["draws"][:impl["used"]], case.get("peers")], sort_keys=True)

    def sample(self, case, impl):
        return {"label": case.get("label"), "cfg": {k: (bitsf(v) if isinstance(v, str) else [bitsf(x) for x in v])
                                                    for k, v in case["cfg"].items()},
                "ops": [[o[0]] + ([list(bitsv3(o[1])) if o[0] == "tel" else o[1]] if len(o) > 1 else []) for o in case["ops"][:12]],
                "results": impl["results"][:12]}

    def stats(self, case, impl, acc):
        def inc(k, v=1):
            acc[k] = acc.get(k, 0) + v
        inc("histories")
        inc("ops", len(case["ops"]))
        if case.get("hooked"):
            inc("histories_with_reentrant_foreign_handlers")
            for res in impl["results"]:
                for ev in res.get("events", []):
                    if ev[0] == "end":
                        inc("reentrant_" + ev[1])
        cfg = case["cfg"]
        peers = case.get("peers")
        if peers:
            inc(f"histories_config_{peers['config']}_by_{peers['n'] + 1}_plugins")
            for log in impl.get("peers", []):
                on = False
                for op, res in zip(log["ops"], log["results"]):
                    inc("other_plugin_op_" + op[0])
                    if op[0] == "initiate":
                        on = True
                    elif op[0] == "finish":
                        on = False
                    elif op[0] == "tel" and on:
                        inc("other_plugin_tel_trip_" + ("redraw" if res["cmds"] else "quiet"))
        if bitsf(cfg["tol"]) not in (0.0, 1.0):
            inc("tolerance_not_0_or_1")
        if any(cfg[a][0] == cfg[a][1] for a in "xyz"):
            inc("box_with_degenerate_axis")
        if any(bitsf(cfg[a][0]) > bitsf(cfg[a][1]) for a in "xyz"):
            inc("box_with_reversed_axis")
        if bitsf(cfg["tol"]) == 0.0:
            inc("tolerance_zero")
        if bitsf(cfg["tol"]) > 1e154:
            inc("tolerance_whose_square_exceeds_the_float_range")
        ongoing, seen_init = False, False
        chain = _TelChain()
        if case_is_adverse(case):
            inc("histories_with_foreign_filters_or_refused_commands")
        for op, res in zip(case["ops"], impl["results"]):
            inc("op_" + op[0])
            inc("waypoints", len(res["cmds"]))
            if isinstance(res["ret"], str) and res["ret"].startswith("crash"):
                inc(res["ret"])
            if op_refused(op):
                inc(f"{op[0]}_refused_by_the_provider_" + ("trip_ongoing" if ongoing else "idle"))
            elif op[0] == "filter":
                chain.add_filter(op[1])
            elif op[0] == "tel" and not case.get("hooked") and any(e != "trip" for e in chain.entries):
                reaches_trip, _ = chain.deliver()
                if ongoing:
                    inc("tel_trip_" + ("cut_off_before_the_trip_handler" if not reaches_trip else
                                       ("redraw" if res["cmds"] else "quiet") + "_with_filters_in_the_chain"))
            elif op[0] == "initiate":
                if ongoing and chain.blocked():
                    inc("initiate_while_ongoing_behind_an_interrupting_filter")
                chain.start_trip()
                inc("initiate_while_ongoing" if ongoing else "initiate_fresh")
                ongoing, seen_init = True, True
            elif op[0] == "finish":
                inc("finish_ongoing" if ongoing else "finish_idle")
                ongoing = False
                chain.stop_trip()
            elif op[0] == "tel" and case.get("hooked"):
                inc("tel_with_foreign_handlers_" + ("commands" if res["cmds"] else "quiet"))
            elif op[0] == "tel":
                inc(("tel_trip_" if ongoing else "tel_idle_") + ("redraw" if res["cmds"] else "quiet"))
            elif op[0] in ("ongoing", "target") and not seen_init:
                inc("query_before_first_trip")

    def shrink(self, case, still_fails):
        best = copy.deepcopy(case)
        best.pop("label", None)
        changed = True
        while changed:
            changed = False
            for i in range(len(best["ops"]) - 1, -1, -1):
                cand = copy.deepcopy(best)
                del cand["ops"][i]
                for po in (cand.get("peers") or {}).get("ops", []):
                    if po[0] > i:
                        po[0] -= 1          # the other plugins' ops stay where they were relative to the rest
                if still_fails(cand):
                    best, changed = cand, True
            if best.get("hooked") and not any(op[0] == "hook" for op in best["ops"]):
                cand = copy.deepcopy(best)
                del cand["hooked"]
                if still_fails(cand):
                    best, changed = cand, True
            peers = best.get("peers")
            if peers:
                cand = copy.deepcopy(best)
                del cand["peers"]
                if peers["config"] != "default" and still_fails(cand):
                    best, changed = cand, True
                    continue
                for i in range(len(peers["ops"]) - 1, -1, -1):
                    cand = copy.deepcopy(best)
                    del cand["peers"]["ops"][i]
                    if still_fails(cand):
                        best, changed = cand, True
                if best["peers"]["n"] > 0 and not any(po[1] == best["peers"]["n"] - 1 for po in best["peers"]["ops"]):
                    cand = copy.deepcopy(best)           # the last-built other plugin does nothing: leave it out
                    cand["peers"]["n"] -= 1
                    cand["peers"]["draws"] = cand["peers"]["draws"][:cand["peers"]["n"]]
                    if still_fails(cand):
                        best, changed = cand, True
        return best


CHECKS = {"C15": C15, "C17": C17}
