"""Helper for C06: run one frozen scenario in a fresh interpreter (PYTHONHASHSEED set by the parent)."""
import json
import sys
from pathlib import Path

sys.path.insert(0, str(Path(__file__).resolve().parent))
import common  # noqa: E402,F401
import simimpl  # noqa: E402

payload = json.loads(sys.stdin.read())
if payload.get("forerunner"):
    # an earlier simulation in this process: the same scenario over another geographic reference
    simimpl.run_impl(payload["forerunner"], None, draw_seed=payload["seed"] + 17, global_random=True)
res = simimpl.run_impl(payload["case"], None, draw_seed=payload["seed"], global_random=True)
print(json.dumps({"trace": res["trace"], "crash": res["crash"]}))
