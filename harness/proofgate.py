"""Proof gate: build the Lean project, scan it for escape hatches, audit the axioms of every
property theorem registered for a property, optionally re-check the compiled module with leanchecker.
"""
import json
import re
import subprocess
import sys
import tempfile
from pathlib import Path

from common import LEAN, VERIF

ALLOWED_AXIOMS = {"propext", "Classical.choice", "Quot.sound"}
FORBIDDEN = re.compile(r"\bsorry\b|\badmit\b|^\s*axiom\s|native_decide|bv_decide|implemented_by|"
                       r"\bunsafe\s|maxHeartbeats\s+0\b", re.M)
REGISTRY = LEAN / "theorems.json"


def strip_comments(src: str) -> str:
    # nested block comments /- ... -/ and line comments --
    out, i, depth = [], 0, 0
    while i < len(src):
        if src.startswith("/-", i):
            depth += 1
            i += 2
        elif src.startswith("-/", i) and depth > 0:
            depth -= 1
            i += 2
        elif depth > 0:
            if src[i] == "\n":
                out.append("\n")
            i += 1
        elif src.startswith("--", i):
            while i < len(src) and src[i] != "\n":
                i += 1
        else:
            out.append(src[i])
            i += 1
    return "".join(out)


def lean_sources():
    return sorted(p for p in LEAN.rglob("*.lean") if ".lake" not in p.parts)


def scan_forbidden():
    hits = []
    for p in lean_sources():
        code = strip_comments(p.read_text())
        for m in FORBIDDEN.finditer(code):
            line = code.count("\n", 0, m.start()) + 1
            hits.append(f"{p.relative_to(LEAN)}:{line}: {m.group(0).strip()}")
    return hits


def theorems_in_file(prop: str):
    p = LEAN / "GradysProofs" / "Properties" / f"{prop}.lean"
    if not p.exists():
        return []
    code = strip_comments(p.read_text())
    return [f"{prop}.{m.group(1)}" for m in re.finditer(r"^theorem\s+(" + prop + r"_\w+)", code, re.M)]


def load_registry():
    if REGISTRY.exists():
        return json.loads(REGISTRY.read_text())
    return {}


def update_registry():
    reg = {}
    for p in sorted((LEAN / "GradysProofs" / "Properties").glob("C*.lean")):
        prop = p.stem
        reg[prop] = theorems_in_file(prop)
    REGISTRY.write_text(json.dumps(reg, indent=1) + "\n")
    return reg


def build():
    r = subprocess.run(["lake", "build", "GradysModel", "GradysProofs", "driver"], cwd=LEAN,
                       stdout=subprocess.PIPE, stderr=subprocess.STDOUT, text=True)
    return r.returncode == 0, r.stdout


def audit(prop: str, names):
    """#print axioms for each theorem; returns {name: [axioms]} and the list of problems."""
    if not names:
        return {}, [f"no theorem registered for {prop}"]
    src = f"import GradysProofs.Properties.{prop}\n" + "".join(f"#print axioms {n}\n" for n in names)
    (LEAN / ".lake").mkdir(exist_ok=True)
    with tempfile.NamedTemporaryFile("w", suffix=".lean", dir=LEAN / ".lake", delete=False) as f:
        f.write(src)
        tmp = Path(f.name)
    try:
        r = subprocess.run(["lake", "env", "lean", str(tmp)], cwd=LEAN, stdout=subprocess.PIPE,
                           stderr=subprocess.STDOUT, text=True)
    finally:
        tmp.unlink(missing_ok=True)
    out = r.stdout
    found, problems = {}, []
    for m in re.finditer(r"'([^']+)' depends on axioms: \[([^\]]*)\]", out, re.S):
        found[m.group(1)] = [a.strip() for a in m.group(2).replace("\n", " ").split(",") if a.strip()]
    for m in re.finditer(r"'([^']+)' does not depend on any axioms", out):
        found[m.group(1)] = []
    for n in names:
        if n not in found:
            problems.append(f"theorem {n} does not check (missing or failing): " + out[-600:].strip())
        else:
            bad = [a for a in found[n] if a not in ALLOWED_AXIOMS]
            if bad:
                problems.append(f"theorem {n} depends on non-admitted axioms {bad}")
    return found, problems


def leancheck(prop: str):
    r = subprocess.run(["lake", "env", "leanchecker", f"GradysProofs.Properties.{prop}"], cwd=LEAN,
                       stdout=subprocess.PIPE, stderr=subprocess.STDOUT, text=True)
    return r.returncode == 0, r.stdout[-1500:]


def run(prop: str, tier: str):
    """Returns a dict: ok, obligations, discharged, problems[], axioms{}, checker_cmd.
    Serialised across concurrently running checks (lake is not safe to run twice in one package)."""
    import fcntl
    import os
    (LEAN / ".lake").mkdir(exist_ok=True)
    cache = LEAN / ".lake" / f"gate_cache_{prop}_{tier}.json"
    if os.environ.get("VERIF_GATE_CACHE") == "1" and cache.exists():
        # used by harness/seedtest.py only: the Lean side is identical across seeded changes of the
        # Python code, so the gate result of the last real run is reused when no Lean source is newer
        newest = max(p.stat().st_mtime for p in lean_sources())
        if cache.stat().st_mtime > newest:
            return json.loads(cache.read_text())
    with open(LEAN / ".lake" / "gate.lock", "w") as lk:
        fcntl.flock(lk, fcntl.LOCK_EX)
        try:
            res = _run(prop, tier)
        finally:
            fcntl.flock(lk, fcntl.LOCK_UN)
    if res.get("ok"):
        cache.write_text(json.dumps(res))
    return res


def _run(prop: str, tier: str):
    res = {"ok": True, "problems": [], "axioms": {}, "obligations": 0, "discharged": 0,
           "checker_cmd": f"cd lean && lake build GradysProofs && lake env lean <#print axioms of every {prop}_* theorem>"}
    ok, out = build()
    if not ok:
        res["ok"] = False
        res["problems"].append("lake build failed: " + out[-1500:])
    hits = scan_forbidden()
    if hits:
        res["ok"] = False
        res["problems"].append("forbidden constructs in Lean sources: " + "; ".join(hits[:10]))
    reg = load_registry()
    names = reg.get(prop, [])
    present = set(theorems_in_file(prop))
    res["obligations"] = len(names)
    missing = [n for n in names if n not in present]
    for n in missing:
        res["problems"].append(f"registered theorem {n} is no longer stated in Properties/{prop}.lean")
    if ok:
        found, problems = audit(prop, names)
        res["axioms"] = found
        res["problems"].extend(problems)
        res["discharged"] = sum(1 for n in names if n in found
                                and all(a in ALLOWED_AXIOMS for a in found[n]))
        if tier == "thorough":
            okc, outc = leancheck(prop)
            res["checker_cmd"] += f" && lake env leanchecker GradysProofs.Properties.{prop}"
            res["leanchecker"] = "ok" if okc else outc
            if not okc:
                res["problems"].append("leanchecker rejected the module: " + outc)
    if res["problems"] or res["discharged"] != res["obligations"] or res["obligations"] == 0:
        res["ok"] = False
    return res


if __name__ == "__main__":
    if len(sys.argv) > 1 and sys.argv[1] == "--update":
        reg = update_registry()
        print({k: len(v) for k, v in reg.items()})
    else:
        print(json.dumps(run(sys.argv[1], sys.argv[2] if len(sys.argv) > 2 else "quick"), indent=1))
