"""In-process driver of the REAL simulator (imported from /repo's working tree) for a scenario.

A scenario is a dict in the driver's JSON format (floats as bit-pattern strings, times in ticks):
  cfg   : nNodes, hasTimer, hasComm, hasMob, handlers (labels in registration order; the labels
          'timer' / 'communication' / 'mobility' denote recording subclasses of the real handlers,
          any other label a recording no-op INodeHandler), duration, maxIter, delay, failRate,
          defaultRange, dt, dtS, defaultSpeed, refGeo, initPos, draws
  table : rows {n, cb, key, t, reqs}  -- the protocol program (filled in by the run when a
          behaviour generator is attached)
  drive : {mode: start|steps, n}
Everything observed goes through public extension points (IProtocol, INodeHandler, IProvider,
SimulationBuilder, Simulator.step_simulation/start_simulation/get_node).
"""
import copy
import logging
import random

from common import TICK, bitsf, bitsv3, fbits, v3bits, to_ticks

from gradysim.protocol.interface import IProtocol
from gradysim.protocol.messages.communication import SendMessageCommand, BroadcastMessageCommand
from gradysim.protocol.messages.mobility import (GotoCoordsMobilityCommand, GotoGeoCoordsMobilityCommand,
                                                 SetSpeedMobilityCommand)
from gradysim.simulator.handler.interface import INodeHandler
from gradysim.simulator.handler.timer import TimerHandler
from gradysim.simulator.handler.communication import CommunicationHandler, CommunicationMedium
from gradysim.simulator.handler.mobility import MobilityHandler, MobilityConfiguration
from gradysim.simulator.simulation import SimulationBuilder, SimulationConfiguration
from gradysim.simulator.extension.communication_controller import CommunicationController


def quiet_logging(verbose=False):
    """nothing is printed; `verbose` (scenario flag verboseLogging): the level stays DEBUG, so every log statement
    of the package is still evaluated and its record handed to a null handler"""
    root = logging.getLogger()
    for h in list(root.handlers):
        root.removeHandler(h)
    root.addHandler(logging.NullHandler())
    root.setLevel(logging.DEBUG if verbose else logging.CRITICAL)


def trig_key(n, kind, key, t):
    return f"{n}|{kind}|{t}|{key}"


class DrawSource:
    """Replacement for random.random: serves a prescribed prefix, then a seeded stream; records
    every value handed out so the model can be given the very same stream."""

    def __init__(self, seed, prescribed=None):
        self.rng = random.Random(seed)
        self.prescribed = list(prescribed or [])
        self.values = []

    def __call__(self):
        i = len(self.values)
        v = self.prescribed[i] if i < len(self.prescribed) else self.rng.random()
        self.values.append(v)
        return v


class GlobalDrawSource:
    """random.seed(seed) on the GLOBAL generator, then pass every random.random() call through to it,
    only recording the values (C06: 'with the random generator seeded identically')."""

    def __init__(self, seed):
        random.seed(seed)
        self._orig = random.random
        self.rng = random.Random(("extra", seed).__repr__())
        self.values = []

    def __call__(self):
        v = self._orig()
        self.values.append(v)
        return v


class patched_random:
    def __init__(self, source):
        self.source = source

    def __enter__(self):
        self._old = random.random
        random.random = self.source
        return self.source

    def __exit__(self, *a):
        random.random = self._old


class Runaway(Exception):
    """raised by the recording protocol/handlers when a run exceeds the harness's hard cap (a
    changed implementation may loop forever; the cap turns that into an observable crash)"""


HARD_CAP = 150000

# the defaults the project documents for its configuration classes (docs/ and the class docstrings)
DOCUMENTED_DEFAULTS = {"medium": {"transmission_range": 60, "delay": 0, "failure_rate": 0},
                       "mobility": {"update_rate": 0.01, "default_speed": 10, "reference_coordinates": (0, 0, 0)}}


class Recorder:
    """Collects the implementation's observations in the driver's trace format."""

    def __init__(self, scn, behaviour=None):
        self.scn = scn
        self.trace = []
        self.positions = []
        self.exc_types = []          # exception type names of refused requests, in order
        self.table = {}              # trig_key -> row
        for row in scn.get("table", []):
            self.table[trig_key(row["n"], row["cb"], row["key"], row["t"])] = row
        self.behaviour = behaviour
        self.sim = None
        self.controllers = {}
        self.identities = []         # (node id, id(protocol), id(provider)) at initialize
        self.own_pos = []
        self.time_types = []
        self.row_uses = {}
        self._enum_names = {}
        self._node = None
        self.commands = {}
        self.tick = float(scn.get("tick", TICK))
        self.hard_cap = scn.get("hardCap", HARD_CAP)   # deliberately long runs raise it in the scenario

    # -- protocol side ---------------------------------------------------------------------
    def on_callback(self, proto, kind, key, pos=None):
        n = proto.provider.get_id()
        raw = proto.provider.current_time()
        t = to_ticks(raw, self.tick)
        self.time_types.append([n, kind, type(raw).__name__])     # what str()/json of the time would show
        entry = ["cb", n, kind, key, t]
        if pos is not None:
            entry.append(v3bits(pos))
        self.trace.append(entry)
        if len(self.trace) > self.hard_cap:
            raise Runaway(f"more than {self.hard_cap} observations")
        if pos is not None and self.sim is not None:
            # the node's own position at the moment its telemetry is handled (C12)
            try:
                self.own_pos.append([n, t, v3bits(pos), v3bits(self.sim.get_node(n).position)])
            except Exception:
                pass
        k = trig_key(n, kind, key, t)
        row = self.table.get(k)
        if row is None:
            reqs = self.behaviour.react(n, kind, key, t) if self.behaviour is not None else []
            if pos is not None:
                here = ["goto"] + v3bits(pos)
                reqs = [here if q == ["gotoHere"] else
                        (["onRefused", here, q[2]] if q[0] == "onRefused" and q[1] == ["gotoHere"] else q) for q in reqs]
            else:
                reqs = [q for q in reqs if q != ["gotoHere"] and not (q[0] == "onRefused" and q[1] == ["gotoHere"])]
            row = {"n": n, "cb": kind, "key": key, "t": t, "reqs": reqs}
            self.table[k] = row
        self._cb_kind = kind
        # a reaction is a function of its trigger; when the same trigger occurs again it reacts as before - an
        # escape (which cuts the reaction short) is therefore only taken at a trigger's first occurrence
        self.row_uses[k] = self.row_uses.get(k, 0) + 1
        self._first_use = self.row_uses[k] == 1
        start = len(self.trace)
        try:
            for spec in row["reqs"]:
                if spec[0] == "onRefused":
                    ok = self.issue(proto, n, spec[1])
                    if not ok:
                        for alt in spec[2]:
                            self.issue(proto, n, alt)
                else:
                    self.issue(proto, n, spec)
        except Exception:
            # the exception escapes the callback: what this callback did is what it did before raising
            row["reqs"] = [e[2] for e in self.trace[start:] if e[0] == "req"]
            raise

    def external(self, proto, n, reqs):
        """requests issued through the provider from outside any callback (an external controller between
        two steps); relative timers are resolved against the clock the provider reports now.
        Returns the resolved requests."""
        now = to_ticks(proto.provider.current_time(), self.tick)
        self._cb_kind = "external"
        self.trace.append(["ext", n, now])
        out = []
        for req in reqs:
            if req[0] == "setTimerRel":
                req = ["setTimer", req[1], now + req[2]]
            out.append(req)
            self.issue(proto, n, req)
        return out

    def issue(self, proto, n, req):
        ok = True
        try:
            self.perform(proto, req)
        except Exception as e:  # a refused request raises; the protocol catches it
            ok = False
            self.exc_types.append(type(e).__name__)
            drv = self.scn.get("drive", {})
            if self.scn.get("escapeAt") == len(self.exc_types) and \
                    (not self.scn.get("tolerant") or
                     (getattr(self, "_cb_kind", None) in ("timer", "packet", "telemetry") and getattr(self, "_first_use", False)
                      and drv.get("mode") == "steps" and not drv.get("untilDone"))):
                # scenario flag escapeAt: this protocol does NOT catch its k-th refusal - the exception
                # leaves the callback and aborts the run (only C06 uses it: an aborted run is aborted
                # the same way however it is driven)
                self.trace.append(["req", n, req, ok])
                raise
        self.trace.append(["req", n, req, ok])
        return ok

    def secs(self, ticks):
        """ticks -> the time value handed to the API: float seconds, or (scenario flag intTime, one tick
        per second) the integer itself - integer timestamps are legal and exact at any magnitude"""
        if self.scn.get("intTime"):
            return int(ticks)
        return ticks / self.tick

    def delay_value(self, ticks):
        """the medium's delay; scenario flag floatZeroDelay: "no delay" written as the float 0.0 (also in the
        integer regime, where nothing may be added to the clock that is not an int)"""
        if ticks == 0 and self.scn.get("floatZeroDelay"):
            return 0.0
        return self.secs(ticks)

    def tname(self, name):
        """scenario flag enumNames: timer names are members of a `str` enumeration (`class Timers(str, Enum)`), as
        protocols often declare them: equal to, hashing like and delivered as their string value"""
        if not self.scn.get("enumNames"):
            return name
        m = self._enum_names.get(name)
        if m is None:
            import enum
            m = enum.Enum("Timers", {"MEMBER": name}, type=str).MEMBER
            self._enum_names[name] = m
        return m

    def num(self, x):
        """scenario flag intArgs: integral quantities are handed over as Python ints (a protocol that
        writes `schedule_timer("a", 3)` or `GotoCoordsMobilityCommand(10, 0, 5)` is using the API legitimately)"""
        ia = self.scn.get("intArgs")
        if isinstance(ia, list):
            ia = self._node in ia            # only these nodes write their numbers as ints
        if ia and isinstance(x, float) and x.is_integer() and abs(x) < 2.0 ** 53 \
                and not (x == 0 and str(x).startswith("-")):
            return int(x)
        return x

    def perform(self, proto, req):
        p = proto.provider
        op = req[0]
        self._node = p.get_id()
        if self.scn.get("pollDone") and self.sim is not None:
            # the public, side-effect free status query, asked from inside callbacks as a UI would
            self.sim.is_simulation_done()
        kw = bool(self.scn.get("keywordArgs"))
        if op == "setTimer":
            if kw:      # the parameter names the IProvider interface publishes
                p.schedule_timer(timer=self.tname(req[1]), timestamp=self.num(self.secs(req[2])))
            else:
                p.schedule_timer(self.tname(req[1]), self.num(self.secs(req[2])))
        elif op == "cancelTimer":
            if kw:
                p.cancel_timer(timer=self.tname(req[1]))
            else:
                p.cancel_timer(self.tname(req[1]))
        elif op == "send":
            p.send_communication_command(self.command(proto, "send", req[1], req[2]))
        elif op == "broadcast":
            p.send_communication_command(self.command(proto, "broadcast", req[1], None))
        elif op == "goto":
            p.send_mobility_command(self.mcommand(proto, GotoCoordsMobilityCommand,
                                                  [self.num(c) for c in bitsv3(req[1:4])]))
        elif op == "gotoGeo":
            p.send_mobility_command(self.mcommand(proto, GotoGeoCoordsMobilityCommand, list(bitsv3(req[1:4]))))
        elif op == "setSpeed":
            p.send_mobility_command(SetSpeedMobilityCommand(self.num(bitsf(req[1]))))
        elif op == "setRange":
            ctls = self.controllers.get(id(proto))
            if ctls is None:
                # a protocol may hold more than one controller for its node (its own and a helper's); they are
                # used in turn - the range belongs to the node, not to the controller object
                ctls = [CommunicationController(proto), CommunicationController(proto)]
                self.controllers[id(proto)] = ctls
            self._ctl_turn = getattr(self, "_ctl_turn", 0) + 1
            ctl = ctls[self._ctl_turn % 2] if self.scn.get("twoControllers", True) else ctls[0]
            ctl.set_transmission_range(self.num(bitsf(req[1])))
        else:
            raise ValueError(f"unknown request {op}")

    def mcommand(self, proto, cls, params):
        """a fresh mobility command per request, or (scenario flag reuseCommands) one long-lived object per
        protocol instance and kind, re-sent as it is when the same place is requested again and with its
        parameters overwritten otherwise (a rally point kept as a constant, a stored command re-sent from a timer)"""
        if not self.scn.get("reuseCommands"):
            return cls(*params)
        key = (id(proto), cls.__name__)
        cmd = self.commands.get(key)
        if cmd is None or self.commands.get((key, "params")) != params:
            if cmd is None:
                cmd = cls(*params)
                self.commands[key] = cmd
            else:
                cmd.param_1, cmd.param_2, cmd.param_3 = params
            self.commands[(key, "params")] = list(params)
        return cmd

    def command(self, proto, kind, msg, dst):
        """a fresh command object per request, or (scenario flag reuseCommands) one long-lived object
        per protocol instance and kind whose fields are overwritten before every send - a legitimate
        usage pattern: the payload that counts is the one at the time of the send"""
        if self.scn.get("genericCommands"):
            # scenario flag genericCommands: the commands are written with the generic dataclass the two helper
            # classes derive from; a broadcast's destination field "is not necessary" - here it is filled in with some
            # node's id, which a broadcast ignores (seeded C10_L)
            from gradysim.protocol.messages.communication import CommunicationCommand, CommunicationCommandType
            if kind == "send":
                return CommunicationCommand(CommunicationCommandType.SEND, msg, dst)
            n = self.scn["cfg"]["nNodes"]
            # another node's id (the handler refuses any command whose destination is the sender itself)
            other = None if n < 2 else (proto.provider.get_id() + 1 + len(msg) % (n - 1)) % n
            return CommunicationCommand(CommunicationCommandType.BROADCAST, msg, other)
        if not self.scn.get("reuseCommands"):
            return SendMessageCommand(msg, dst) if kind == "send" else BroadcastMessageCommand(msg)
        key = (id(proto), kind)
        cmd = self.commands.get(key)
        if cmd is None:
            cmd = SendMessageCommand(msg, dst) if kind == "send" else BroadcastMessageCommand(msg)
            self.commands[key] = cmd
        cmd.message = msg
        if kind == "send":
            cmd.destination = dst
        return cmd

    # -- handler side ----------------------------------------------------------------------
    def sample_positions(self):
        n = self.scn["cfg"]["nNodes"]
        self.positions.append([v3bits(self.sim.get_node(i).position) for i in range(n)])


def attach_passthrough_plugin(proto, one_shot, interrupt=False):
    """scenario flag dispatcher: the protocol uses a plugin built on the project's dispatcher (as the
    mission / random-trip / statistics plugins are) whose handlers let every call pass. `one_shot`
    handlers unregister themselves the first time they run - also the lifecycle ones. Nothing the
    protocol observes may change."""
    from gradysim.protocol.plugin.dispatcher import create_dispatcher, DispatchReturn
    d = create_dispatcher(proto)

    def on_timer(inst, timer):
        if one_shot:
            d.unregister_handle_timer(on_timer)
        return DispatchReturn.CONTINUE

    def on_packet(inst, message):
        return DispatchReturn.CONTINUE

    def on_telemetry(inst, telemetry):
        if one_shot:
            d.unregister_handle_telemetry(on_telemetry)
        return None

    def on_finish(inst):
        if one_shot:
            d.unregister_finish(on_finish)
        if interrupt:       # lifecycle chains are not interruptible: the protocol's own finish still runs
            return DispatchReturn.INTERRUPT

    def on_initialize(inst):
        if one_shot:
            d.unregister_initialize(on_initialize)
        if interrupt:
            return DispatchReturn.INTERRUPT

    d.register_handle_timer(on_timer)
    d.register_handle_packet(on_packet)
    d.register_handle_telemetry(on_telemetry)
    d.register_finish(on_finish)
    d.register_initialize(on_initialize)
    return d


def make_protocol_class(rec):
    plug = rec.scn.get("dispatcher") or {}

    class TableProtocol(IProtocol):
        _rec = rec
        _plugin = None

        def _attach(self, moment):
            if plug and self._plugin is None and plug.get("when") == moment:
                self._plugin = attach_passthrough_plugin(self, plug.get("oneShot", False), plug.get("interrupt", False))

        def initialize(self):
            self._attach("initialize")
            self._rec.identities.append((self.provider.get_id(), id(self), id(self.provider)))
            self._rec.on_callback(self, "initialize", "")

        def handle_timer(self, timer):
            self._attach("timer")
            if self._rec.scn.get("enumNames") and isinstance(timer, str) and type(timer) is not str:
                timer = str.__str__(timer) if timer == str.__str__(timer) else repr(timer)   # the member's value
            self._rec.on_callback(self, "timer", timer)

        def handle_packet(self, message):
            self._rec.on_callback(self, "packet", message)

        def handle_telemetry(self, telemetry):
            self._attach("telemetry")
            self._rec.on_callback(self, "telemetry", "", telemetry.current_position)

        def finish(self):
            self._rec.on_callback(self, "finish", "")

    return TableProtocol


def _hooks_for(rec, label, sampler):
    """recording overrides of the three handler hooks; each calls the next implementation in the MRO
    of the class that DEFINES the override (so leaf subclasses that add nothing work)."""
    holder = {}

    def initialize(self):
        rec.trace.append(["hinit", label])
        return super(holder["cls"], self).initialize()

    def after_simulation_step(self, iteration, timestamp):
        rec.trace.append(["after", label, iteration, to_ticks(timestamp, rec.tick)])
        if len(rec.trace) > rec.hard_cap:
            raise Runaway(f"more than {rec.hard_cap} observations")
        if sampler:
            rec.sample_positions()
        if rec.scn.get("pollDone") and rec.sim is not None:
            rec.sim.is_simulation_done()
            # looking at public objects (a debugger, a log line) changes nothing
            loop = getattr(self, "_event_loop", None)
            if loop is not None:
                repr(loop), str(loop), len(loop), loop.current_time
            for i in range(rec.scn["cfg"]["nNodes"]):
                repr(rec.sim.get_node(i))
        return super(holder["cls"], self).after_simulation_step(iteration, timestamp)

    def finalize(self):
        rec.trace.append(["hfinal", label])
        return super(holder["cls"], self).finalize()

    class _Hooks(dict):
        pass

    hooks = _Hooks({"initialize": initialize, "after_simulation_step": after_simulation_step, "finalize": finalize})
    hooks.holder = holder
    return hooks


def _mk(name, bases, hooks):
    cls = type(name, bases, dict(hooks))
    hooks.holder["cls"] = cls
    return cls


def _leaf(base_cls, name, label_hash):
    """Some handlers get their hooks from an intermediate base class and a leaf class that adds
    nothing (a common way to write handlers: subclass an existing one, change only the label)."""
    if label_hash % 2 == 0:
        return base_cls
    return type(name + "Leaf", (base_cls,), {})


def make_handler(rec, label, cfg, sampler):
    """A recording handler: subclass of the real handler for the three real labels, otherwise a
    no-op INodeHandler with the given label."""
    import zlib
    hooks = _hooks_for(rec, label, sampler)
    lh = zlib.crc32(label.encode()) + cfg["nNodes"]
    if label == "timer" and cfg["hasTimer"]:
        cls = _leaf(_mk("RecTimerHandler", (TimerHandler,), hooks), "RecTimerHandler", lh)
        return cls()
    if label == "communication" and cfg["hasComm"]:
        cls = _leaf(_mk("RecCommunicationHandler", (CommunicationHandler,), hooks), "RecCommunicationHandler", lh)
        if rec.scn.get("lateMedium"):
            # the medium object is handed over first and configured afterwards (delay and loss rate
            # are properties of the medium, read when a message is sent)
            medium = CommunicationMedium(transmission_range=bitsf(cfg["defaultRange"]))
            handler = cls(medium)
            medium.delay = rec.delay_value(cfg["delay"])
            medium.failure_rate = bitsf(cfg["failRate"])
            return handler
        kw = dict(transmission_range=bitsf(cfg["defaultRange"]), delay=rec.delay_value(cfg["delay"]),
                  failure_rate=bitsf(cfg["failRate"]))
        if rec.scn.get("useDefaults"):
            # scenario flag useDefaults: what equals the DOCUMENTED default (range 60, no delay, no loss) is left
            # to the default instead of being passed
            for k, dv in DOCUMENTED_DEFAULTS["medium"].items():
                if kw[k] == dv and not (kw[k] == 0 and str(kw[k]).startswith("-")):
                    del kw[k]
        medium = CommunicationMedium(**kw)
        return cls(medium)
    if label == "mobility" and cfg["hasMob"]:
        cls = _leaf(_mk("RecMobilityHandler", (MobilityHandler,), hooks), "RecMobilityHandler", lh)
        kw = dict(update_rate=bitsf(cfg["dtS"]), default_speed=bitsf(cfg["defaultSpeed"]),
                  reference_coordinates=tuple(bitsv3(cfg["refGeo"])))
        if rec.scn.get("useDefaults"):
            for k, dv in DOCUMENTED_DEFAULTS["mobility"].items():
                if kw[k] == dv and "-0.0" not in repr(kw[k]):
                    del kw[k]
        conf = MobilityConfiguration(**kw)
        return cls(conf)

    class Generic(INodeHandler):
        def inject(self, event_loop):
            pass

        def register_node(self, node):
            pass

    if lh % 2 == 0:
        hooks["get_label"] = staticmethod(lambda: label)
        return _mk("RecHandler_" + label, (Generic,), hooks)()
    base = _mk("RecHandlerBase_" + label, (Generic,), hooks)
    leaf = type("RecHandler_" + label, (base,), {"get_label": staticmethod(lambda: label)})
    return leaf()


def build(scn, rec, sim_options=None):
    cfg = scn["cfg"]
    opts = dict(execution_logging=False)
    opts.update(scn.get("simOptions") or {})
    opts.update(sim_options or {})
    if scn.get("intTime") and scn.get("verboseLogging"):
        # execution logging renders the clock as `timedelta(seconds=...)`, which cannot represent the integer
        # regime's instants (beyond 2^53 s; timedelta ends at 8.64e13 s): no verbose logging there
        opts.pop("debug", None)
        opts["execution_logging"] = False
    duration = None if cfg["duration"] is None else rec.secs(cfg["duration"])
    late = bool(scn.get("lateConfig"))
    # scenario flag lateConfig: the configuration object is handed to the builder first and its bounds
    # are filled in afterwards (the simulator reads the user's configuration object when it needs a bound)
    conf = SimulationConfiguration(duration=None if late else duration,
                                   max_iterations=None if late else cfg["maxIter"], **opts)
    builder = SimulationBuilder(conf)
    for i, label in enumerate(cfg["handlers"]):
        builder.add_handler(make_handler(rec, label, cfg, sampler=(i == 0 and scn.get("wantPos", False))))
    proto = make_protocol_class(rec)
    ids = []
    for i in range(cfg["nNodes"]):
        # scenario flag distinctProtos: every node runs its own protocol class (sensor / UAV / ground station)
        cls = type(f"TableProtocol{i}", (proto,), {}) if scn.get("distinctProtos") else proto
        ids.append(builder.add_node(cls, bitsv3(cfg["initPos"][i])))
    if late and scn["lateConfig"] == "beforeBuild":
        conf.duration, conf.max_iterations = duration, cfg["maxIter"]
    if scn.get("rebuild"):
        # scenario flag rebuild: the builder is asked twice (the repeat-the-experiment loop); the first
        # simulator is discarded unused, the observed one is the second
        builder.build()
    sim = builder.build()
    if late and scn["lateConfig"] != "beforeBuild":
        conf.duration, conf.max_iterations = duration, cfg["maxIter"]
    rec.sim = sim
    rec.added_ids = ids
    return sim


_PlainRecorder = Recorder      # checks may swap `simimpl.Recorder` for their own subclass; the shadow never uses it


class Shadow:
    """A second simulation alive in the same process and advanced in lock-step with the scenario's own
    one (`scn["shadow"]`). Nothing of it is observed: whatever it does must not matter to the scenario
    (C06: independence of other simulations in the process; C13 across simulators). `mode` "twin" replays
    the same behaviour (same node ids, timer names and internal identifiers), "other" a different one.
    Its medium is lossless so that it never touches the (shared, recorded) random stream."""

    def __init__(self, scn, behaviour):
        import simgen
        sh = scn["shadow"]
        s2 = copy.deepcopy({k: v for k, v in scn.items() if k not in ("shadow", "prestart", "simOptions")})
        s2["cfg"]["failRate"] = fbits(0.0)
        s2["cfg"]["maxIter"] = None
        if sh.get("defaultRange"):
            s2["cfg"]["defaultRange"] = sh["defaultRange"]
        for k in ("lateConfig", "pollDone", "rebuild"):
            s2.pop(k, None)
        if sh.get("refGeo"):
            s2["cfg"]["refGeo"] = sh["refGeo"]
        s2["wantPos"] = False
        twin = sh.get("mode", "twin") == "twin"
        if twin and behaviour is None:
            beh = None                                   # frozen scenario: the same table
        else:
            s2["table"] = []
            seed = getattr(behaviour, "seed", simgen.stable_hash("beh", scn.get("seed", 0))) if twin else \
                simgen.stable_hash("shadow", scn.get("seed", 0))
            beh = simgen.Behaviour(seed, s2["cfg"], scn.get("profile"))
        self.rec = _PlainRecorder(s2, beh)
        self.alive = True
        try:
            self.sim = build(s2, self.rec)
        except Exception:
            self.alive = False

    def step(self, k=1):
        for _ in range(k):
            if not self.alive:
                return
            try:
                if not self.sim.step_simulation():
                    self.alive = False
            except BaseException as e:                    # the shadow's own failures are not the scenario's
                if isinstance(e, (KeyboardInterrupt, SystemExit)):
                    raise
                self.alive = False


def run_impl(scn, behaviour=None, sim_options=None, draw_seed=0, keep_logging=False, global_random=False,
             extra_steps=0, after_build=None):
    """Run the real simulator on the scenario. Returns a result dict in the driver's output format
    plus: table (list of rows), draws (bits of every value random.random handed out), crash."""
    rec = Recorder(scn, behaviour)
    prescribed = [bitsf(b) for b in scn["cfg"].get("draws", [])] if scn.get("prescribedDraws") else None
    source = GlobalDrawSource(draw_seed) if global_random else DrawSource(draw_seed, prescribed)
    rets = []
    raised = []
    resolved = []
    crash = None
    with patched_random(source):
        try:
            sim = build(scn, rec, sim_options)
            if not keep_logging:
                quiet_logging(bool(scn.get("verboseLogging")))
            if after_build is not None:
                after_build()          # e.g. build (and run) another simulation before this one runs
            drive = scn["drive"]
            shadow = Shadow(scn, behaviour) if scn.get("shadow") else None
            if shadow is not None:
                if not keep_logging:
                    quiet_logging(bool(scn.get("verboseLogging")))
                shadow.step(scn["shadow"].get("lead", 0))
            if scn.get("pollDone"):
                sim.is_simulation_done()       # status query before the first step
            for row in scn.get("prestart", []):
                # requests through the provider after build() and before the first step
                proto = sim.get_node(row["n"]).protocol_encapsulator.protocol
                rec._cb_kind = "prestart"
                for req in row["reqs"]:
                    rec.issue(proto, row["n"], req)
            between = sorted(scn.get("between", []), key=lambda row: row["at"])

            def controller(i):
                # the external controller acts before the i-th step_simulation call - as long as the
                # simulation has not reported its end
                if rets and not rets[-1]:
                    return
                for row in between:
                    if row["at"] == i:
                        proto = sim.get_node(row["n"]).protocol_encapsulator.protocol
                        resolved.append({"at": i, "n": row["n"], "reqs": rec.external(proto, row["n"], row["reqs"])})

            if drive["mode"] == "start":
                for i in range(drive.get("pre", 0)):      # mixed driving: manual steps, then blocking
                    if shadow is not None:
                        shadow.step()
                    controller(i)
                    rets.append(bool(sim.step_simulation()))
                sim.start_simulation()
            else:
                if drive.get("untilDone"):
                    while True:
                        if shadow is not None:
                            shadow.step()
                        r = bool(sim.step_simulation())
                        rets.append(r)
                        if not r or len(rets) > 500000:
                            break
                    for _ in range(extra_steps):
                        rets.append(bool(sim.step_simulation()))
                else:
                    for i in range(drive["n"]):
                        if shadow is not None:
                            shadow.step()
                        controller(i)
                        if scn.get("tolerant"):
                            # a driver that survives a callback's exception and keeps stepping the same simulator
                            try:
                                rets.append(bool(sim.step_simulation()))
                            except Runaway:
                                raise
                            except Exception:
                                raised.append(len(rets))
                                rets.append(True)
                        else:
                            rets.append(bool(sim.step_simulation()))
        except Exception as e:  # an exception escaping the simulator aborts the run
            crash = f"{type(e).__name__}: {e}"
        finally:
            if not keep_logging:
                quiet_logging(bool(scn.get("verboseLogging")))
    if crash is not None and crash.startswith("Runaway"):
        # a run that had to be stopped by the cap is reported as such; keeping 150 000 observations (and a table
        # row per trigger) of every such run would exhaust the memory when a change makes many scenarios run away
        keep = 4000
        rec.trace = rec.trace[:keep]
        rec.table = dict(list(rec.table.items())[:keep])
        rec.time_types = rec.time_types[:keep]
        rec.positions = rec.positions[:keep]
        rec.own_pos = rec.own_pos[:keep]
        rets = rets[:keep]
    n = scn["cfg"]["nNodes"]
    final_pos = None
    if rec.sim is not None:
        try:
            final_pos = [v3bits(rec.sim.get_node(i).position) for i in range(n)]
        except Exception:
            final_pos = None
    used = len(source.values)
    extra = [source.rng.random() for _ in range(8)]
    return {
        "trace": rec.trace, "rets": rets, "positions": rec.positions, "finalPositions": final_pos,
        "drawsUsed": used, "draws": [fbits(v) for v in source.values + extra],
        "table": list(rec.table.values()), "crash": crash, "excTypes": rec.exc_types,
        "identities": rec.identities, "ownPos": rec.own_pos, "addedIds": getattr(rec, "added_ids", None),
        "between": resolved, "timeTypes": rec.time_types, "raisedAt": raised,
    }


def to_driver(scn, impl_result):
    """The scenario as the model driver wants it: with the table and draw stream of the impl run."""
    cfg = dict(scn["cfg"])
    cfg["draws"] = impl_result["draws"]
    d = {"kind": "sim", "cfg": cfg, "table": impl_result["table"], "drive": dict(scn["drive"])}
    if scn["drive"]["mode"] == "start":
        d["drive"]["n"] = scn["drive"].get("n", 200000)
    if scn.get("wantPos"):
        d["wantPos"] = True
    if scn.get("prestart"):
        d["prestart"] = scn["prestart"]
    if impl_result.get("raisedAt"):
        d["raisedAt"] = impl_result["raisedAt"]       # the step calls out of which a callback's exception escaped
    if impl_result.get("between"):
        d["between"] = impl_result["between"]     # with relative timers resolved as the implementation resolved them
    return d
