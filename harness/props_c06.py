"""C06 — runs are reproducible and independent of how they are driven or observed.

What the theorems contribute: the model's trace is a function of (scenario, program, draw stream)
(`C06_model_is_function`), and blocking start = any sufficient number of manual steps
(`C05_driving_independent`). What no model can express (logging, debug, profiling, real-time pacing,
the interpreter's hash seed, earlier simulations in the process) is sampled: the implementation's
protocol-visible trace under every such configuration must equal the baseline run AND the one model
trace; two implementation runs that both equal one model trace equal each other.
"""
import copy
import importlib.util
import json
import os
import random
import subprocess
import sys
import tempfile
from pathlib import Path

import simgen
import simimpl
from common import REPO, VERIF, fbits, stable_hash
from simcheck import SimCheck, parse

HERE = Path(__file__).resolve().parent


def cb_trace(trace):
    return [e for e in trace if e[0] == "cb"]


def frozen_of(case, impl):
    f = copy.deepcopy(case)
    f["frozen"] = True
    f["table"] = impl["table"]
    return f


def run_variant(case, name, seed):
    """one more implementation run of the frozen scenario under a variant configuration"""
    opts, kw = {}, {}
    c = copy.deepcopy(case)
    tmp = None
    if name == "logging":
        opts = {"execution_logging": True, "debug": True}
        c["verboseLogging"] = True      # the level stays DEBUG during the run: every log statement is evaluated
    elif name == "profile":
        opts = {"profile": True, "execution_logging": True}
    elif name == "logfile":
        tmp = tempfile.NamedTemporaryFile(prefix="c06_", suffix=".log", delete=False)
        tmp.close()
        opts = {"log_file": Path(tmp.name), "execution_logging": True}
    elif name == "realtime":
        opts = {"real_time": 1.0e9}
    elif name == "stepped":
        c["drive"] = {"mode": "steps", "n": 0, "untilDone": True}
        kw["extra_steps"] = 3
    elif name in ("beside-twin", "beside-other"):
        # another simulation alive in the same process and advanced in lock-step with this one: the same
        # scenario over a different geographic reference (same node ids, timer names, targets), or another one
        c["drive"] = {"mode": "steps", "n": 0, "untilDone": True}
        c["shadow"] = {"mode": name.split("-")[1], "lead": 1, "refGeo": [fbits(1.0), fbits(2.0), c["cfg"]["refGeo"][2]]}
    elif name == "status-polled":
        # observing the run through the public status query (before the first step, from hooks, while
        # requests are made) - the baseline is never polled
        c["pollDone"] = True
    elif name == "rerun":
        pass
    try:
        res = simimpl.run_impl(c, None, sim_options=opts, draw_seed=seed, global_random=True, **kw)
    finally:
        if tmp is not None:
            import logging
            for h in list(logging.getLogger().handlers):
                try:
                    h.close()
                except Exception:
                    pass
            try:
                os.unlink(tmp.name)
            except OSError:
                pass
    return res


def run_subprocess(case, seed, hashseed, forerunner=False):
    env = dict(os.environ)
    env["PYTHONHASHSEED"] = str(hashseed)
    env["VERIF_REPO"] = str(REPO)
    body = {"case": case, "seed": seed}
    if forerunner:
        f = copy.deepcopy(case)
        f["cfg"]["refGeo"] = [fbits(1.0), fbits(2.0), f["cfg"]["refGeo"][2]]
        body["forerunner"] = f
    payload = json.dumps(body)
    r = subprocess.run([sys.executable, str(HERE / "c06_sub.py")], input=payload, stdout=subprocess.PIPE,
                       stderr=subprocess.PIPE, text=True, env=env, cwd=str(VERIF))
    if r.returncode != 0:
        return {"trace": None, "crash": "subprocess failed: " + r.stderr[-500:]}
    return json.loads(r.stdout)


# ---- the repo's own ping-pong showcase as a fixed scenario (impl vs impl only) -------------------
def run_ping(seed, opts, stepped=False, duration=4):
    from gradysim.simulator.handler.communication import CommunicationHandler
    from gradysim.simulator.handler.mobility import MobilityHandler
    from gradysim.simulator.handler.timer import TimerHandler
    from gradysim.simulator.simulation import SimulationBuilder, SimulationConfiguration
    spec = importlib.util.spec_from_file_location("c06_ping", str(REPO / "showcases" / "ping-pong" / "ping.py"))
    mod = importlib.util.module_from_spec(spec)
    spec.loader.exec_module(mod)
    class CappedLog(list):
        def append(self, x):
            if len(self) > 60000:
                raise simimpl.Runaway("ping-pong showcase: more than 60000 callbacks")
            super().append(x)

    log = CappedLog()

    class RecPing(mod.PingProtocol):
        def initialize(self):
            log.append([self.provider.get_id(), "initialize", self.provider.current_time()])
            super().initialize()

        def handle_timer(self, timer):
            log.append([self.provider.get_id(), "timer", timer, self.provider.current_time()])
            super().handle_timer(timer)

        def handle_packet(self, message):
            log.append([self.provider.get_id(), "packet", message, self.provider.current_time()])
            super().handle_packet(message)

        def handle_telemetry(self, telemetry):
            log.append([self.provider.get_id(), "telemetry", list(telemetry.current_position), self.provider.current_time()])
            super().handle_telemetry(telemetry)

        def finish(self):
            log.append([self.provider.get_id(), "finish", self.provider.current_time()])
            super().finish()

    random.seed(seed)
    crash = None
    try:
        b = SimulationBuilder(SimulationConfiguration(duration=duration, **opts))
        b.add_handler(CommunicationHandler())
        b.add_handler(TimerHandler())
        b.add_handler(MobilityHandler())
        b.add_node(RecPing, (0, 0, 0))
        b.add_node(RecPing, (1, 1, 0))
        sim = b.build()
        simimpl.quiet_logging()
        if stepped:
            while sim.step_simulation():
                pass
            sim.step_simulation()
        else:
            sim.start_simulation()
    except Exception as e:
        crash = f"{type(e).__name__}: {e}"
    finally:
        simimpl.quiet_logging()
    return {"log": list(log), "crash": crash}


class C06(SimCheck):
    prop = "C06"
    level_text = ("Proof for the driving clause (blocking start = any sufficient number of manual steps; the model's trace is "
                  "a function of scenario, program and draw stream). The observation-independence clauses (logging, debug, "
                  "profiling, real-time pacing, hash seed, earlier simulations in the process) concern runtime behaviour no "
                  "model exhibits: they are decided by paired executions of the implementation, each compared with the "
                  "baseline run and with the single model trace.")
    rule = ("generated scenarios with loss (the global generator is seeded, not replaced) run under: logging+debug, profiling, "
            "log file, real-time pacing, stepped driving with extra steps, a plain re-run, after/between other simulations in "
            "the same process, and in fresh interpreters with 2 (thorough: 6) PYTHONHASHSEED values; plus the repo's ping-pong "
            "showcase (RandomMobilityPlugin) under the same variations; non-trivial = the scenario consumed random draws")
    assumptions = ["random.seed(k) is called before each run (the property's premise)",
                   "the protocol does not itself read wall-clock time or process-global state"]
    quick_n = 40
    thorough_n = 240
    force_cfg = {"hasComm": True, "hasTimer": True}
    drive = {"mode": "start"}
    variants = ["rerun", "logging", "profile", "logfile", "realtime", "stepped", "beside-twin", "beside-other",
                "status-polled"]
    profile = {"w": {"setTimer": 5, "cancelTimer": 2, "send": 3, "broadcast": 2, "goto": 1, "setSpeed": 0.5,
                     "setRange": 0.5, "gotoGeo": 1}}

    def tweak(self, r, scn):
        cfg = scn["cfg"]
        scn.pop("shadow", None)          # the baseline runs alone; the beside-* variants add the other simulation
        scn.pop("between", None)
        scn.pop("pollDone", None)        # the baseline is not observed; the status-polled variant is
        if r.random() < 0.2:
            # a protocol that lets its k-th refused request (unknown destination, timer in the past) escape
            scn["escapeAt"] = r.choice([1, 1, 2, 3])
            scn["profile"]["pBadDst"] = 0.35
        cfg["failRate"] = fbits(r.choice([0.25, 0.5, 0.5, 0.75, 0.0]))
        if r.random() < 0.4:
            # everything at once: nodes on the move while lossy, delayed messages are in flight - what a diagnostic
            # does on delivery (under debug logging, profiling, pacing ...) must not touch the random stream (seeded C06_L)
            simgen.set_handler(cfg, "mobility", True)
            cfg["delay"] = r.choice([512, 1024, 1536])
            cfg["failRate"] = fbits(r.choice([0.25, 0.5]))
            scn["profile"]["w"] = dict(scn["profile"]["w"], goto=4, setSpeed=1, send=4, broadcast=3)
        if cfg["hasMob"] and cfg["duration"] is None and cfg["maxIter"] is None:
            cfg["duration"] = 4096
        if cfg["nNodes"] < 2:
            cfg["nNodes"] = 3
            cfg["initPos"] = cfg["initPos"] * 3
        return scn

    def generate(self, seed, tier):
        self.tier = tier
        yield from super().generate(seed, tier)
        yield {"kind": "ping", "seed": stable_hash("ping", seed) % 100000, "label": "showcase/ping-pong",
               "cfg": {"nNodes": 2}, "drive": {"mode": "start"}}

    def run_impl(self, case):
        seed = case.get("seed", 0)
        if case.get("kind") == "ping":
            base = run_ping(seed, {"execution_logging": False})
            var = {
                "rerun": run_ping(seed, {"execution_logging": False}),
                "logging": run_ping(seed, {"execution_logging": True, "debug": True}),
                "profile": run_ping(seed, {"profile": True}),
                "realtime": run_ping(seed, {"real_time": 1.0e9}),
                "stepped": run_ping(seed, {"execution_logging": False}, stepped=True),
            }
            return {"trace": [], "table": [], "baseline": base, "variants": var, "draws": [], "drawsUsed": 1,
                    "rets": [], "positions": [], "crash": base["crash"], "excTypes": []}
        base = simimpl.run_impl(case, self.behaviour(case), draw_seed=seed, global_random=True)
        frozen = frozen_of(case, base)
        variants = {}
        for name in self.variants:
            variants[name] = cb_trace(run_variant(frozen, name, seed)["trace"])
        # earlier / interleaved simulations in the same process
        other, obeh = simgen.gen_scenario(stable_hash("other", seed))
        other["drive"] = {"mode": "steps", "n": 40}
        simimpl.run_impl(other, obeh, draw_seed=seed + 1, global_random=True)
        variants["after-other-simulation"] = cb_trace(run_variant(frozen, "rerun", seed)["trace"])
        # another simulation (different medium: range, delay, loss) BUILT and partly run between this
        # simulation's build and its run - parameter sweeps build all their simulators first

        def build_other():
            st = random.getstate()
            o2, b2 = simgen.gen_scenario(stable_hash("other2", seed))
            o2["cfg"]["defaultRange"] = fbits(3.0)
            o2["cfg"]["nNodes"] = max(o2["cfg"]["nNodes"], case["cfg"]["nNodes"])
            o2["cfg"]["initPos"] = (o2["cfg"]["initPos"] * 6)[:o2["cfg"]["nNodes"]]
            o2["drive"] = {"mode": "steps", "n": 25}
            simimpl.run_impl(o2, b2, draw_seed=seed + 2)
            random.setstate(st)

        res_i = simimpl.run_impl(copy.deepcopy(frozen), None, draw_seed=seed, global_random=True,
                                 after_build=build_other)
        variants["built-before-another"] = cb_trace(res_i["trace"])
        tier = getattr(self, "tier", "quick")
        hs = [1, 4242] if tier == "quick" else [0, 1, 2, 4242, 99991, 123456789]
        if tier == "quick" and stable_hash("sub", seed) % 4 != 0:
            hs = []          # fresh interpreters are slow to start: a quarter of the quick scenarios
        for h in hs:
            sub = run_subprocess(frozen, seed, h)
            variants[f"hashseed-{h}"] = cb_trace(sub["trace"]) if sub.get("trace") is not None else sub.get("crash")
        # a fresh interpreter in which the same scenario over ANOTHER geographic reference ran first
        # (the baseline above is the first user of every process-wide structure in this process)
        if tier != "quick" or hs or sum(1 for row in base["table"] if "gotoGeo" in json.dumps(row["reqs"])) >= 2:
            sub = run_subprocess(frozen, seed, 7, forerunner=True)
            variants["after-forerunner"] = cb_trace(sub["trace"]) if sub.get("trace") is not None else sub.get("crash")
        base["variants"] = variants
        return base

    def model_input(self, case, impl):
        if case.get("kind") == "ping":
            return None
        return simimpl.to_driver(case, impl)

    def obs(self, case, res):
        return cb_trace(res["trace"])

    def compare(self, case, impl, model):
        # C06 relates implementation runs with each other; the model/code tie for the stepping
        # theorems is decided by C05's correspondence. A model divergence here (e.g. caused by a defect
        # belonging to another property) is recorded in the evidence, not turned into a C06 alarm.
        d = super().compare(case, impl, model)
        self.model_divergences = getattr(self, "model_divergences", 0) + (1 if d else 0)
        return []

    def oracle(self, case, impl):
        fails = self.crash_fail(impl) if not case.get("escapeAt") else []
        if case.get("kind") == "ping":
            base = impl["baseline"]["log"]
            for name, v in impl["variants"].items():
                if v["crash"]:
                    fails.append((f"C06:crash:{name}", v["crash"]))
                elif v["log"] != base:
                    i = next((k for k, (a, b) in enumerate(zip(v["log"], base)) if a != b), min(len(v["log"]), len(base)))
                    fails.append((f"C06:differs:{name}", f"ping-pong showcase: callback #{i} differs under '{name}': "
                                  f"{v['log'][i:i + 1]} vs baseline {base[i:i + 1]} (lengths {len(v['log'])}/{len(base)})"))
            return fails
        base = cb_trace(impl["trace"])
        for name, v in impl["variants"].items():
            if not isinstance(v, list):
                fails.append((f"C06:crash:{name.split('-')[0]}", str(v)))
            elif v != base:
                i = next((k for k, (a, b) in enumerate(zip(v, base)) if a != b), min(len(v), len(base)))
                fails.append((f"C06:differs:{name.split('-')[0]}", f"callback #{i} differs under '{name}': {v[i:i + 1]} vs "
                              f"baseline {base[i:i + 1]} (lengths {len(v)}/{len(base)})"))
        return fails

    def nontrivial(self, case, impl):
        if case.get("kind") == "ping":
            return len(impl["baseline"]["log"]) > 100
        return impl["drawsUsed"] > 0

    def key(self, case, impl):
        if case.get("kind") == "ping":
            return "ping" + str(case["seed"])
        return super().key(case, impl)

    def sample(self, case, impl):
        if case.get("kind") == "ping":
            return {"label": case["label"], "callbacks": len(impl["baseline"]["log"]),
                    "variants": sorted(impl["variants"].keys())}
        s = super().sample(case, impl)
        s["variants"] = sorted(impl.get("variants", {}).keys())
        return s

    def stats(self, case, impl, acc):
        if case.get("kind") == "ping":
            acc["showcase_runs"] = acc.get("showcase_runs", 0) + 1 + len(impl["variants"])
            return
        super().stats(case, impl, acc)
        acc["paired_runs"] = acc.get("paired_runs", 0) + len(impl.get("variants", {}))
        acc["draws_consumed"] = acc.get("draws_consumed", 0) + impl["drawsUsed"]
        acc["model_divergences_informative"] = getattr(self, "model_divergences", 0)

    def shrink(self, case, still_fails):
        return case


CHECKS = {"C06": C06}
