"""Checks for the numeric properties C19 (camera cone) and C20 (geographic conversion).

Both drive the REAL code (`CameraHardware` constructed on a protocol inside a real simulation with a
real `MobilityHandler`; `geo_to_cartesian` and `GotoGeoCoordsMobilityCommand` in a real simulation),
compare the observation bit for bit with the Lean model run at `Float` (driver kinds "camera", "geo"),
and evaluate the property directly with an independent computation (atan2-based angles; 3-D chord
great-circle distances; the closed form of the legs)."""
import math
import random
import sys
from collections import Counter

import simimpl
from common import bitsf, bitsv3, fbits, stable_hash, v3bits
from framework import Check

from gradysim.protocol.interface import IProtocol
from gradysim.protocol.messages.mobility import (GotoCoordsMobilityCommand, GotoGeoCoordsMobilityCommand,
                                                 MobilityCommand, MobilityCommandType)
from gradysim.protocol.position import geo_to_cartesian
from gradysim.simulator.extension.camera import CameraConfiguration, CameraHardware
from gradysim.simulator.handler.mobility import MobilityConfiguration, MobilityHandler
from gradysim.simulator.simulation import SimulationBuilder, SimulationConfiguration

CAMERA_TOL = 1e-6        # the literal tolerance of camera.py:take_picture
EARTH_R = 6371000.0      # the literal radius of position.py:_haversine_distance


class _Silent(IProtocol):
    def initialize(self):
        pass

    def handle_timer(self, timer):
        pass

    def handle_packet(self, message):
        pass

    def handle_telemetry(self, telemetry):
        pass

    def finish(self):
        pass


def _exc(e):
    return f"{type(e).__name__}: {e}"


# ================================================================================================
# C19
# ================================================================================================
def axis_of(elev, rot):
    """the camera axis, in the source's operation order"""
    i, r = math.radians(elev), math.radians(rot)
    return (math.sin(i) * math.cos(r), math.sin(i) * math.sin(r), math.cos(i))


def source_cosine(ax, s, o):
    """the unclamped dot product exactly as camera.py computes it (used only to COUNT the hot cases)"""
    rel = (o[0] - s[0], o[1] - s[1], o[2] - s[2])
    d = math.sqrt(rel[0] ** 2 + rel[1] ** 2 + rel[2] ** 2)
    if not d > 0:
        return None
    n = (rel[0] / d, rel[1] / d, rel[2] / d)
    return ax[0] * n[0] + ax[1] * n[1] + ax[2] * n[2]


def take_picture_impl(cfg, positions, self_index):
    """real SimulationBuilder + MobilityHandler + CameraHardware; returns (picture, crash)"""
    builder = SimulationBuilder(SimulationConfiguration(execution_logging=False))
    ids = [builder.add_node(_Silent, p) for p in positions]
    builder.add_handler(MobilityHandler())
    sim = builder.build()
    simimpl.quiet_logging()
    sim.step_simulation()
    node = sim.get_node(ids[self_index])
    conf = CameraConfiguration(camera_reach=cfg["reach"], camera_theta=cfg["theta"],
                               facing_elevation=cfg["elevation"], facing_rotation=cfg["rotation"])
    cam = CameraHardware(node.protocol_encapsulator.protocol, conf)
    try:
        pic = cam.take_picture()
    except Exception as e:            # the property says: never
        return None, _exc(e)
    out = []
    for entry in pic:
        p = entry["position"]
        out.append(v3bits(p))
    return out, None


def dynamic_pictures_impl(cfg, positions, self_index, dyn):
    """a real simulation in which node `mover` flies to a target while the camera node takes a picture in
    every timer callback (armed for the update instants, so it runs BEFORE that instant's mobility
    update) and in every telemetry callback (AFTER it): several pictures per instant with the scene
    changing in between. Returns the shots: where, time, true positions of all nodes, picture."""
    from gradysim.simulator.handler.timer import TimerHandler
    shots = []
    album = []       # the pictures as returned (the very objects, not copies), kept to the end of the run
    holder = {}
    conf = CameraConfiguration(camera_reach=cfg["reach"], camera_theta=cfg["theta"],
                               facing_elevation=cfg["elevation"], facing_rotation=cfg["rotation"])
    n = len(positions)
    dt, k = dyn["dt"], dyn["ticks"]

    def shoot(proto, where):
        sim = holder["sim"]
        try:
            held = proto.cam.take_picture()
            pic = [v3bits(e["position"]) for e in held]
            crash = None
        except Exception as e:
            held, pic, crash = None, None, _exc(e)
        album.append(held)
        shots.append({"where": where, "t": proto.provider.current_time(),
                      "positions": [v3bits(sim.get_node(i).position) for i in range(n)],
                      "picture": pic, "crash": crash})

    class Shooter(_Silent):
        def initialize(self):
            self.cam = CameraHardware(self, conf)
            for j in range(1, k + 1):
                self.provider.schedule_timer("shot", j * dt)

        def handle_timer(self, timer):
            shoot(self, "timer")

        def handle_telemetry(self, telemetry):
            shoot(self, "telemetry")

    class Mover(_Silent):
        def initialize(self):
            self.provider.send_mobility_command(GotoCoordsMobilityCommand(*dyn["target"]))

    builder = SimulationBuilder(SimulationConfiguration(duration=k * dt, execution_logging=False))
    for i, p in enumerate(positions):
        builder.add_node(Shooter if i == self_index else (Mover if i == dyn["mover"] else _Silent), p)
    builder.add_handler(TimerHandler())
    builder.add_handler(MobilityHandler(MobilityConfiguration(update_rate=dt, default_speed=dyn["speed"])))
    sim = builder.build()
    holder["sim"] = sim
    simimpl.quiet_logging()
    sim.start_simulation()
    _reread(shots, album)
    return shots


def _reread(shots, album):
    """a picture that was returned is a statement about the moment it was taken: the caller may keep it (an
    album, the previous frame).  Every kept picture is read again after all the later pictures were taken."""
    for shot, held in zip(shots, album):
        if held is not None:
            try:
                shot["later"] = [v3bits(e["position"]) for e in held]
            except Exception as e:
                shot["later"] = "unreadable: " + _exc(e)


def fleet_pictures_impl(positions, fleet):
    """several cameras in ONE real simulation: `fleet["confs"]` are CameraConfiguration objects, each
    camera is constructed (on the protocol of its node) from one of them - several cameras may hold the
    same object, as with a module-level constant for the fleet's camera model, and one node may carry two
    cameras.  All cameras are constructed first; then the operations run in order: ("face", cam, elevation,
    rotation) = change_facing on that camera, ("shot", cam) = take_picture.  Returns one entry per shot."""
    builder = SimulationBuilder(SimulationConfiguration(execution_logging=False))
    ids = [builder.add_node(_Silent, p) for p in positions]
    builder.add_handler(MobilityHandler())
    sim = builder.build()
    simimpl.quiet_logging()
    sim.step_simulation()
    confs = [CameraConfiguration(camera_reach=c["reach"], camera_theta=c["theta"],
                                 facing_elevation=c["elevation"], facing_rotation=c["rotation"])
             for c in fleet["confs"]]
    cams = [CameraHardware(sim.get_node(ids[c["node"]]).protocol_encapsulator.protocol, confs[c["conf"]])
            for c in fleet["cams"]]
    shots, album = [], []
    for k, op in enumerate(fleet["ops"]):
        if op[0] == "face":
            try:
                cams[op[1]].change_facing(op[2], op[3])
            except Exception as e:
                shots.append({"op": k, "cam": op[1], "picture": None, "crash": "change_facing: " + _exc(e)})
                album.append(None)
        else:
            try:
                held = cams[op[1]].take_picture()
                pic, crash = [v3bits(e["position"]) for e in held], None
            except Exception as e:
                held, pic, crash = None, None, _exc(e)
            shots.append({"op": k, "cam": op[1], "picture": pic, "crash": crash})
            album.append(held)
    _reread(shots, album)
    return shots


def fleet_axes(fleet):
    """the property's reading of the operations: every camera has ITS OWN axis - the orientation of the
    configuration it was constructed with until its own change_facing, afterwards the orientation it was
    last given; reach and cone angle are those it was constructed with.  Yields (op index, cam, cfg)."""
    cur = [dict(fleet["confs"][c["conf"]]) for c in fleet["cams"]]
    for k, op in enumerate(fleet["ops"]):
        if op[0] == "face":
            cur[op[1]]["elevation"], cur[op[1]]["rotation"] = op[2], op[3]
        else:
            yield k, op[1], dict(cur[op[1]])


def aim_at(s, o):
    """(elevation, rotation) in degrees of the direction from s to o"""
    rel = (o[0] - s[0], o[1] - s[1], o[2] - s[2])
    d = math.sqrt(rel[0] ** 2 + rel[1] ** 2 + rel[2] ** 2)
    if not d > 0:
        return 0.0, 0.0
    return math.degrees(math.acos(max(-1.0, min(1.0, rel[2] / d)))), math.degrees(math.atan2(rel[1], rel[0]))


def angle_oracle(ax, rel):
    """angle between axis and rel by atan2(|a x r|, a . r): well conditioned everywhere"""
    cx = ax[1] * rel[2] - ax[2] * rel[1]
    cy = ax[2] * rel[0] - ax[0] * rel[2]
    cz = ax[0] * rel[1] - ax[1] * rel[0]
    return math.atan2(math.sqrt(math.fsum([cx * cx, cy * cy, cz * cz])),
                      math.fsum([ax[0] * rel[0], ax[1] * rel[1], ax[2] * rel[2]]))


def classify(cfg, s, o, wide=False):
    """independent reading of the cone predicate: 'in', 'out' or None (too close to a boundary to be
    judged in floating point).  Integer-lattice placements are judged exactly at the reach."""
    reach, theta = cfg["reach"], math.radians(cfg["theta"])
    rel = (o[0] - s[0], o[1] - s[1], o[2] - s[2])
    ints = all(float(v).is_integer() and abs(v) < 2 ** 20 for v in (*s, *o, reach))
    rmargin = 1e-6 if wide else 1e-9
    if ints:
        d2 = int(rel[0]) ** 2 + int(rel[1]) ** 2 + int(rel[2]) ** 2
        if reach < 0 or d2 > int(reach) ** 2:
            return "out", "reach"
        if d2 == 0:
            return "in", "apex"
        d = math.sqrt(d2)
    else:
        d = math.sqrt(math.fsum([rel[0] * rel[0], rel[1] * rel[1], rel[2] * rel[2]]))
        if d > reach * (1 + rmargin) + 1e-300 and d > reach:
            return "out", "reach"
        if d == 0.0 and rel == (0.0, 0.0, 0.0):
            return ("in", "apex") if reach >= 0 else ("out", "reach")
        if not d < reach * (1 - rmargin):
            return None, "reach-boundary"
    ax = axis_of(cfg["elevation"], cfg["rotation"])
    ang = angle_oracle(ax, rel)
    # conditioning of the implementation's acos near 0 and pi: error ~ eps / sin(angle)
    margin = (1e-6 if wide else 1e-9) + 1e-15 / max(math.sin(ang), 3e-8)
    lim = theta + CAMERA_TOL
    if ang < lim - margin:
        return "in", "cone"
    if ang > lim + margin:
        return "out", "angle"
    return None, "angle-boundary"


def dy(r, lo, hi, q=64):
    """a dyadic value k/q in [lo, hi]"""
    return r.randint(int(lo * q), int(hi * q)) / q


class C19(Check):
    prop = "C19"
    level_text = ("Theorems: for every scalar type satisfying four order facts (and concretely over the reals) and for "
                  "EVERY value of the computed cosine the clamped argument is in [-1,1], so no judgement errs and "
                  "take_picture returns; over the reals the verdict is exactly the cone predicate, the picture exactly the "
                  "other nodes in the cone with their positions, and translation changes nothing; for several cameras whose "
                  "configuration objects are held by reference (any scalar type) change_facing changes the axis of the camera "
                  "it is called on and of no other, the constructor gives a camera the configuration it was passed, so each "
                  "picture is exactly the other nodes in the cone of the camera that took it.  The model is tied to the code "
                  "by bit-level comparison of pictures at Float (single cameras and fleets).")
    rule = ("real CameraHardware on a protocol of a real simulation with a real MobilityHandler; orientations over the full "
            "sphere; 2-14 nodes per scene: at k*axis and -k*axis (computed in floats, camera at the origin and elsewhere), "
            "at the camera's own position, on the integer-lattice reach boundary, random in 1.5*reach; dyadic scenes "
            "re-run translated; a share of the scenes as a moving scene (pictures before and after the mobility update of one "
            "instant) and a share with a fleet of 2-4 cameras in one simulation, built from 1-3 CameraConfiguration objects "
            "(mostly one object shared by all cameras), re-aimed one at a time with change_facing (at another node or "
            "anywhere) with pictures by the other cameras in between, every picture judged against the cone of the camera "
            "that took it (the orientation it was constructed with or last given); in moving scenes and fleets every "
            "returned picture is kept (the object itself) and read again after all later pictures, facing changes and "
            "scene changes: it must still be what was returned; 6% of the scenes with a legal but unusual reach (1e154..1e300, "
            "float max, inf, negative, -0.0, 5e-324); non-trivial = a scene containing an "
            "on-axis node whose unclamped cosine, computed as the source does, exceeds 1 in magnitude")
    assumptions = ["a MobilityHandler is configured (without one take_picture returns [] by documented design)",
                   "the tolerance 1e-6 is a literal in camera.py; the model receives the same value",
                   "theta, elevation, rotation and all coordinates are finite floats; the reach is any float that is not NaN "
                   "(6% of the scenes: huge finite, infinite, negative, -0.0, denormal)",
                   "the oracle judges a node only if its angle differs from theta+tol by > 1e-9 (+ acos conditioning) and its "
                   "distance from reach by > 1e-9 relative; integer-lattice scenes are judged exactly at the reach",
                   "in a fleet all cameras are constructed before the first change_facing, so the orientation a camera is "
                   "constructed with is unambiguous; its axis is then its own: the constructed one until ITS change_facing"]
    modelled = ["gradysim/simulator/extension/camera.py (_camera_direction_unit_vector, take_picture, change_facing)"]

    # -------------------------------------------------------------------------------- generation
    def generate(self, seed, tier):
        n = 2400 if tier == "quick" else 40000
        for i in range(n):
            r = random.Random(stable_hash("C19", seed, i))
            yield self.gen_case(r, f"gen/{seed}/{i}", i)

    def gen_case(self, r, label, i):
        kind = ["axis", "axis", "axis", "lattice", "random", "dyadic"][i % 6]
        return getattr(self, "gen_" + kind)(r, label)

    def _orientation(self, r):
        m = r.random()
        if m < 0.15:
            return float(r.choice([0, 45, 90, 135, 180])), float(r.choice([0, 45, 90, 180, 270, 360]))
        if m < 0.3:
            return round(r.uniform(0, 180), 3), round(r.uniform(0, 360), 3)
        return r.uniform(0, 180), r.uniform(-360, 360)

    def gen_axis(self, r, label):
        elev, rot = self._orientation(r)
        ax = axis_of(elev, rot)
        reach = r.choice([r.uniform(1, 100), float(r.randint(1, 50))])
        theta = r.choice([0.0, r.uniform(0, 5), r.uniform(0, 180), 90.0])
        s = (0.0, 0.0, 0.0) if r.random() < 0.6 else (r.uniform(-50, 50), r.uniform(-50, 50), r.uniform(-50, 50))
        pos = [s]
        for _ in range(r.randint(3, 10)):
            k = r.choice([r.uniform(0.05, 1.4) * reach, round(r.uniform(0.1, 20), 2), float(r.randint(1, 40))])
            if r.random() < 0.35:
                k = -k
            pos.append((s[0] + k * ax[0], s[1] + k * ax[1], s[2] + k * ax[2]))
        if r.random() < 0.3:
            pos.append(s)
        for _ in range(r.randint(0, 3)):
            pos.append(tuple(s[j] + r.uniform(-1.5, 1.5) * reach for j in range(3)))
        return self._finish(r, label, "axis", reach, theta, elev, rot, pos, 0)

    def gen_lattice(self, r, label):
        elev = float(r.choice([0, 90, 180]))
        rot = float(r.choice([0, 90, 180, 270]))
        k = r.randint(1, 6)
        reach = float(r.choice([5, 13, 25, 3, 7]) * k)
        theta = float(r.choice([0, 30, 45, 60, 90, 120, 180]))
        s = tuple(float(r.randint(-20, 20)) for _ in range(3))
        trip = {5: (3, 4, 0), 13: (5, 12, 0), 25: (7, 24, 0), 3: (1, 2, 2), 7: (2, 3, 6)}[int(reach) // k]
        pos = [s]
        for _ in range(r.randint(3, 9)):
            t = list(trip)
            r.shuffle(t)
            v = [c * k * r.choice([-1, 1]) for c in t]
            m = r.random()
            if m < 0.3:
                j = r.randrange(3)
                v[j] += r.choice([-1, 1])       # just inside / outside the boundary
            elif m < 0.45:
                v = [0, 0, 0]
                v[r.randrange(3)] = r.choice([-1, 1]) * int(reach)       # on an axis, exactly at reach
            elif m < 0.55:
                v = [r.randint(-int(reach), int(reach)) for _ in range(3)]
            pos.append((s[0] + v[0], s[1] + v[1], s[2] + v[2]))
        if r.random() < 0.4:
            pos.append(s)
        return self._finish(r, label, "lattice", reach, theta, elev, rot, pos, 0, shift_exact=True)

    def gen_random(self, r, label):
        elev, rot = self._orientation(r)
        reach = r.choice([r.uniform(0.5, 200), 0.0, r.uniform(1e-3, 1)])
        theta = r.choice([r.uniform(0, 180), r.uniform(0, 30), 180.0, 360.0, 0.0])
        s = tuple(r.uniform(-100, 100) for _ in range(3))
        pos = [s]
        for _ in range(r.randint(1, 13)):
            pos.append(tuple(s[j] + r.uniform(-1.5, 1.5) * max(reach, 1.0) for j in range(3)))
        if r.random() < 0.25:
            pos.append(s)
        return self._finish(r, label, "random", reach, theta, elev, rot, pos, 0, shift_clear=True)

    def gen_dyadic(self, r, label):
        elev, rot = self._orientation(r)
        reach = dy(r, 1, 64)
        theta = r.choice([dy(r, 0, 180), 90.0, 45.0])
        s = tuple(dy(r, -64, 64) for _ in range(3))
        pos = [s]
        for _ in range(r.randint(2, 10)):
            pos.append(tuple(s[j] + dy(r, -1.5 * reach, 1.5 * reach) for j in range(3)))
        if r.random() < 0.3:
            pos.append(s)
        return self._finish(r, label, "dyadic", reach, theta, elev, rot, pos, 0, shift_exact=True)

    def _dynamic(self, r, case):
        """a share of the cases also run as a moving scene (see dynamic_pictures_impl)"""
        n = len(case["positions"])
        if n < 2 or r.random() > 0.12:
            return case
        others = [i for i in range(n) if i != case["selfIndex"]]
        tgt = (float(r.randint(-12, 12)), float(r.randint(-12, 12)), float(r.randint(0, 12)))
        case["dynamic"] = {"mover": r.choice(others), "target": v3bits(tgt), "speed": fbits(float(r.choice([2, 4, 8]))),
                           "dt": fbits(r.choice([0.5, 1.0])), "ticks": r.choice([3, 5, 8])}
        return case

    def _fleet(self, r, case):
        """a share of the scenes also run with a fleet of cameras (see fleet_pictures_impl): 2-4 cameras on
        the scene's nodes, built from 1-3 configuration objects (mostly ONE object shared by all, the way a
        protocol class holds its camera model in a constant), re-aimed one at a time with change_facing -
        at another node or anywhere - with pictures by the others in between"""
        n = len(case["positions"])
        if n < 3 or r.random() > 0.25:
            return case
        base = self.cfg_of(case)
        positions = [bitsv3(p) for p in case["positions"]]
        ncam = r.randint(2, 4)
        nodes = [case["selfIndex"]] + [r.randrange(n) for _ in range(ncam - 1)]
        nconf = 1 if r.random() < 0.6 else r.randint(2, 3)
        confs = [dict(base)]
        for _ in range(nconf - 1):
            c = dict(base)
            if r.random() < 0.6:
                c["elevation"], c["rotation"] = self._orientation(r)
            if r.random() < 0.3:
                c["theta"] = r.choice([0.0, 30.0, 90.0, r.uniform(0, 180)])
            if r.random() < 0.3:
                c["reach"] = base["reach"] * r.choice([0.5, 2.0])
            confs.append(c)
        cams = [{"node": nd, "conf": 0 if nconf == 1 else r.randrange(nconf)} for nd in nodes]
        ops = []
        if r.random() < 0.4:
            ops += [["shot", c] for c in range(ncam)]
        for _ in range(r.randint(1, 4)):
            a = r.randrange(ncam)
            if r.random() < 0.6:
                o = positions[r.randrange(n)]
                elev, rot = aim_at(positions[nodes[a]], o)
            else:
                elev, rot = self._orientation(r)
            ops.append(["face", a, fbits(elev), fbits(rot)])
            shooters = list(range(ncam))
            r.shuffle(shooters)
            ops += [["shot", c] for c in shooters[:r.randint(2, ncam)]]
        case["fleet"] = {"confs": [{k: fbits(v) for k, v in c.items()} for c in confs], "cams": cams, "ops": ops}
        return case

    def _finish(self, r, label, cls, reach, theta, elev, rot, pos, self_index, shift_exact=False, shift_clear=False):
        # registration order: the camera's node is not always the first one
        order = list(range(len(pos)))
        if r.random() < 0.5:
            r.shuffle(order)
        positions = [pos[j] for j in order]
        if r.random() < 0.06:
            # legal but unusual reach values: "unlimited" spelt as a huge finite float or as infinity, a camera
            # switched off by a negative reach (nothing is at a distance <= a negative number)
            reach = r.choice([1e200, sys.float_info.max, math.inf, 1e154, 1.5e154, 1e300, -reach, -1.0, -0.0,
                              -max(reach, 1.0) * 4, 5e-324])
            cls = cls + "-odd-reach"
        case = {"kind": "camera", "label": label, "cls": cls,
                "cfg": {"reach": fbits(reach), "theta": fbits(theta), "elevation": fbits(elev), "rotation": fbits(rot)},
                "selfIndex": order.index(self_index), "positions": [v3bits(p) for p in positions], "shift": None}
        if shift_exact and r.random() < 0.7:
            case["shift"] = {"exact": True, "v": v3bits(tuple(dy(r, -4096, 4096) for _ in range(3)))}
        elif shift_clear and r.random() < 0.5:
            case["shift"] = {"exact": False, "v": v3bits(tuple(r.uniform(-1000, 1000) for _ in range(3)))}
        return self._fleet(r, self._dynamic(r, case))

    # -------------------------------------------------------------------------------- execution
    @staticmethod
    def cfg_of(case):
        return {k: bitsf(v) for k, v in case["cfg"].items()}

    @staticmethod
    def fleet_of(case):
        f = case.get("fleet")
        if not f:
            return None
        return {"confs": [{k: bitsf(v) for k, v in c.items()} for c in f["confs"]], "cams": f["cams"],
                "ops": [[op[0], op[1]] + [bitsf(v) for v in op[2:]] for op in f["ops"]]}

    def run_impl(self, case):
        cfg = self.cfg_of(case)
        positions = [bitsv3(p) for p in case["positions"]]
        pic, crash = take_picture_impl(cfg, positions, case["selfIndex"])
        out = {"picture": pic, "crash": crash, "shifted": None}
        if case.get("shift"):
            t = bitsv3(case["shift"]["v"])
            moved = [(p[0] + t[0], p[1] + t[1], p[2] + t[2]) for p in positions]
            pic2, crash2 = take_picture_impl(cfg, moved, case["selfIndex"])
            out["shifted"] = {"picture": pic2, "crash": crash2, "positions": [v3bits(p) for p in moved]}
        d = case.get("dynamic")
        if d and len(positions) >= 2:
            try:
                out["dynamic"] = dynamic_pictures_impl(cfg, positions, case["selfIndex"],
                                                       {"mover": d["mover"], "target": bitsv3(d["target"]),
                                                        "speed": bitsf(d["speed"]), "dt": bitsf(d["dt"]), "ticks": d["ticks"]})
            except Exception as e:
                out["dynamic"] = [{"where": "run", "t": 0, "positions": case["positions"], "picture": None, "crash": _exc(e)}]
        fleet = self.fleet_of(case)
        if fleet:
            try:
                out["fleet"] = fleet_pictures_impl(positions, fleet)
            except Exception as e:
                out["fleet"] = [{"op": -1, "cam": 0, "picture": None, "crash": "building the fleet: " + _exc(e)}]
        return out

    def model_input(self, case, impl):
        cfg = dict(case["cfg"])
        cfg["tol"] = fbits(CAMERA_TOL)
        line = {"kind": "camera", "cfg": cfg, "selfId": case["selfIndex"],
                "self": case["positions"][case["selfIndex"]],
                "nodes": [[i, p] for i, p in enumerate(case["positions"])]}
        if case.get("fleet"):
            line["fleet"] = case["fleet"]        # Camera.Fleet: constructors, change_facing, pictures
        return line

    def compare(self, case, impl, model):
        mp = model["picture"]
        if impl["crash"] is not None:
            what = "none (acos error)" if mp is None else f"{len(mp)} entries"
            return [f"implementation raised {impl['crash']}; model picture: {what}"]
        if mp is None:
            return [f"model: acos error; implementation returned {len(impl['picture'])} entries"]
        got = [list(p) for p in impl["picture"]]
        want = [list(p[1]) for p in mp]
        if got != want:
            return [f"picture differs: implementation {[bitsv3(p) for p in got][:6]} ({len(got)} entries), model "
                    f"{[(p[0], bitsv3(p[1])) for p in mp][:6]} ({len(want)} entries); verdicts {model['verdicts'][:8]}"]
        diffs = []
        if case.get("fleet") and impl.get("fleet") is not None:
            mf = model.get("fleet") or []
            shots = [sh for sh in impl["fleet"] if not str(sh["crash"] or "").startswith(("change_facing", "building"))]
            if len(shots) != len(mf):
                diffs.append(f"fleet: implementation took {len(shots)} pictures, model {len(mf)}")
            for sh, m in zip(shots, mf):
                got = None if sh["picture"] is None else [list(p) for p in sh["picture"]]
                want = None if m is None else [list(p[1]) for p in m]
                if got != want:
                    diffs.append(f"fleet operation {sh['op']} (picture by camera {sh['cam']}): implementation "
                                 f"{None if got is None else [bitsv3(p) for p in got][:6]}"
                                 f"{' raised ' + sh['crash'] if sh['crash'] else ''}, model "
                                 f"{None if m is None else [(p[0], bitsv3(p[1])) for p in m][:6]}")
        return diffs[:5]

    # -------------------------------------------------------------------------------- predicate
    def _judge_scene(self, cfg, positions, self_index, pic, fails, tag="", wide=False):
        s = positions[self_index]
        others = [p for i, p in enumerate(positions) if i != self_index]
        lo, hi = Counter(), Counter()
        for o in others:
            v, _ = classify(cfg, s, o, wide)
            if v == "in":
                lo[o] += 1
            if v != "out":
                hi[o] += 1
        got = Counter(bitsv3(p) for p in pic)
        allpos = set(others)
        for p, c in got.items():
            if p not in allpos:
                if p == s:
                    fails.append(("C19:own-node-reported", f"{tag}the camera's own position {s} is in the picture although "
                                  f"no other node is there"))
                else:
                    fails.append(("C19:not-a-node-position", f"{tag}entry {p} is not the position of any other node"))
            elif c > hi[p]:
                n_there = sum(1 for o in others if o == p)
                if p == s and c > n_there:
                    fails.append(("C19:own-node-reported", f"{tag}{c} entries at the camera's own position {s}, only "
                                  f"{n_there} other node(s) there"))
                else:
                    v, why = classify(cfg, s, p, wide)
                    fails.append(("C19:extra-node", f"{tag}node at {p} reported ({c}x) but it is outside the cone ({why}); "
                                  f"camera at {s}, cfg {cfg}"))
        for p, c in lo.items():
            if got[p] < c:
                fails.append(("C19:missing-node", f"{tag}node at {p} is inside the cone but reported {got[p]}x of {c}; "
                              f"camera at {s}, cfg {cfg}"))

    def oracle(self, case, impl):
        fails = []
        cfg = self.cfg_of(case)
        positions = [bitsv3(p) for p in case["positions"]]
        if impl["crash"] is not None:
            fails.append(("C19:raises", f"take_picture raised {impl['crash']} (cfg {cfg}, camera at "
                          f"{positions[case['selfIndex']]}, {len(positions) - 1} other nodes)"))
        else:
            self._judge_scene(cfg, positions, case["selfIndex"], impl["picture"], fails)
        for shot in impl.get("dynamic") or []:
            tag = f"[moving scene, picture taken in handle_{shot['where']} at t={shot['t']}] "
            if shot["crash"] is not None:
                fails.append(("C19:raises", tag + f"take_picture raised {shot['crash']}"))
            else:
                self._judge_scene(cfg, [bitsv3(p) for p in shot["positions"]], case["selfIndex"], shot["picture"],
                                  fails, tag=tag, wide=True)
        fleet = self.fleet_of(case)
        if fleet and impl.get("fleet") is not None:
            want = {k: (cam, c) for k, cam, c in fleet_axes(fleet)}
            got = {shot["op"]: shot for shot in impl["fleet"]}
            for shot in impl["fleet"]:
                if shot["crash"] is not None:
                    fails.append(("C19:raises", f"[fleet, operation {shot['op']} on camera {shot['cam']}] raised "
                                  f"{shot['crash']}"))
            for k, (cam, c) in want.items():
                shot = got.get(k)
                if shot is None or shot["crash"] is not None:
                    continue
                node = fleet["cams"][cam]["node"]
                shared = sum(1 for o in fleet["cams"] if o["conf"] == fleet["cams"][cam]["conf"])
                tag = (f"[fleet of {len(fleet['cams'])} cameras, operation {k}: picture by camera {cam} on node {node} "
                       f"(its configuration object is held by {shared} camera(s)); operations so far "
                       f"{fleet['ops'][:k + 1]}] ")
                self._judge_scene(c, positions, node, shot["picture"], fails, tag=tag)
        for leg, what in (("dynamic", "moving scene"), ("fleet", "fleet")):
            shots = impl.get(leg) or []
            for j, shot in enumerate(shots):
                later = shot.get("later")
                if later is None or shot.get("picture") is None:
                    continue
                if isinstance(later, str) or [list(p) for p in later] != [list(p) for p in shot["picture"]]:
                    at = f"in handle_{shot['where']} at t={shot['t']}" if leg == "dynamic" else \
                         f"by camera {shot['cam']} (operation {shot['op']})"
                    now = later if isinstance(later, str) else [bitsv3(p) for p in later][:6]
                    fails.append(("C19:picture-rewritten", f"[{what}] the picture no. {j} taken {at} was "
                                  f"{[bitsv3(p) for p in shot['picture']][:6]} ({len(shot['picture'])} entries) when it was "
                                  f"returned; kept by the caller (not copied) and read again after the "
                                  f"{len(shots) - j - 1} later operations it holds {now}"))
                    break
        sh = impl.get("shifted")
        if sh:
            t = bitsv3(case["shift"]["v"])
            if sh["crash"] is not None:
                fails.append(("C19:raises", f"take_picture raised {sh['crash']} on the scene translated by {t}"))
            elif impl["crash"] is None:
                moved = [bitsv3(p) for p in sh["positions"]]
                if case["shift"]["exact"]:
                    want = []
                    for p in impl["picture"]:
                        q = bitsv3(p)
                        want.append(v3bits((q[0] + t[0], q[1] + t[1], q[2] + t[2])))
                    if want != sh["picture"]:
                        fails.append(("C19:translation", f"picture of the scene translated by {t} is not the translated "
                                      f"picture: {len(sh['picture'])} vs {len(want)} entries"))
                else:
                    # non-dyadic offsets: only clearly inside / outside placements are judged
                    self._judge_scene(cfg, moved, case["selfIndex"], sh["picture"], fails,
                                      tag=f"[translated by {t}] ", wide=True)
        return fails

    # -------------------------------------------------------------------------------- evidence
    def hot(self, case):
        cfg = self.cfg_of(case)
        ax = axis_of(cfg["elevation"], cfg["rotation"])
        positions = [bitsv3(p) for p in case["positions"]]
        s = positions[case["selfIndex"]]
        for i, o in enumerate(positions):
            if i != case["selfIndex"]:
                c = source_cosine(ax, s, o)
                if c is not None and abs(c) > 1:
                    return True
        return False

    def nontrivial(self, case, impl):
        return self.hot(case)

    def key(self, case, impl):
        return str((case["cfg"], case["positions"], case["selfIndex"]))

    def sample(self, case, impl):
        return {"label": case.get("label"), "cfg": self.cfg_of(case), "selfIndex": case["selfIndex"],
                "positions": [bitsv3(p) for p in case["positions"]][:6],
                "picture": None if impl["picture"] is None else [bitsv3(p) for p in impl["picture"]][:6],
                "crash": impl["crash"]}

    def stats(self, case, impl, acc):
        acc["scenes"] = acc.get("scenes", 0) + 1
        acc["class_" + case.get("cls", "corpus")] = acc.get("class_" + case.get("cls", "corpus"), 0) + 1
        cfg = self.cfg_of(case)
        positions = [bitsv3(p) for p in case["positions"]]
        s = positions[case["selfIndex"]]
        ax = axis_of(cfg["elevation"], cfg["rotation"])
        for i, o in enumerate(positions):
            if i == case["selfIndex"]:
                continue
            v, why = classify(cfg, s, o)
            acc["decision_" + why] = acc.get("decision_" + why, 0) + 1
            c = source_cosine(ax, s, o)
            if c is not None and c > 1:
                acc["cosine_above_1"] = acc.get("cosine_above_1", 0) + 1
            if c is not None and c < -1:
                acc["cosine_below_-1"] = acc.get("cosine_below_-1", 0) + 1
        if impl["crash"]:
            acc["raised"] = acc.get("raised", 0) + 1
        if case.get("shift"):
            acc["translated_" + ("exact" if case["shift"]["exact"] else "clear")] = \
                acc.get("translated_" + ("exact" if case["shift"]["exact"] else "clear"), 0) + 1
        if case.get("dynamic"):
            acc["moving_scenes"] = acc.get("moving_scenes", 0) + 1
        for leg in ("dynamic", "fleet"):
            shots = [sh for sh in impl.get(leg) or [] if sh.get("later") is not None and sh.get("picture") is not None]
            by_cam = {}
            for sh in shots:
                by_cam.setdefault(sh.get("cam", 0), []).append([list(p) for p in sh["picture"]])
            acc["kept_pictures_reread"] = acc.get("kept_pictures_reread", 0) + len(shots)
            if any(any(a != b for a, b in zip(pics, pics[1:])) for pics in by_cam.values()):
                acc[f"{leg}_camera_with_consecutive_pictures_differing"] = \
                    acc.get(f"{leg}_camera_with_consecutive_pictures_differing", 0) + 1
        if not (0.0 <= cfg["reach"] < 1e100) or math.copysign(1.0, cfg["reach"]) < 0 or cfg["reach"] == 5e-324:
            acc["odd_reach"] = acc.get("odd_reach", 0) + 1
        fleet = self.fleet_of(case)
        if fleet:
            acc["fleets"] = acc.get("fleets", 0) + 1
            faced_by = {}
            for op in fleet["ops"]:
                conf = fleet["cams"][op[1]]["conf"]
                if op[0] == "face":
                    acc["fleet_change_facing"] = acc.get("fleet_change_facing", 0) + 1
                    faced_by[conf] = op[1]
                else:
                    acc["fleet_pictures"] = acc.get("fleet_pictures", 0) + 1
                    if conf in faced_by and faced_by[conf] != op[1]:
                        # the configuration object this camera holds was last written through ANOTHER camera
                        acc["fleet_pictures_after_foreign_change_facing"] = \
                            acc.get("fleet_pictures_after_foreign_change_facing", 0) + 1

    def shrink(self, case, still_fails):
        best = case
        for part in ("fleet", "dynamic", "shift"):          # legs the failure does not need
            if best.get(part):
                cand = dict(best)
                cand[part] = None
                if still_fails(cand):
                    best = cand
        # fleet operations from the end, then from the front (an operation is kept if the failure needs it)
        changed = bool(best.get("fleet"))
        while changed:
            changed = False
            ops = best["fleet"]["ops"]
            for i in list(range(len(ops) - 1, -1, -1)):
                cand = dict(best)
                cand["fleet"] = dict(best["fleet"], ops=ops[:i] + ops[i + 1:])
                if cand["fleet"]["ops"] and still_fails(cand):
                    best, changed = cand, True
                    break
        changed = True
        while changed:
            changed = False
            keep = {best["selfIndex"]}
            if best.get("fleet"):
                keep |= {c["node"] for c in best["fleet"]["cams"]}
            if best.get("dynamic"):
                keep.add(best["dynamic"]["mover"])
            for i in range(len(best["positions"]) - 1, -1, -1):
                if i in keep or len(best["positions"]) <= 2:
                    continue
                down = lambda j: j - (1 if i < j else 0)
                cand = dict(best)
                cand["positions"] = best["positions"][:i] + best["positions"][i + 1:]
                cand["selfIndex"] = down(best["selfIndex"])
                if best.get("fleet"):
                    cand["fleet"] = dict(best["fleet"], cams=[dict(c, node=down(c["node"])) for c in best["fleet"]["cams"]])
                if best.get("dynamic"):
                    cand["dynamic"] = dict(best["dynamic"], mover=down(best["dynamic"]["mover"]))
                if still_fails(cand):
                    best, changed = cand, True
                    break
        return best


# ================================================================================================
# C20
# ================================================================================================
def unit3(lat, lon):
    p, l = math.radians(lat), math.radians(lon)
    return (math.cos(p) * math.cos(l), math.cos(p) * math.sin(l), math.sin(p))


def great_circle(a, b):
    """independent great-circle distance: central angle from the 3-D chord, same R"""
    u, v = unit3(a[0], a[1]), unit3(b[0], b[1])
    chord = math.sqrt(math.fsum([(u[0] - v[0]) ** 2, (u[1] - v[1]) ** 2, (u[2] - v[2]) ** 2]))
    return EARTH_R * 2.0 * math.asin(min(1.0, chord / 2.0))


def _goto_proto(cmd):
    class P(_Silent):
        def initialize(self):
            self.provider.send_mobility_command(cmd)
    return P


def geo_goto_impl(ref, targets, speed, dt, duration):
    """one real simulation: node i flies to targets[i] by a geographic goto, node T+i by a Cartesian goto
    to geo_to_cartesian(ref, targets[i]); returns the final positions of both groups"""
    builder = SimulationBuilder(SimulationConfiguration(duration=duration, execution_logging=False))
    geo_ids, cart_ids = [], []
    for t in targets:
        geo_ids.append(builder.add_node(_goto_proto(GotoGeoCoordsMobilityCommand(t[0], t[1], t[2])), (0.0, 0.0, 0.0)))
    for t in targets:
        c = geo_to_cartesian(ref, t)
        cart_ids.append(builder.add_node(_goto_proto(GotoCoordsMobilityCommand(c[0], c[1], c[2])), (0.0, 0.0, 0.0)))
    builder.add_handler(MobilityHandler(MobilityConfiguration(update_rate=dt, default_speed=speed,
                                                              reference_coordinates=ref)))
    sim = builder.build()
    simimpl.quiet_logging()
    sim.start_simulation()
    return ([v3bits(sim.get_node(i).position) for i in geo_ids],
            [v3bits(sim.get_node(i).position) for i in cart_ids])


# ---- command objects that live longer than one send -------------------------------------------
def make_geo_objects(plan, targets):
    """the long-lived geographic command objects of a plan, built ONCE from the geographic targets: the
    typed GotoGeoCoordsMobilityCommand or the generic MobilityCommand(GOTO_GEO_COORDS, ...)"""
    out = []
    for o in plan["objects"]:
        t = targets[o["target"]]
        if o["form"] == "raw":
            out.append(MobilityCommand(MobilityCommandType.GOTO_GEO_COORDS, t[0], t[1], t[2]))
        else:
            out.append(GotoGeoCoordsMobilityCommand(t[0], t[1], t[2]))
    return out


def _sender_proto(make, sends, then=None):
    """a protocol that sends make() at each of the times `sends`: 0 = in initialize, later = from a timer; with
    `then`, each send is followed in the same callback by the command then() makes (a change of mind: the later
    command is the one that counts)"""
    class P(_Silent):
        def _send(self):
            self.provider.send_mobility_command(make())
            if then is not None:
                self.provider.send_mobility_command(then())

        def initialize(self):
            for t in sends:
                if t == 0.0:
                    self._send()
                else:
                    self.provider.schedule_timer("resend", t)

        def handle_timer(self, timer):
            self._send()
    return P


def geo_plan_impl(ref, targets, speed, dt, duration, plan, objs):
    """one real simulation (timer + mobility handler) for a plan of sends.  Plan node k is flown twice: by a
    node that sends a GEOGRAPHIC goto to targets[node.target] at each of the times node.sends - the command
    being the long-lived object objs[node.object] (possibly held by several nodes, possibly sent before, in
    this or in an earlier simulation) or, with object None, a fresh one per send - and by a twin that sends,
    at the same times, a CARTESIAN goto to geo_to_cartesian(ref, target) (fresh per send, or with cartShared
    one long-lived object per target).  Returns the final positions of both, and what the long-lived
    geographic objects carry afterwards (for the message only)."""
    from gradysim.simulator.handler.timer import TimerHandler
    builder = SimulationBuilder(SimulationConfiguration(duration=duration, execution_logging=False))
    cart_objs = {}
    ids = []

    def geo_maker(nd):
        t = targets[nd["target"]]
        if nd["object"] is None:
            return lambda: GotoGeoCoordsMobilityCommand(t[0], t[1], t[2])
        return lambda: objs[nd["object"]]

    def cart_maker(nd):
        c = geo_to_cartesian(ref, targets[nd["target"]])
        if plan.get("cartShared"):
            if nd["target"] not in cart_objs:
                cart_objs[nd["target"]] = GotoCoordsMobilityCommand(c[0], c[1], c[2])
            return lambda: cart_objs[nd["target"]]
        return lambda: GotoCoordsMobilityCommand(c[0], c[1], c[2])

    def then_maker(nd):
        # plan option "then": both the geographic sender and its twin change their mind in the same callback and
        # send a Cartesian goto to another target's converted point - both must then head there (seeded C20_L)
        if nd.get("then") is None:
            return None
        c = geo_to_cartesian(ref, targets[nd["then"]])
        return lambda: GotoCoordsMobilityCommand(c[0], c[1], c[2])

    for nd in plan["nodes"]:
        sends = [bitsf(x) for x in nd["sends"]]
        g = builder.add_node(_sender_proto(geo_maker(nd), sends, then_maker(nd)), (0.0, 0.0, 0.0))
        c = builder.add_node(_sender_proto(cart_maker(nd), sends, then_maker(nd)), (0.0, 0.0, 0.0))
        ids.append((g, c))
    builder.add_handler(TimerHandler())
    builder.add_handler(MobilityHandler(MobilityConfiguration(update_rate=dt, default_speed=speed,
                                                              reference_coordinates=ref)))
    sim = builder.build()
    simimpl.quiet_logging()
    sim.start_simulation()
    return {"nodes": [{"geo": v3bits(sim.get_node(g).position), "cart": v3bits(sim.get_node(c).position)}
                      for g, c in ids],
            "objects": [f"{getattr(o.command_type, 'name', o.command_type)}({o.param_1!r}, {o.param_2!r}, {o.param_3!r})"
                        for o in objs]}


class C20(Check):
    prop = "C20"
    level_text = ("Theorems over the reals: north-south leg = R*|dphi| exactly, east-west leg = 2R*asin(cos(phi0)*|sin(dlambda/2)|) "
                  "within [R cos(phi0)|dl|(1-dl^2/24), R cos(phi0)|dl|], x/y/z and their signs in all four quadrants (signed closed "
                  "form), exact distances along the reference meridian, the general bound (|lat0| <= 60 deg, both targets within 5 km: "
                  "converted distance within 0.3% < 0.5% of great-circle distance + altitude), a target at the reference's latitude "
                  "and longitude maps to (0, 0, altitude difference), geographic goto = Cartesian goto to "
                  "the converted point (every scalar type), and the same geographic command sent repeatedly, by several nodes, "
                  "after any history heads every sender for the converted ORIGINAL target (every scalar type).  The 1% band for 60 < |lat0| <= 80 deg is supported by the sampled "
                  "comparison of this check only.")
    rule = ("references over latitudes +-80 deg and all longitudes, 2-8 targets within 5 km in all four quadrants with unequal "
            "offsets, about one reference in seven with its longitude in the 0..360 convention (181..359, targets in the same "
            "convention on both sides of it), mirror pairs straddling the reference meridian / parallel, targets on the axes, targets with zero "
            "horizontal offset (the reference itself, points straight above / below it) and targets sharing exactly one "
            "coordinate with the reference; in a share of the cases the same targets are converted and flown under 1-3 further "
            "references in the same process (other launch sites, the first reference again); bit-level agreement of "
            "geo_to_cartesian with the model; pairwise converted distance vs an independent 3-D-chord great-circle distance "
            "(0.5% for |lat0|<=60, 1% for <=80); closed-form legs; real simulations comparing GotoGeoCoords with GotoCoords, with a "
            "fresh command per send and - in 70% of the goto cases - with command objects that live longer than one send: one "
            "GotoGeoCoordsMobilityCommand / MobilityCommand(GOTO_GEO_COORDS) object sent by a fleet of 2-4 nodes (a rally point "
            "kept as a constant), re-sent by one node from timers (at update instants and between them), both, or kept across "
            "the further references of the case; each such node has a twin sending Cartesian gotos to the converted point at "
            "the same times (fresh, or one long-lived GotoCoords object per target) and must end where the twin ends; "
            "non-trivial = a pair of targets in different quadrants with |dlat| != |dlon|")
    assumptions = ["reference latitude within +-80 deg, targets within 5 km of the reference (the small-offset regime of the property)",
                   "R = 6371000 m, the literal of position.py, is used by model and oracle alike",
                   "pairs closer than 1 m (great circle + altitude) are not judged by the relative band (float noise), only "
                   "by the closed form",
                   "a protocol may keep a mobility command object and send it any number of times, from any of its nodes, in "
                   "any simulation of the process: sending hands the object over for reading only"]
    modelled = ["gradysim/protocol/position.py (_haversine_distance, geo_to_cartesian)",
                "gradysim/simulator/handler/mobility.py (handle_command: GOTO_GEO_COORDS)"]

    def generate(self, seed, tier):
        n = 2400 if tier == "quick" else 60000
        for i in range(n):
            r = random.Random(stable_hash("C20", seed, i))
            yield self.gen_case(r, f"gen/{seed}/{i}", i)

    def gen_case(self, r, label, i):
        m = r.random()
        if m < 0.15:
            lat0 = float(r.choice([0, 10, -10, 45, -45, 60, -60, 80, -80, 30]))
        elif m < 0.8:
            lat0 = r.uniform(-60, 60)
        else:
            lat0 = r.choice([-1, 1]) * r.uniform(60, 80)
        lon0 = r.choice([r.uniform(-179, 179), float(r.choice([0, 20, -20, 90, 179, -179]))])
        # (own random stream)  longitudes in the 0..360 "degrees east" convention: a site in the western hemisphere
        # is written 181..359 (e.g. 312.07 for 47.93 W); the targets and further references, derived from the
        # reference by offsets, are in the same convention
        r360 = random.Random(stable_hash("C20", "lon360", label))
        if lon0 < -1.0 and r360.random() < 0.3:
            lon0 = round(lon0 + 360.0, 2) if r360.random() < 0.5 else lon0 + 360.0
        alt0 = r.choice([0.0, r.uniform(0, 500)])
        ref = (lat0, lon0, alt0)
        mdeg = 180.0 / (math.pi * EARTH_R)        # degrees of latitude per metre
        coslat = math.cos(math.radians(lat0))
        targets = []

        def mk(north_m, east_m, alt):
            return (lat0 + north_m * mdeg, lon0 + east_m * mdeg / coslat, alt)

        style = r.random()
        k = r.randint(2, 8)
        if style < 0.3:
            # mirror pairs straddling the reference meridian and the reference parallel
            for _ in range(k // 2 + 1):
                n_m, e_m = r.uniform(-3400, 3400), r.uniform(10, 3400)
                a = r.choice([alt0, alt0 + r.uniform(-100, 100)])
                targets.append(mk(n_m, e_m, a))
                targets.append(mk(n_m, -e_m, a) if r.random() < 0.6 else mk(-n_m, e_m, a))
        else:
            for _ in range(k):
                mode = r.random()
                rad_m = r.uniform(1, 4900)
                th = r.uniform(0, 2 * math.pi)
                n_m, e_m = rad_m * math.sin(th), rad_m * math.cos(th)
                if mode < 0.12:
                    n_m = 0.0
                elif mode < 0.24:
                    e_m = 0.0
                targets.append(mk(n_m, e_m, r.choice([alt0, alt0 + r.uniform(-200, 200)])))
        home = r.random()
        if home < 0.3:
            # zero horizontal offset: a point straight above / below the reference (take-off, "hover over
            # home", return to launch) or the reference itself
            targets.insert(r.randrange(len(targets) + 1),
                           (lat0, lon0, r.choice([alt0 + float(r.randint(1, 120)), alt0 + r.uniform(-100, 300), alt0])))
        elif home < 0.4:
            # a waypoint sharing exactly one coordinate with the reference, at another altitude
            t0 = r.choice(targets)
            targets.append(r.choice([(lat0, t0[1], t0[2] + 25.0), (t0[0], lon0, t0[2] - 15.0)]))
        if i % 8 == 0 and r.random() < 0.6:
            # waypoints stacked over one another: same latitude/longitude, different altitudes (descend
            # over a point, two nodes holding at different flight levels)
            t0 = r.choice(targets)
            targets.append((t0[0], t0[1], t0[2] + r.choice([-70.0, 40.0, 110.0])))
        case = {"kind": "geo", "label": label, "ref": v3bits(ref), "targets": [v3bits(t) for t in targets], "goto": None}
        if i % 8 == 0:
            case["goto"] = {"speed": fbits(float(r.choice([512, 1024, 2048]))), "dt": fbits(r.choice([0.5, 1.0, 0.25])),
                            "duration": fbits(float(r.choice([1, 2, 4, 16])))}
        if i % 4 == 0 and r.random() < 0.75:
            # the SAME absolute targets seen from other reference points in the same process (one mission flown
            # from several launch sites, a sweep over sites): 1-2 further references a few km away - free,
            # on the meridian / parallel of the first one, or at a target's latitude and longitude (launch from the
            # first waypoint) - and sometimes the first reference once more at the end
            sites = []
            for _ in range(r.randint(1, 2)):
                m2 = r.random()
                if m2 < 0.55:
                    la, lo, _a = mk(r.uniform(-2500, 2500), r.uniform(-2500, 2500), 0.0)
                elif m2 < 0.7:
                    la, lo, _a = mk(0.0, r.choice([-1, 1]) * r.uniform(50, 2500), 0.0)
                elif m2 < 0.85:
                    la, lo, _a = mk(r.choice([-1, 1]) * r.uniform(50, 2500), 0.0, 0.0)
                else:
                    la, lo, _a = r.choice(targets)
                sites.append((la, lo, r.choice([alt0, 0.0, alt0 + r.uniform(-50, 50)])))
            if r.random() < 0.3:
                sites.append(ref)
            case["sites"] = [v3bits(x) for x in sites]
        if case["goto"] and r.random() < 0.7:
            case["goto"]["plan"] = self._plan(r, len(targets), case["goto"], bool(case.get("sites")))
        return case

    @staticmethod
    def _plan(r, ntargets, g, has_sites):
        """who sends which command object when (see geo_plan_impl): command objects that live longer than one
        send.  Per chosen target one of: a CONSTANT (one object - a rally point kept at class / module level -
        sent once by each node of a small fleet), a STORED command re-sent by one node from a timer ("keep
        heading home"), BOTH (a fleet sharing one object, each node re-sending it), or fresh objects per send
        with the same timing.  Send times are update instants, half-way points between them, 0 = initialize."""
        dt, duration = bitsf(g["dt"]), bitsf(g["duration"])
        steps = int(duration / dt)
        grid = [j * dt for j in range(1, steps + 1)] + [j * dt + dt / 2 for j in range(0, steps)]
        grid = [t for t in grid if t <= duration]

        def later(kmax):
            return sorted(r.sample(grid, min(len(grid), r.randint(1, kmax))))

        objects, nodes = [], []
        chosen = r.sample(range(ntargets), min(ntargets, r.randint(1, 3)))
        for ti in chosen:
            shape = r.choice(["constant", "constant", "stored", "stored", "both", "fresh"])
            obj = None
            if shape != "fresh":
                objects.append({"form": "raw" if r.random() < 0.25 else "typed", "target": ti})
                obj = len(objects) - 1
            if shape == "constant":
                for k in range(r.randint(2, 4)):
                    first = 0.0 if k == 0 or r.random() < 0.8 else r.choice(grid)
                    nodes.append({"target": ti, "object": obj, "sends": [first]})
            elif shape == "stored":
                nodes.append({"target": ti, "object": obj, "sends": [0.0] + later(3)})
            elif shape == "both":
                for k in range(r.randint(2, 3)):
                    nodes.append({"target": ti, "object": obj, "sends": [0.0] + (later(2) if r.random() < 0.7 else [])})
            else:
                for k in range(r.randint(1, 2)):
                    nodes.append({"target": ti, "object": None, "sends": [0.0] + later(2)})
        for nd in nodes:
            nd["sends"] = [fbits(t) for t in nd["sends"]]
            if ntargets > 1 and r.random() < 0.25:
                nd["then"] = r.choice([t for t in range(ntargets) if t != nd["target"]])
        return {"objects": objects, "nodes": nodes, "cartShared": r.random() < 0.3,
                # the objects are module-level constants of the mission: the same ones under every reference
                "acrossSites": has_sites and r.random() < 0.6}

    @staticmethod
    def _run_site(ref, targets, g, objs=None):
        out = {"points": [], "crash": None, "goto": None}
        try:
            for t in targets:
                out["points"].append(v3bits(geo_to_cartesian(ref, t)))
        except Exception as e:
            out["crash"] = _exc(e)
            return out
        if g:
            try:
                geo, cart = geo_goto_impl(ref, targets, bitsf(g["speed"]), bitsf(g["dt"]), bitsf(g["duration"]))
                out["goto"] = {"geo": geo, "cart": cart}
                plan = g.get("plan")
                if plan:
                    out["goto"]["plan"] = geo_plan_impl(ref, targets, bitsf(g["speed"]), bitsf(g["dt"]),
                                                        bitsf(g["duration"]), plan,
                                                        objs if objs is not None else make_geo_objects(plan, targets))
            except Exception as e:
                out["goto"] = {"crash": _exc(e)}
        return out

    def run_impl(self, case):
        targets = [bitsv3(t) for t in case["targets"]]
        plan = (case.get("goto") or {}).get("plan")
        # long-lived command objects: built once per simulation, or once for all references of the case
        objs = make_geo_objects(plan, targets) if plan and plan.get("acrossSites") else None
        out = self._run_site(bitsv3(case["ref"]), targets, case.get("goto"), objs)
        if out["crash"] is None and case.get("sites"):
            # the same targets under further references, one after the other in this process
            out["sites"] = [self._run_site(bitsv3(x), targets, case.get("goto"), objs) for x in case["sites"]]
        return out

    def model_input(self, case, impl):
        return {"kind": "geo", "ref": case["ref"], "targets": case["targets"], "sites": case.get("sites") or []}

    def compare(self, case, impl, model):
        if impl["crash"]:
            return [f"implementation raised {impl['crash']}"]
        diffs = []
        for i, (a, b) in enumerate(zip(impl["points"], model["points"])):
            if list(a) != list(b):
                diffs.append(f"target {i} {bitsv3(case['targets'][i])} (ref {bitsv3(case['ref'])}): implementation "
                             f"{bitsv3(a)}, model {bitsv3(b)}")
        for k, (x, res, mpts) in enumerate(zip(case.get("sites") or [], impl.get("sites") or [], model.get("sites") or [])):
            if res["crash"]:
                diffs.append(f"reference no. {k + 2} {bitsv3(x)}: implementation raised {res['crash']}")
                continue
            for i, (a, b) in enumerate(zip(res["points"], mpts)):
                if list(a) != list(b):
                    diffs.append(f"target {i} {bitsv3(case['targets'][i])} (reference no. {k + 2} {bitsv3(x)}): "
                                 f"implementation {bitsv3(a)}, model {bitsv3(b)}")
        return diffs

    @staticmethod
    def quadrant(ref, t):
        return (t[0] >= ref[0], t[1] >= ref[1])

    def oracle(self, case, impl):
        fails = []
        targets = [bitsv3(t) for t in case["targets"]]
        self._judge_site(bitsv3(case["ref"]), targets, impl, case.get("goto"), fails, "")
        for k, (x, res) in enumerate(zip(case.get("sites") or [], impl.get("sites") or [])):
            self._judge_site(bitsv3(x), targets, res, case.get("goto"), fails,
                             f"[same targets, reference no. {k + 2} of this case] ")
        return fails

    def _judge_site(self, ref, targets, impl, gg, fails, tag):
        if impl["crash"]:
            fails.append(("C20:raises", f"{tag}geo_to_cartesian raised {impl['crash']}"))
            return
        pts = [bitsv3(p) for p in impl["points"]]
        band = 0.005 if abs(ref[0]) <= 60 else 0.01
        near = [great_circle(ref, t) <= 5000.0 for t in targets]
        # pairwise distances, the reference itself (converted to the origin) included
        allt = [ref] + targets
        allp = [(0.0, 0.0, 0.0)] + pts
        alln = [True] + near
        worst = None
        for i in range(len(allt)):
            for j in range(i + 1, len(allt)):
                if not (alln[i] and alln[j]) or abs(ref[0]) > 80:
                    continue
                gc = great_circle(allt[i], allt[j])
                true = math.hypot(gc, allt[i][2] - allt[j][2])
                conv = math.dist(allp[i], allp[j])
                if true < 1.0:
                    continue
                rel = abs(conv - true) / true
                if rel > band and (worst is None or rel > worst[0]):
                    worst = (rel, i, j, conv, true)
        if worst:
            rel, i, j, conv, true = worst
            fails.append(("C20:pairwise-distance", f"{tag}ref {ref}: points {allt[i]} and {allt[j]} are {true:.3f} m apart "
                          f"(great circle + altitude) but their converted images {allp[i]} and {allp[j]} are {conv:.3f} m "
                          f"apart (relative error {rel:.3%}, band {band:.1%})"))
        # closed form of the legs and the signs (C20_axes_closed_form)
        for t, p, ok in zip(targets, pts, near):
            dphi = math.radians(t[0]) - math.radians(ref[0])
            dlam = math.radians(t[1]) - math.radians(ref[1])
            wx = 2 * EARTH_R * math.asin(math.cos(math.radians(ref[0])) * math.sin(dlam / 2))
            wy = EARTH_R * dphi
            wz = t[2] - ref[2]
            if abs(dlam) > math.pi or abs(dphi) > math.pi:
                continue
            tol = lambda w: 1e-6 + 1e-7 * abs(w)
            if abs(p[0] - wx) > tol(wx) or abs(p[1] - wy) > tol(wy) or p[2] != wz:
                fails.append(("C20:axes", f"{tag}ref {ref}, target {t}: converted to {p}; east-west leg signed by longitude, "
                              f"north-south leg signed by latitude, altitude difference are ({wx:.6f}, {wy:.6f}, {wz})"))
            if (t[1] > ref[1] and not p[0] > 0) or (t[1] < ref[1] and not p[0] < 0) or \
               (t[0] > ref[0] and not p[1] > 0) or (t[0] < ref[0] and not p[1] < 0):
                fails.append(("C20:signs", f"{tag}ref {ref}, target {t} converted to {p}: signs do not follow the quadrant"))
        g = impl.get("goto")
        if g:
            if "crash" in g:
                fails.append(("C20:goto-raises", f"{tag}simulation with geographic goto raised {g['crash']}"))
            else:
                for i, (a, b) in enumerate(zip(g["geo"], g["cart"])):
                    if list(a) != list(b):
                        fails.append(("C20:goto-geo", f"{tag}ref {ref}, target {targets[i]}: node sent by GotoGeoCoords ended "
                                      f"at {bitsv3(a)}, node sent by GotoCoords to the converted point ended at {bitsv3(b)}"))
                    d = math.dist((0, 0, 0), pts[i])
                    steps = math.floor(bitsf(gg["duration"]) / bitsf(gg["dt"]))
                    if bitsf(gg["speed"]) * bitsf(gg["dt"]) * (steps - 1) >= d and list(a) != list(impl["points"][i]):
                        fails.append(("C20:goto-geo", f"{tag}ref {ref}, target {targets[i]}: after enough time the node is at "
                                      f"{bitsv3(a)}, not at the converted point {pts[i]}"))
                self._judge_plan(ref, targets, pts, impl, gg, fails, tag)

    @staticmethod
    def _judge_plan(ref, targets, pts, impl, gg, fails, tag):
        """the goto clause for every node of the plan: the node sent by geographic gotos ends where its twin,
        sent at the same times by Cartesian gotos to the converted point, ends - and at the converted point
        itself when the first send was at 0 and there was time enough - however long the command object it
        sends has lived, whoever else sends it, however often it was sent before"""
        plan, res = gg.get("plan"), impl["goto"].get("plan")
        if not plan or not res:
            return
        steps = math.floor(bitsf(gg["duration"]) / bitsf(gg["dt"]))
        for k, (nd, got) in enumerate(zip(plan["nodes"], res["nodes"])):
            t = targets[nd["target"]]
            sends = [bitsf(x) for x in nd["sends"]]
            if nd["object"] is None:
                how = "a fresh GotoGeoCoordsMobilityCommand per send"
            else:
                o = plan["objects"][nd["object"]]
                holders = [j for j, m in enumerate(plan["nodes"]) if m["object"] == nd["object"]]
                how = (f"ONE long-lived {'MobilityCommand(GOTO_GEO_COORDS, ...)' if o['form'] == 'raw' else 'GotoGeoCoordsMobilityCommand'}"
                       f" object built from the target, sent by plan node(s) {holders} at times "
                       f"{[[bitsf(x) for x in plan['nodes'][j]['sends']] for j in holders]}"
                       f"{', kept across the references of this case' if plan.get('acrossSites') else ''}; after this run the "
                       f"object carries {res['objects'][nd['object']]}")
            where = f"{tag}ref {ref}, target {t}, plan node {k} sending at times {sends} ({how})"
            if list(got["geo"]) != list(got["cart"]):
                fails.append(("C20:goto-geo", f"{where}: the node sent by geographic gotos ended at {bitsv3(got['geo'])}, its "
                              f"twin sent at the same times by GotoCoords to the converted point {pts[nd['target']]} ended at "
                              f"{bitsv3(got['cart'])}"))
            d = math.dist((0, 0, 0), pts[nd["target"]])
            if nd.get("then") is not None:
                where += f", each send followed in the same callback by a GotoCoords to the converted target {nd['then']}"
            if nd.get("then") is None and sends[0] == 0.0 and bitsf(gg["speed"]) * bitsf(gg["dt"]) * (steps - 1) >= d and \
                    list(got["geo"]) != list(impl["points"][nd["target"]]):
                fails.append(("C20:goto-geo", f"{where}: after enough time the node is at {bitsv3(got['geo'])}, not at the "
                              f"converted point {pts[nd['target']]}"))

    def nontrivial(self, case, impl):
        ref = bitsv3(case["ref"])
        ts = [bitsv3(t) for t in case["targets"]]
        for i in range(len(ts)):
            for j in range(i + 1, len(ts)):
                if self.quadrant(ref, ts[i]) != self.quadrant(ref, ts[j]) and \
                        abs(ts[i][0] - ref[0]) != abs(ts[i][1] - ref[1]) and abs(ts[j][0] - ref[0]) != abs(ts[j][1] - ref[1]):
                    return True
        return False

    def key(self, case, impl):
        return str((case["ref"], case["targets"]))

    def sample(self, case, impl):
        return {"label": case.get("label"), "ref": bitsv3(case["ref"]), "targets": [bitsv3(t) for t in case["targets"]][:4],
                "points": [bitsv3(p) for p in impl["points"]][:4], "goto": case.get("goto") is not None}

    def stats(self, case, impl, acc):
        ref = bitsv3(case["ref"])
        acc["cases"] = acc.get("cases", 0) + 1
        acc["targets"] = acc.get("targets", 0) + len(case["targets"])
        b = "lat<=60" if abs(ref[0]) <= 60 else "lat<=80"
        acc[b] = acc.get(b, 0) + 1
        if ref[1] > 180:
            acc["reference_longitude_0_360_convention"] = acc.get("reference_longitude_0_360_convention", 0) + 1
            if case.get("goto"):
                acc["goto_with_reference_longitude_0_360_convention"] = \
                    acc.get("goto_with_reference_longitude_0_360_convention", 0) + 1
        for t in case["targets"]:
            q = self.quadrant(ref, bitsv3(t))
            name = "quadrant_" + ("N" if q[0] else "S") + ("E" if q[1] else "W")
            acc[name] = acc.get(name, 0) + 1
        if case.get("goto"):
            acc["goto_simulations"] = acc.get("goto_simulations", 0) + 1 + len(impl.get("sites") or [])
        plan = (case.get("goto") or {}).get("plan")
        if plan:
            nsim = 1 + len(impl.get("sites") or [])
            acc["goto_plans"] = acc.get("goto_plans", 0) + 1
            acc["goto_plan_nodes"] = acc.get("goto_plan_nodes", 0) + len(plan["nodes"])
            for k, o in enumerate(plan["objects"]):
                handled = sum(len(nd["sends"]) for nd in plan["nodes"] if nd["object"] == k)
                holders = sum(1 for nd in plan["nodes"] if nd["object"] == k)
                total = handled * (nsim if plan.get("acrossSites") else 1)
                if total > 1:
                    acc["geo_command_objects_handled_more_than_once"] = \
                        acc.get("geo_command_objects_handled_more_than_once", 0) + 1
                if holders > 1:
                    acc["geo_command_objects_held_by_several_nodes"] = \
                        acc.get("geo_command_objects_held_by_several_nodes", 0) + 1
                if handled > holders:
                    acc["geo_command_objects_resent_by_a_node"] = acc.get("geo_command_objects_resent_by_a_node", 0) + 1
                if plan.get("acrossSites") and nsim > 1:
                    acc["geo_command_objects_kept_across_references"] = \
                        acc.get("geo_command_objects_kept_across_references", 0) + 1
        if impl.get("sites"):
            acc["cases_with_further_references"] = acc.get("cases_with_further_references", 0) + 1
            acc["further_references"] = acc.get("further_references", 0) + len(impl["sites"])
        for t in case["targets"]:
            tt = bitsv3(t)
            if tt[0] == ref[0] and tt[1] == ref[1]:
                k = "targets_at_reference_latlon_" + ("same_altitude" if tt[2] == ref[2] else "other_altitude")
                acc[k] = acc.get(k, 0) + 1
            elif tt[0] == ref[0] or tt[1] == ref[1]:
                acc["targets_on_reference_meridian_or_parallel"] = acc.get("targets_on_reference_meridian_or_parallel", 0) + 1
        # worst relative error seen (sampled support for C20_small_offsets)
        if not impl["crash"] and abs(ref[0]) <= 80:
            ts = [ref] + [bitsv3(t) for t in case["targets"]]
            ps = [(0.0, 0.0, 0.0)] + [bitsv3(p) for p in impl["points"]]
            for i in range(len(ts)):
                for j in range(i + 1, len(ts)):
                    gc = great_circle(ts[i], ts[j])
                    true = math.hypot(gc, ts[i][2] - ts[j][2])
                    if true < 1.0 or great_circle(ref, ts[i]) > 5000 or great_circle(ref, ts[j]) > 5000:
                        continue
                    rel = abs(math.dist(ps[i], ps[j]) - true) / true
                    k = "worst_rel_error_" + b
                    acc[k] = max(acc.get(k, 0.0), rel)
                    acc["pairs_judged"] = acc.get("pairs_judged", 0) + 1

    @staticmethod
    def _drop_target(case, i):
        """the case without target i; None when a plan would be left without nodes"""
        cand = dict(case)
        cand["targets"] = case["targets"][:i] + case["targets"][i + 1:]
        plan = (case.get("goto") or {}).get("plan")
        if plan:
            down = lambda j: j - (1 if i < j else 0)
            keep_obj = [k for k, o in enumerate(plan["objects"]) if o["target"] != i]
            re = {k: n for n, k in enumerate(keep_obj)}
            nodes = [dict(nd, target=down(nd["target"]), object=None if nd["object"] is None else re[nd["object"]])
                     for nd in plan["nodes"] if nd["target"] != i]
            if not nodes:
                return None
            cand["goto"] = dict(case["goto"], plan=dict(plan, nodes=nodes, objects=[
                dict(plan["objects"][k], target=down(plan["objects"][k]["target"])) for k in keep_obj]))
        return cand

    def shrink(self, case, still_fails):
        best = case
        if best.get("goto"):
            cand = dict(best)
            cand["goto"] = None
            if still_fails(cand):
                best = cand
        if (best.get("goto") or {}).get("plan"):
            cand = dict(best)
            cand["goto"] = {k: v for k, v in best["goto"].items() if k != "plan"}
            if still_fails(cand):
                best = cand
        if best.get("sites"):
            cand = {k: v for k, v in best.items() if k != "sites"}
            if still_fails(cand):
                best = cand
        # plan: nodes from the end, then single sends, then the options (kept if the failure needs them)
        changed = bool((best.get("goto") or {}).get("plan"))
        while changed:
            changed = False
            plan = best["goto"]["plan"]
            cands = []
            for k in range(len(plan["nodes"]) - 1, -1, -1):
                if len(plan["nodes"]) > 1:
                    cands.append(dict(plan, nodes=plan["nodes"][:k] + plan["nodes"][k + 1:]))
            for k, nd in enumerate(plan["nodes"]):
                for j in range(len(nd["sends"]) - 1, -1, -1):
                    if len(nd["sends"]) > 1:
                        nodes = list(plan["nodes"])
                        nodes[k] = dict(nd, sends=nd["sends"][:j] + nd["sends"][j + 1:])
                        cands.append(dict(plan, nodes=nodes))
            for opt in ("cartShared", "acrossSites"):
                if plan.get(opt):
                    cands.append(dict(plan, **{opt: False}))
            for pl in cands:
                cand = dict(best, goto=dict(best["goto"], plan=pl))
                if still_fails(cand):
                    best, changed = cand, True
                    break
        changed = True
        while changed and len(best["targets"]) > 1:
            changed = False
            for i in range(len(best["targets"]) - 1, -1, -1):
                cand = self._drop_target(best, i)
                if cand and cand["targets"] and still_fails(cand):
                    best, changed = cand, True
                    break
        if best.get("sites") and len(best["sites"]) > 1:
            for i in range(len(best["sites"]) - 1, -1, -1):
                if len(best["sites"]) > 1:
                    cand = dict(best, sites=best["sites"][:i] + best["sites"][i + 1:])
                    if still_fails(cand):
                        best = cand
        return best


CHECKS = {"C19": C19, "C20": C20}
