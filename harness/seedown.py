"""Re-run ONLY the property's own quick check against one seeded change (scratch worktree, never /repo)
and merge the outcome into seeded/<id>/detection.json: the own check's entry is replaced, the entries of
the other checks (from the last full-matrix run) are kept. Usage: seedown.py <id> [--verif DIR]"""
import json
import subprocess
import sys
from pathlib import Path

VERIF = Path(__file__).resolve().parent.parent


def last_json(text):
    for line in reversed(text.strip().splitlines()):
        if line.startswith("{"):
            return json.loads(line)
    return {}


def main():
    sid = sys.argv[1]
    run_from = Path(sys.argv[3]) if len(sys.argv) > 3 and sys.argv[2] == "--verif" else VERIF
    d = VERIF / "seeded" / sid
    prop = json.loads((d / "meta.json").read_text()).get("property", sid.split("_")[0])
    r = subprocess.run([sys.executable, str(run_from / "harness" / "seedtest.py"), str(d / "patch.diff"), "--props", prop],
                       cwd=str(run_from), stdout=subprocess.PIPE, stderr=subprocess.PIPE, text=True)
    new = last_json(r.stderr) or last_json(r.stdout)
    if prop not in new.get("results", {}):
        print(f"{sid} ERROR no result for {prop}: {r.stderr[-300:]}")
        return 2
    old = last_json((d / "detection.json").read_text()) if (d / "detection.json").exists() else {}
    results = dict(old.get("results", {}))
    results[prop] = new["results"][prop]
    caught = sorted(p for p, v in results.items() if v.get("exit") == 1)
    (d / "detection.json").write_text(json.dumps({"caught_by": caught, "results": results}) + "\n")
    meta = json.loads((d / "meta.json").read_text())
    meta["caught_by"] = caught
    (d / "meta.json").write_text(json.dumps(meta, indent=1) + "\n")
    own = results[prop]
    concrete = own.get("exit") == 1 and "no-failing-input-found" not in " ".join(own.get("lines", []))
    print(f"{sid} own={'CONCRETE' if concrete else ('weak' if own.get('exit') == 1 else 'MISSED')} "
          f"{[l.strip()[:90] for l in own.get('lines', []) if l.startswith('  ')][:1]}")
    return 0


if __name__ == "__main__":
    sys.exit(main())
