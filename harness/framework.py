"""Generic check runner: proof gate -> corpus + generated cases -> implementation and model ->
property-scoped correspondence + direct predicate -> verdict -> evidence.  See DESIGN.md 2.6."""
import json
import os
import sys
import time
import traceback
from pathlib import Path

import fingerprint
import proofgate
from common import VERIF, seed_from_env, ensure_driver, run_driver_parallel, DriverError

KNOWN = VERIF / "known_findings.json"
REPLAYS = Path(os.environ.get("VERIF_REPLAY_DIR", VERIF / "replays"))
EVIDENCE = Path(os.environ.get("VERIF_EVIDENCE_DIR", VERIF / "evidence"))
CORPUS = VERIF / "corpus"

TRUSTED_BASE = [
    "T1 Lean 4.33.0 kernel; axioms admitted: propext, Classical.choice, Quot.sound only (audited per theorem by #print axioms); no sorry/native_decide/bv_decide/own axioms (source scan)",
    "T2 model fidelity: the Lean model is hand-written; its agreement with /repo's working tree is checked by this run's correspondence (sampled, not proved)",
    "T3 Python runtime contracts: heapq is a min-heap for a strict total order, dict keeps insertion order, random.random() is uniform on [0,1), libm functions approximate the real ones (theorems over Int ticks and the reals; IEEE rounding not formalised; dyadic times exact)",
    "T4 this harness: recording protocols/handlers, comparators, the Python property predicates, the driver's JSON glue, Lean's Float runtime (same libm as CPython)",
]


class Failure:
    def __init__(self, kind, signature, message, case=None, detail=None):
        self.kind = kind              # 'property' | 'correspondence' | 'proof'
        self.signature = signature    # matched against known_findings.json
        self.message = message
        self.case = case
        self.detail = detail


class Check:
    """Subclass per property. Cases are JSON-serialisable dicts."""
    prop = "C00"
    rule = ""
    assumptions = []
    modelled = []          # T5: which code is modelled for this property

    def corpus(self):
        d = CORPUS / self.prop
        out = []
        if d.is_dir():
            for p in sorted(d.glob("*.json")):
                c = json.loads(p.read_text())
                c.setdefault("label", "corpus/" + p.name)
                out.append(c)
        return out

    def generate(self, seed, tier):
        return []

    def widen(self, seed, tier):
        """extra cases for the failing-input search after a broken proof/correspondence"""
        return self.generate(seed + 7919, tier)

    def run_impl(self, case):
        raise NotImplementedError

    def model_input(self, case, impl):
        """driver line (dict) or None when the case has no model counterpart"""
        return None

    def compare(self, case, impl, model):
        """list of human-readable differences on the property-scoped observation"""
        return []

    def oracle(self, case, impl):
        """list of (signature, message): direct violations of the property on the impl trace"""
        return []

    def nontrivial(self, case, impl):
        return False

    def key(self, case, impl):
        return json.dumps(case, sort_keys=True, default=str)

    def sample(self, case, impl):
        return case

    def shrink(self, case, still_fails):
        return case

    def stats(self, case, impl, acc):
        pass


COV = None      # started by check.py before the implementation is imported, so module-level lines count


def start_coverage():
    """line coverage of the implementation while the cases run (reported per anchored file)"""
    if os.environ.get("VERIF_COVERAGE", "1") == "0":
        return None
    try:
        import coverage
        from common import REPO
        cov = coverage.Coverage(data_file=None, include=[str(REPO / "gradysim" / "*")])
        cov.start()
        return cov
    except Exception:
        return None


def stop_coverage(cov, prop):
    if cov is None:
        return None
    try:
        from common import REPO
        cov.stop()
        files = []
        for line in (VERIF / "properties.jsonl").read_text().splitlines():
            if line.strip():
                p = json.loads(line)
                if p["id"] == prop:
                    files = p["anchors"]["files"]
        out = {}
        for f in files:
            path = REPO / f
            if not path.exists():
                continue
            try:
                _, stmts, _, missing, _ = cov.analysis2(str(path))
                out[f] = {"statements": len(stmts), "executed": len(stmts) - len(missing),
                          "percent": round(100.0 * (len(stmts) - len(missing)) / max(1, len(stmts)), 1)}
            except Exception:
                out[f] = {"statements": None, "executed": 0, "percent": 0.0}
        return out
    except Exception:
        return None


def load_known():
    if KNOWN.exists():
        return json.loads(KNOWN.read_text())
    return {"findings": []}


def known_match(prop, signature):
    for f in load_known().get("findings", []):
        if f.get("status") == "known" and f.get("property") == prop and f.get("signature") == signature:
            return f
    return None


def relpath(p):
    try:
        return p.relative_to(VERIF)
    except ValueError:
        return p


def write_replay(prop, name, payload):
    REPLAYS.mkdir(parents=True, exist_ok=True)
    p = REPLAYS / f"{prop}_{name}.json"
    p.write_text(json.dumps(payload, indent=1, default=str))
    return p


class ImplementationFault(Exception):
    """raised by a check whose implementation run happens in a child process, when the child reports that the
    implementation itself failed there (see implementation_fault)"""

    def __init__(self, typ, blame):
        super().__init__(blame)
        self.typ, self.blame = typ, blame


def implementation_fault(e):
    if isinstance(e, ImplementationFault):
        return e.blame
    """does this exception come from the implementation under test (a frame inside the gradysim package, or a
    missing attribute / name of one of its modules, classes or objects)? -> description, else None"""
    tb = traceback.extract_tb(e.__traceback__)
    frames = [f for f in tb if "/gradysim/" in f.filename.replace("\\", "/")]
    desc = f"{type(e).__name__}: {e}"
    if frames:
        f = frames[-1]
        return f"{desc} (raised in {f.filename.split('/gradysim/', 1)[1]}:{f.lineno} {f.name})"
    obj = getattr(e, "obj", None)
    if isinstance(e, AttributeError) and obj is not None:
        mod = getattr(obj, "__module__", None) or getattr(type(obj), "__module__", "") or ""
        name = getattr(obj, "__name__", "")
        if str(mod).startswith("gradysim") or str(name).startswith("gradysim"):
            return f"{desc} (a name of the implementation's public interface is missing)"
    if isinstance(e, ImportError) and "gradysim" in str(getattr(e, "name", "") or e):
        return f"{desc} (the implementation cannot be imported)"
    return None


def evaluate(check, cases, want_model=True):
    """run impl (and model) on the cases; returns list of dict(case, impl, model, diffs, fails)."""
    rows = []
    lines, idx = [], []
    for case in cases:
        try:
            impl = check.run_impl(case)
        except Exception as e:
            blame = implementation_fault(e)
            if blame is None:
                raise                         # a fault of the harness itself: infrastructure error (exit 2)
            # the implementation under test failed where the harness does not expect failures (while importing
            # it, building a scenario, or through a name of its public API that is gone): with this input the
            # property cannot hold - reported as a violation with the input, never as an infrastructure error
            typ = e.typ if isinstance(e, ImplementationFault) else type(e).__name__
            rows.append({"case": case, "impl": None, "model": None, "diffs": [],
                         "fails": [(f"{check.prop}:crash:{typ}", blame)], "impl_crashed": True})
            continue
        row = {"case": case, "impl": impl, "model": None, "diffs": [], "fails": []}
        rows.append(row)
        if want_model:
            mi = check.model_input(case, impl)
            if mi is not None:
                idx.append(len(rows) - 1)
                lines.append(mi)
    if lines:
        outs = run_driver_parallel(lines)
        for i, out in zip(idx, outs):
            rows[i]["model"] = out
    for row in rows:
        if row.get("impl_crashed"):
            continue
        if row["model"] is not None:
            if "error" in row["model"]:
                row["diffs"] = ["model driver error: " + str(row["model"]["error"])]
            else:
                row["diffs"] = check.compare(row["case"], row["impl"], row["model"])
        row["fails"] = check.oracle(row["case"], row["impl"])
    return rows


def main(check: Check, argv=None):
    import argparse
    ap = argparse.ArgumentParser()
    ap.add_argument("--tier", default=os.environ.get("VERIF_TIER", "quick"), choices=["quick", "thorough"])
    ap.add_argument("--replay", default=None)
    args = ap.parse_args(argv)
    seed = seed_from_env()
    t0 = time.time()
    try:
        code = _main(check, args.tier, seed, args.replay, t0)
    except DriverError as e:
        print(f"INFRASTRUCTURE ERROR: {e}", file=sys.stderr)
        code = 2
    except Exception:
        traceback.print_exc()
        code = 2
    sys.exit(code)


def _main(check, tier, seed, replay, t0):
    prop = check.prop
    if replay:
        payload = json.loads(Path(replay).read_text())
        ensure_driver()
        rows = evaluate(check, [payload["case"]])
        row = rows[0]
        print(json.dumps({"replay": replay, "property_failures": row["fails"], "correspondence_diffs": row["diffs"][:10]},
                         indent=1, default=str))
        bad = [f for f in row["fails"] if not known_match(prop, f[0])] or row["diffs"]
        if bad:
            print(f"VIOLATION property={prop} replay={replay}")
            return 1
        return 0

    gate = proofgate.run(prop, tier)
    ensure_driver()
    cases = check.corpus() + list(check.generate(seed, tier))
    # the source differs from the tree the model was audited against (fingerprint.py): not a violation, but a
    # reason to sample deeper before deciding - further generator seeds, implementation and model both run
    src_changed = fingerprint.changed() or []
    deepened = 0
    if src_changed and tier == "quick":
        for k in range(1, int(os.environ.get("VERIF_DEEPEN", "2")) + 1):
            more = list(check.generate(seed + 104729 * k, tier))
            deepened += len(more)
            cases += more
    cov = COV if COV is not None else start_coverage()
    rows = evaluate(check, cases)
    anchored = stop_coverage(cov, prop)

    violations = []        # Failure objects not matched by a known finding
    known_hits = {}
    prop_fail_rows = [r for r in rows if r["fails"]]
    corr_rows = [r for r in rows if r["diffs"]]

    def classify(row):
        for sig, msg in row["fails"]:
            k = known_match(prop, sig)
            if k:
                known_hits.setdefault(sig, (k, msg))
            else:
                violations.append(Failure("property", sig, msg, row["case"], {"impl": row["impl"]}))

    for r in prop_fail_rows:
        classify(r)

    searched = 0
    if not violations and (corr_rows or not gate["ok"]):
        # broken correspondence / proof gate: search the implementation for a failing input
        extra = list(check.widen(seed, tier))
        searched = len(extra)
        for r in evaluate(check, extra, want_model=False):
            if r["fails"]:
                classify(r)
            if violations:
                break

    exit_code = 0
    for sig, (k, msg) in known_hits.items():
        print(f"KNOWN-FINDING: property={prop} {k.get('description', sig)} [{sig}]")
    if violations:
        v = violations[0]
        case = v.case

        def still_fails(c):
            try:
                rr = evaluate(check, [c], want_model=False)[0]
            except Exception:
                return False
            return any(s == v.signature for s, _ in rr["fails"])
        try:
            case = check.shrink(case, still_fails)
        except Exception:
            pass
        p = write_replay(prop, "violation", {"property": prop, "kind": "property-predicate fails on the implementation",
                                              "signature": v.signature, "message": v.message, "case": case})
        print(f"VIOLATION property={prop} replay={relpath(p)}")
        print(f"  {v.signature}: {v.message}")
        exit_code = 1
    elif corr_rows or not gate["ok"]:
        what = {}
        if not gate["ok"]:
            what["proof_gate"] = gate["problems"]
        if corr_rows:
            r = corr_rows[0]
            what["correspondence"] = {"diffs": r["diffs"][:10], "case": r["case"],
                                      "diverging_cases": len(corr_rows), "of": len(rows)}
        what["search"] = f"{searched} further cases searched for a failing input, none found"
        p = write_replay(prop, "unproved", {"property": prop,
                                             "kind": "theorem or correspondence no longer checks", **what,
                                             "case": corr_rows[0]["case"] if corr_rows else None})
        print(f"VIOLATION property={prop} replay={relpath(p)} no-failing-input-found")
        if not gate["ok"]:
            print("  proof gate: " + "; ".join(gate["problems"])[:600])
        if corr_rows:
            print("  correspondence: " + "; ".join(corr_rows[0]["diffs"][:3])[:600])
        exit_code = 1

    # evidence
    acc = {}
    seen, nontrivial = set(), 0
    for r in rows:
        if r.get("impl_crashed"):
            acc["implementation_crashed_outside_a_run"] = acc.get("implementation_crashed_outside_a_run", 0) + 1
            continue
        check.stats(r["case"], r["impl"], acc)
        if check.nontrivial(r["case"], r["impl"]):
            k = check.key(r["case"], r["impl"])
            if k not in seen:
                seen.add(k)
                nontrivial += 1
    samples = [check.sample(r["case"], r["impl"]) for r in rows[:4] if not r.get("impl_crashed")][:2]
    ev = {
        "property_id": prop, "tier": tier, "seed": seed, "level": "proof",
        "coverage": {
            "obligations": gate["obligations"], "discharged": gate["discharged"],
            "checker_cmd": gate["checker_cmd"],
            "trusted_base": TRUSTED_BASE + ["T5 modelled (not verified in place): " + ", ".join(check.modelled)],
            "theorems": gate["axioms"],
            "evaluations": len(rows), "distinct_nontrivial": nontrivial, "rule": check.rule,
            "samples": samples,
            "traces_validated_against_impl": sum(1 for r in rows if r["model"] is not None and not r["diffs"]),
            "correspondence_divergences": len(corr_rows),
            "property_predicate_failures": len(prop_fail_rows),
            "known_findings_reported": sorted(known_hits.keys()),
            "failing_input_search_cases": searched,
            "source_differs_from_audited_tree": src_changed,
            "cases_added_because_source_differs": deepened,
            "input_distribution": acc,
            "anchored_file_line_coverage": anchored,
        },
        "assumptions": check.assumptions,
        "wall_s": round(time.time() - t0, 2),
        "violations": 0 if exit_code == 0 else 1,
    }
    if "leanchecker" in gate:
        ev["coverage"]["leanchecker"] = gate["leanchecker"]
    EVIDENCE.mkdir(parents=True, exist_ok=True)
    (EVIDENCE / f"{prop}.json").write_text(json.dumps(ev, indent=1, default=str) + "\n")
    if exit_code == 0:
        print(f"OK property={prop} tier={tier} seed={seed} theorems={gate['discharged']}/{gate['obligations']} "
              f"cases={len(rows)} nontrivial={nontrivial} wall={ev['wall_s']}s")
    return exit_code
