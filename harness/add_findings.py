"""Append an agent's proposed known-findings entries to known_findings.json, filling commit ids.
usage: add_findings.py <additions.json> SIG=commit [SIG=commit ...]"""
import json
import sys
from pathlib import Path
VERIF = Path(__file__).resolve().parent.parent
kf = json.loads((VERIF / "known_findings.json").read_text())
add = json.loads(Path(sys.argv[1]).read_text())
commits = dict(a.split("=") for a in sys.argv[2:])
have = {(f["property"], f["signature"]) for f in kf["findings"]}
for f in add.get("findings", []):
    if (f["property"], f["signature"]) in have:
        continue
    c = commits.get(f["signature"])
    if f.get("status") == "fixed":
        if not c:
            print("skip (no commit given):", f["signature"])
            continue
        f["commit"] = c
        if "line" in f:
            f["line"] = f["line"].replace("TBD", c)
    kf["findings"].append(f)
    print("added", f["status"], f["signature"])
(VERIF / "known_findings.json").write_text(json.dumps(kf, indent=1) + "\n")
