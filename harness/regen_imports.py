"""Regenerate lean/GradysProofs.lean (imports of every property module) — used after merges."""
from pathlib import Path
LEAN = Path(__file__).resolve().parent.parent / "lean"
mods = sorted(p.stem for p in (LEAN / "GradysProofs" / "Properties").glob("C*.lean"))
lines = [f"import GradysProofs.Properties.{m}" for m in mods] + ["import GradysProofs.RealScalar"]
(LEAN / "GradysProofs.lean").write_text("\n".join(lines) + "\n")
print(mods)
