"""C18 — simulation assertions fail exactly when, and as soon as, they are violated.

REAL simulations (SimulationBuilder, TimerHandler, AssertionHandler and the four public decorators):
1-4 nodes of 2 protocol classes carry boolean attributes that scripted timers flip, so the timeline of
every predicate value after every executed event is known from the script.  Some of the scripted timers
are cancelled (`provider.cancel_timer`) in `initialize` or by an earlier timer of the same node: their
events are still executed (popped, counted as an iteration) but run no protocol callback, so the
predicates keep the value they had - possibly the one established in `initialize`.  Observation: whether
and when FailedAssertionException escapes `start_simulation` / `step_simulation`, how many events had
been taken from the event loop by then (read through a user-written handler that is handed the loop by
the public `inject`), which protocol callbacks had run, and whether the protocols' `finish` had run
(failure at finalisation vs interruption).

Two further usage shapes of the public API (the property speaks of "the run" and of "simulation assertions",
not of one particular way of installing them):
 * the assertions are bundled in a user's subclass of AssertionHandler (own constructor, intermediate base
   class, extra reporting around register_node / finalize / the after-step hook via super()) - `handler`;
 * a batch: the SAME decorated assertions (and protocol classes) are handed to the AssertionHandlers of
   several simulations with their own node populations and scripts - built and run one after the other, all
   built before the first is run, or stepped side by side (`sims`, `plan`).  Each run is judged by its own
   timeline alone.
"""
import copy
import json
import random

import framework
from common import TICK, stable_hash
from framework import Check
from simimpl import quiet_logging

from gradysim.protocol.interface import IProtocol
from gradysim.simulator.handler.assertion import (AssertionHandler, FailedAssertionException,
                                                  assert_always_true_for_protocol,
                                                  assert_eventually_true_for_protocol,
                                                  assert_always_true_for_simulation,
                                                  assert_eventually_true_for_simulation)
from gradysim.simulator.handler.interface import INodeHandler
from gradysim.simulator.handler.timer import TimerHandler
from gradysim.simulator.simulation import SimulationBuilder, SimulationConfiguration

F18_SIGNATURE = "C18:eventually-proto-zero-events"
ATTRS = ["a", "b"]
SIM_FNS = ["any", "all", "two"]


# protocol classes, as tags: 0 = P0, 1 = P1 (two concrete roles), 2 = P2, a role derived from P0; 3 = the roles'
# common base protocol, 4 = IProtocol itself.  Nodes run 0..2; an assertion may be stated for any of the five.
NODE_CLASSES = [0, 1, 2]
BASE, IPROTO = 3, 4
SUB = [[0, BASE], [0, IPROTO], [1, BASE], [1, IPROTO], [2, 0], [2, BASE], [2, IPROTO], [BASE, IPROTO]]


def is_a(cls, T):
    """isinstance: a node whose protocol is of class `cls` is a node of the stated protocol type `T`"""
    return cls == T or [cls, T] in SUB


def sim_fn(fn, values):
    if fn == "any":
        return any(values)
    if fn == "all":
        return all(values)
    return sum(1 for v in values if v) >= 2


def schedule(case):
    """the scripted events in execution order: by time, ties in scheduling order (nodes initialise in
    id order, each node sets its timers in script order)"""
    evs = [(ev[0], ev[1], k) for k, ev in enumerate(case["events"])]
    evs.sort()
    return [k for _, _, k in evs]


def run_length(case):
    n = len(case["events"])
    return n if case.get("maxIter") is None else min(n, case["maxIter"])


def cancelled_by(ev):
    """optional 5th field of an event: None = never cancelled, "init" = cancelled in `initialize` right after
    being set, j = cancelled by the callback of event j (same node) - which has an effect only when that
    callback really runs before this event does"""
    return ev[4] if len(ev) > 4 else None


def execution(case):
    """the executed events in order: [(event index, whether its protocol callback runs)]; a cancelled timer's
    event is executed all the same, without a callback"""
    events = case["events"]
    cancelled = {k for k, ev in enumerate(events) if cancelled_by(ev) == "init"}
    done, out = set(), []
    for k in schedule(case)[:run_length(case)]:
        runs = k not in cancelled
        if runs:
            for k2, ev2 in enumerate(events):
                if cancelled_by(ev2) == k and k2 != k and ev2[1] == events[k][1] and k2 not in done:
                    cancelled.add(k2)
        done.add(k)
        out.append((k, runs))
    return out


def timeline(case):
    """attribute values of every node after each executed event: [ {attr: [value per node]} per iteration ]"""
    state = [dict(s) for s in case["init"]]
    out = []
    for k, runs in execution(case):
        node, attr, value = case["events"][k][1:4]
        if runs and attr is not None:
            state[node][attr] = value
        out.append({a: [s[a] for s in state] for a in ATTRS})
    return out


def sims_of(case):
    """the simulations of a case: a batch lists them under "sims" (they share case["specs"]), a single
    simulation is the case itself"""
    return case["sims"] if "sims" in case else [case]


HANDLERS = ["plain", "own-constructor", "intermediate-base", "reporting", "hook-wrapping"]
PLANS = ["sequential", "build-first", "interleaved"]


def pred_tables(sim, specs):
    """per assertion: its predicate's value after every executed event (per node for protocol-scoped)"""
    tl = timeline(sim)
    out = []
    for sp in specs:
        if sp["kind"].endswith("Proto"):
            out.append([row[sp["attr"]] for row in tl])
        else:
            out.append([sim_fn(sp["fn"], row[sp["attr"]]) for row in tl])
    return out


class Rec:
    """what one simulation of the case did"""
    def __init__(self, sim):
        self.case = sim
        self.scheduled = 0
        self.delivered = []  # indices of the events whose protocol callback ran, in order
        self.finished = 0
        self.seen = []       # (assertion index, node id | None, events executed so far, value)
        self.loop = None

    @property
    def executed(self):
        """events taken from the event loop so far (all of them are scheduled in `initialize`)"""
        return self.scheduled - len(self.loop)


def make_probe(rec):
    """a user-written handler: the public `inject` hands it the simulation's event loop, whose public `len`
    tells how many scheduled events have not been executed yet; the public `register_node` hands it every node
    of its simulation, whose protocol it tells which simulation's script to play (the protocol classes and the
    decorated assertions of a batch are shared by its simulations)"""
    class Probe(INodeHandler):
        @staticmethod
        def get_label():
            return "c18probe"

        def inject(self, event_loop):
            rec.loop = event_loop

        def register_node(self, node):
            node.protocol_encapsulator.protocol.rec = rec

    return Probe()


def make_protocols():
    class Base(IProtocol):
        rec = None

        def initialize(self):
            rec = self.rec
            n = self.provider.get_id()
            for a in ATTRS:
                setattr(self, a, rec.case["init"][n][a])
            for k, ev in enumerate(rec.case["events"]):
                if ev[1] == n:
                    self.provider.schedule_timer(f"e{k}", ev[0] / TICK)
                    rec.scheduled += 1
                    if cancelled_by(ev) == "init":
                        self.provider.cancel_timer(f"e{k}")

        def handle_timer(self, timer):
            rec = self.rec
            j = int(timer[1:])
            ev = rec.case["events"][j]
            if ev[2] is not None:
                setattr(self, ev[2], ev[3])
            rec.delivered.append(j)
            for k, ev2 in enumerate(rec.case["events"]):
                if cancelled_by(ev2) == j and k != j and ev2[1] == ev[1]:
                    self.provider.cancel_timer(f"e{k}")

        def handle_packet(self, message):
            pass

        def handle_telemetry(self, telemetry):
            pass

        def finish(self):
            self.rec.finished += 1

    class P0(Base):
        pass

    class P1(Base):
        pass

    class P2(P0):
        """a role derived from another role: its nodes are nodes of protocol type P0 as well"""

    return [P0, P1, P2, Base, IProtocol]


def make_assertion(idx, sp, classes):
    """one decorated assertion - the object a user would define at module level and hand to the
    AssertionHandler of every simulation that wants it"""
    kind = sp["kind"]
    if kind.endswith("Proto"):
        def pred(node):
            protocol = node.protocol_encapsulator.protocol
            v = bool(getattr(protocol, sp["attr"]))
            protocol.rec.seen.append((idx, node.id, protocol.rec.executed, v))
            return v
        deco = assert_always_true_for_protocol if kind == "alwaysProto" else assert_eventually_true_for_protocol
        return deco(classes[sp["T"]], f"assertion{idx}")(pred)

    def pred_sim(nodes):
        v = sim_fn(sp["fn"], [bool(getattr(n.protocol_encapsulator.protocol, sp["attr"])) for n in nodes])
        rec = nodes[0].protocol_encapsulator.protocol.rec
        rec.seen.append((idx, None, rec.executed, v))
        return v
    deco = assert_always_true_for_simulation if kind == "alwaysSim" else assert_eventually_true_for_simulation
    return deco(f"assertion{idx}")(pred_sim)


def make_handler(kind, assertions):
    """the assertion handler as a user would install it: AssertionHandler itself, or the user's own class
    derived from it through the public constructor / hooks only"""
    if kind == "plain":
        return AssertionHandler(assertions)
    if kind == "own-constructor":
        class ProjectAssertions(AssertionHandler):
            """a project's bundle of assertions with its own constructor"""
            def __init__(self, title, checks):
                super().__init__(checks)
                self.title = title

        return ProjectAssertions("c18", assertions)
    if kind == "intermediate-base":
        class TitledAssertions(AssertionHandler):
            title = "untitled"

            def describe(self):
                return self.title

        class ScenarioAssertions(TitledAssertions):
            title = "scenario"

            def __init__(self):
                super().__init__(list(assertions))

        return ScenarioAssertions()
    if kind == "reporting":
        class ReportingAssertions(AssertionHandler):
            """extra reporting around registration and finalisation; the per-step hook is the inherited one"""
            def __init__(self, checks):
                super().__init__(checks)
                self.registered, self.finalized = 0, False

            def register_node(self, node):
                self.registered += 1
                super().register_node(node)

            def finalize(self):
                try:
                    super().finalize()
                finally:
                    self.finalized = True

        return ReportingAssertions(assertions)
    if kind == "hook-wrapping":
        class CountingAssertions(AssertionHandler):
            """counts the judged steps, then lets the inherited hook judge"""
            judged = 0

            def after_simulation_step(self, iteration, timestamp):
                self.judged += 1
                super().after_simulation_step(iteration, timestamp)

        return CountingAssertions(assertions)
    raise ValueError(kind)


class Run:
    """one simulation of the case: built, then driven to its end in one go or step by step"""
    def __init__(self, sim, assertions, classes, handler_kind):
        self.sim, self.assertions, self.classes, self.handler_kind = sim, assertions, classes, handler_kind
        self.rec = Rec(sim)
        self.sim_obj, self.exc, self.steps, self.over = None, None, 0, False

    def build(self):
        sim = self.sim
        # observation options of the public configuration (profiling report, debug logging, execution logging):
        # they change what is logged, never what the run does
        opts = {"execution_logging": False}
        opts.update(sim.get("options") or {})
        conf = SimulationConfiguration(max_iterations=sim.get("maxIter"), **opts)
        builder = SimulationBuilder(conf)
        handlers = {"assertion": make_handler(self.handler_kind, self.assertions), "timer": TimerHandler()}
        for label in (["assertion", "timer"] if sim.get("order", "assertion-first") == "assertion-first"
                      else ["timer", "assertion"]):
            builder.add_handler(handlers[label])
        builder.add_handler(make_probe(self.rec))
        for t in sim["ptypes"]:
            builder.add_node(self.classes[t], (0.0, 0.0, 0.0))
        self.sim_obj = builder.build()
        quiet_logging()

    def guarded(self, action):
        """runs the action; an exception ends this run (manual stepping stops at the first exception)"""
        try:
            return action()
        except FailedAssertionException:
            self.exc = "FailedAssertionException"
        except Exception as e:        # anything else is a crash
            self.exc = "crash:" + type(e).__name__
        finally:
            quiet_logging()
        self.over = True
        return False

    def step(self):
        """one step_simulation; False when this run is over"""
        if self.over or self.steps >= len(self.sim["events"]) + 5:
            self.over = True
            return False
        self.steps += 1
        if not self.guarded(self.sim_obj.step_simulation):
            self.over = True
        return not self.over

    def finish_run(self, mode):
        if self.over:
            return
        if mode == "start":
            self.guarded(self.sim_obj.start_simulation)
            self.over = True
        else:
            while self.step():
                pass

    def result(self):
        rec, n = self.rec, len(self.sim["ptypes"])
        if self.exc is None:
            verdict = "passed"
        elif self.exc == "FailedAssertionException":
            verdict = "failedAtEnd" if rec.finished == n else ["failedAfter", rec.executed - 1]
        else:
            verdict = self.exc
        return {"verdict": verdict, "executed": rec.executed, "delivered": rec.delivered, "finished": rec.finished,
                "steps": self.steps, "seen": rec.seen}


def run_real(case):
    sims = sims_of(case)
    classes = make_protocols()
    assertions = [make_assertion(i, sp, classes) for i, sp in enumerate(case["specs"])]
    runs = [Run(sim, assertions, classes, case.get("handler", "plain")) for sim in sims]
    plan = case.get("plan", "sequential")
    if plan == "sequential":
        for run in runs:
            run.build()
            run.finish_run(run.sim["drive"]["mode"])
    else:
        for run in runs:
            run.build()
        if plan == "interleaved":
            # stepped side by side: the scripted turns first, then whatever is left, in order
            for k in case.get("turns", []):
                runs[k % len(runs)].step()
            for run in runs:
                run.finish_run("steps")
        else:
            order = case.get("runOrder") or list(range(len(runs)))
            for k in order:
                runs[k].finish_run(runs[k].sim["drive"]["mode"])
            for run in runs:
                run.finish_run(run.sim["drive"]["mode"])
    return {"runs": [run.result() for run in runs]}


class C18(Check):
    prop = "C18"
    level_text = ("Theorems for every list of assertions on one AssertionHandler, every set of nodes and protocol types, every "
                  "timeline of predicate values and every run length: the run is interrupted exactly at the least iteration "
                  "after which an always-assertion is violated and executes nothing afterwards; it fails at finalisation "
                  "exactly when it was not interrupted and some eventually-assertion was never met; the zero-event gap of the "
                  "pinned per-node bookkeeping (F18) is a proved negative instance and the repaired bookkeeping is proved at "
                  "full strength. Tied to the real AssertionHandler inside real simulations by differential execution "
                  "(every simulation of a batch sharing its decorated assertions against its own model run).")
    rule = ("real simulations with a TimerHandler and an AssertionHandler holding 1-3 assertions of the four decorator kinds; "
            "1-4 nodes of 2 protocol classes (in a third of the cases 3 classes in a hierarchy: a role derived from "
            "another role, with the protocol-scoped assertions stated for the roles' common base protocol, for "
            "IProtocol itself or for the role that has a derived one - the deciding node mostly of a derived class) "
            "whose boolean attributes are flipped by scripted timers (0-7 events, ties, noise "
            "events, max_iterations cuts incl. 0); in half of the runs timers are cancelled in initialize or by an earlier "
            "timer of the same node (the leading events, all events, random ones) so that executed events run no protocol "
            "callback, with always-predicates false and eventually-predicates true from initialize on (and taken back by a "
            "later event), so that the deciding event is a cancelled timer's; the first always-violation placed at every position 0..last or nowhere, on "
            "the last node of the asserted type, with nodes of the other type violating from the start; eventually-predicates "
            "met at a chosen position, after the cut, or never, per node; zero-event runs; start_simulation and manual "
            "stepping; both handler registration orders; 45% of the simulations run with observation options of "
            "SimulationConfiguration switched on (profile=True, debug=True, execution_logging=True, alone or combined); in half of the cases the assertions are installed through a "
            "user-defined class derived from AssertionHandler (own constructor / intermediate base class / reporting around "
            "register_node and finalize / after-step hook wrapped via super()); besides the single simulations, batches of "
            "2-3 simulations that are handed the SAME decorated assertions and protocol classes, with unrelated, shrinking, "
            "growing, re-typed or equal node populations, each with its own script, run one after the other, all built "
            "before any is run (any order) or stepped side by side, every run judged by its own timeline (mostly "
            "eventually-assertions, so that runs which pass, fail at the end and leave unmet node ids meet); "
            "non-trivial = both protocol types present and the deciding node is the last node of the asserted type")
    assumptions = ["'node of the stated protocol type' is the instance-of relation: a node whose protocol class derives from "
                   "the stated type is a node of that type (as for every Python type annotation / isinstance)",
                   "predicates are judged after each executed event (never before the first)",
                   "same-instant timers run in scheduling order (C03) - used only to script the timeline",
                   "manual stepping stops at the first exception (the blocking-run reading of 'no further event')",
                   "the event of a cancelled timer is an executed event (it is taken from the event loop and counted as an "
                   "iteration, C02) that runs no protocol callback - checked on every run against the callbacks that ran",
                   "executed events are counted as scheduled events no longer in the event loop, read by a user-written "
                   "handler through the public inject()/len()",
                   "'the run' is the run of one simulation: a decorated assertion handed to several AssertionHandlers is "
                   "judged in each simulation by that simulation's executed events and nodes only",
                   "a class derived from AssertionHandler that keeps (or extends through super()) the inherited hooks is "
                   "still the simulation's assertion handler"]
    modelled = ["gradysim/simulator/handler/assertion.py",
                "gradysim/simulator/simulation.py (after-step fan-out, finalisation, exception propagation)"]

    # the committed disposition of F18 decides which bookkeeping the model mirrors: listed as `known`
    # -> the pinned lazy dictionary; otherwise (repaired) -> filled at registration
    def eager(self):
        return framework.known_match("C18", F18_SIGNATURE) is None

    # ---- generation
    def generate(self, seed, tier):
        n = 2500 if tier == "quick" else 40000
        for i in range(n):
            yield self.gen_case(stable_hash("C18", seed, i), i, f"gen/{seed}/{i}")
        m = 700 if tier == "quick" else 12000
        for i in range(m):
            yield self.gen_batch(stable_hash("C18", "batch", seed, i), i, f"batch/{seed}/{i}")

    @staticmethod
    def gen_hier_specs(rh, specs):
        """protocol-scoped assertions stated for a base type: the roles' common base protocol, IProtocol itself
        (= every node), or left at P0 (whose nodes include those of the derived role P2)"""
        for sp in specs:
            if sp["kind"].endswith("Proto"):
                m = rh.random()
                if m < 0.4:
                    sp["T"] = BASE
                elif m < 0.55:
                    sp["T"] = IPROTO
                elif m < 0.8:
                    sp["T"] = 0

    def gen_case(self, s, i, label, specs=None, ptypes=None, hier=None):
        """one simulation; `specs` / `ptypes` given = a member of a batch, scripted against the batch's shared
        assertions and with the population the batch wants (`hier`: the batch's decision about class hierarchies)"""
        r = random.Random(s)
        nn = r.choice([1, 2, 2, 3, 3, 4, 4])
        own_ptypes = [r.randint(0, 1) for _ in range(nn)]
        if nn >= 2 and r.random() < 0.7:
            own_ptypes[r.randrange(nn)] = 0
            others = [k for k in range(nn) if own_ptypes[k] != 0] or [r.randrange(nn)]
            own_ptypes[r.choice(others)] = 1
        if ptypes is None:
            ptypes = own_ptypes
        else:
            ptypes, nn = list(ptypes), len(ptypes)
        L = r.choice([0, 0, 1, 2, 3, 4, 5, 6, 7])
        times, t = [], 0
        for _ in range(L):
            t += r.choice([0, 512, 1024, 1024, 2048])
            times.append(t)
        events = [[times[k], r.randrange(nn), None, None] for k in range(L)]
        init = [{"a": True, "b": False} for _ in range(nn)]
        member = specs is not None
        if not member:
            specs = []
            for _ in range(r.choice([1, 1, 2, 2, 3])):
                kind = r.choice(["alwaysProto", "alwaysProto", "eventuallyProto", "eventuallyProto", "alwaysSim", "eventuallySim"])
                attr = "a" if kind.startswith("always") else "b"
                if kind.endswith("Proto"):
                    specs.append({"kind": kind, "T": r.randint(0, 1), "attr": attr})
                else:
                    specs.append({"kind": kind, "fn": r.choice(SIM_FNS), "attr": attr})
        # (own random stream)  a third of the cases have a class hierarchy among the protocols: some nodes run a role
        # derived from P0, and the protocol-scoped assertions are mostly stated for a base type
        rh = random.Random(stable_hash("C18", "hier", s))
        if hier is None:
            hier = rh.random() < 0.35
        if hier:
            ptypes = [2 if t == 0 and rh.random() < 0.5 else t for t in ptypes]
            if not member:
                self.gen_hier_specs(rh, specs)
        # script the attributes: 'a' carries the always-predicates, 'b' the eventually-predicates
        T = next((sp["T"] for sp in specs if sp["kind"] == "alwaysProto"), r.randint(0, 1))
        of_T = [k for k in range(nn) if is_a(ptypes[k], T)]
        for k in range(nn):
            if not is_a(ptypes[k], T) and r.random() < 0.5:
                init[k]["a"] = False            # the OTHER type violates from the start: must not matter
        pos = r.choice([None] + list(range(L))) if L else None
        if pos is not None and of_T:
            victim = of_T[-1] if r.random() < 0.7 else r.choice(of_T)
            # the flip runs on the victim itself (a timer sets its own node's attribute)
            events[pos] = [times[pos], victim, "a", False]
            if pos + 1 < L and r.random() < 0.4:
                events[pos + 1] = [times[pos + 1], victim, "a", True]      # recovers: 'first' matters
        E = next((sp["T"] for sp in specs if sp["kind"] == "eventuallyProto"), r.randint(0, 1))
        of_E = [k for k in range(nn) if is_a(ptypes[k], E)]
        free = [k for k in range(L) if events[k][2] is None]
        r.shuffle(free)
        mode = r.choice(["all", "all-but-last", "none", "other-type-only", "random"])
        for k in range(nn):
            if not free:
                break
            if (mode == "all" and k in of_E) or (mode == "all-but-last" and k in of_E[:-1]) or \
                    (mode == "other-type-only" and k not in of_E) or (mode == "random" and r.random() < 0.5):
                slot = free.pop()
                events[slot] = [times[slot], k, "b", True]
                if free and r.random() < 0.25:
                    slot2 = free.pop()
                    if slot2 > slot:
                        events[slot2] = [times[slot2], k, "b", False]    # true once is enough
        if r.random() < 0.12 and nn:
            init[r.randrange(nn)]["b"] = True      # true before the first event only: does not count ...
            # ... unless it is still true after the first executed event, which the script decides
        max_iter = r.choice([None, None, None, 0, 1, 2, 3, 5])
        self.gen_stale(random.Random(stable_hash("C18", "stale", s)), ptypes, init, events, of_T, of_E)
        sim = {"ptypes": ptypes, "init": init, "events": events, "order": r.choice(["assertion-first", "timer-first"]),
               "maxIter": max_iter, "drive": {"mode": r.choice(["start", "steps"])}}
        options = self.gen_options(s)
        if options:
            sim["options"] = options
        if member:
            return sim
        return {"kind": "assertions", "seed": s, "label": label, "specs": specs, "handler": self.gen_handler(s), **sim}

    @staticmethod
    def gen_options(s):
        """(own random stream)  observation options of SimulationConfiguration: 45% of the simulations run with
        some of profile=True / debug=True / execution_logging=True (the harness default is execution_logging=False)"""
        r = random.Random(stable_hash("C18", "options", s))
        if r.random() < 0.55:
            return None
        options = {}
        if r.random() < 0.6:
            options["profile"] = True
        if r.random() < 0.35:
            options["debug"] = True
        if r.random() < 0.4:
            options["execution_logging"] = True
        return options or {"profile": True}

    @staticmethod
    def gen_handler(s):
        """(own random stream)  how the user installs the assertions: half of the time AssertionHandler itself,
        else one of the user-defined classes derived from it"""
        r = random.Random(stable_hash("C18", "handler", s))
        return "plain" if r.random() < 0.5 else r.choice(HANDLERS[1:])

    def gen_batch(self, s, i, label):
        """2-3 simulations that are handed the same decorated assertions: populations that are unrelated, shrink
        (the later simulation lacks ids the earlier one had), keep their size with ids changing type, or stay the
        same; run one after the other, all built before any is run (in any order), or stepped side by side"""
        r = random.Random(s)
        specs = []
        for _ in range(r.choice([1, 1, 2, 2, 3])):
            kind = r.choice(["eventuallyProto"] * 5 + ["eventuallySim", "eventuallySim", "alwaysProto", "alwaysSim"])
            attr = "a" if kind.startswith("always") else "b"
            if kind.endswith("Proto"):
                specs.append({"kind": kind, "T": r.randint(0, 1), "attr": attr})
            else:
                specs.append({"kind": kind, "fn": r.choice(SIM_FNS), "attr": attr})
        rh = random.Random(stable_hash("C18", "hier-batch", s))
        hier = rh.random() < 0.3
        if hier:
            self.gen_hier_specs(rh, specs)
        count = r.choice([2, 2, 2, 3])
        shape = r.choice(["free", "shrinking", "shrinking", "retyped", "same", "growing"])
        sims, ptypes = [], None
        for j in range(count):
            if j > 0 and shape != "free":
                prev = sims[-1]["ptypes"]
                if shape == "shrinking":
                    ptypes = prev[:max(1, len(prev) - r.randint(1, 2))]
                elif shape == "growing":
                    ptypes = (prev + [r.randint(0, 1), r.randint(0, 1)])[:min(4, len(prev) + r.randint(1, 2))]
                elif shape == "retyped":
                    ptypes = [1 - min(t, 1) if r.random() < 0.5 else t for t in prev]
                else:
                    ptypes = list(prev)
            sims.append(self.gen_case(stable_hash("C18", "member", s, j), i, label, specs=specs, ptypes=ptypes, hier=hier))
        plan = r.choice(["sequential", "build-first", "build-first", "interleaved", "interleaved"])
        case = {"kind": "assertions", "seed": s, "label": label, "specs": specs, "handler": self.gen_handler(s),
                "plan": plan, "sims": sims}
        if plan == "build-first":
            order = list(range(count))
            r.shuffle(order)
            case["runOrder"] = order
        elif plan == "interleaved":
            total = sum(len(sim["events"]) + 1 for sim in sims)
            case["turns"] = [r.randrange(count) for _ in range(r.randint(0, total))]
        return case

    @staticmethod
    def gen_stale(r, ptypes, init, events, of_T, of_E):
        """(own random stream, the rest of the case is unchanged by it)  Half of the cases get cancelled timers -
        executed events that run no protocol callback - and predicates whose decisive value is the one set in
        `initialize`: then the first event after which an always-predicate is false, or the only events after
        which an eventually-predicate is true, may be such silent events."""
        L, nn = len(events), len(ptypes)
        if r.random() < 0.5:
            return
        # the decisive values are there before the first event
        if of_T and r.random() < 0.5:
            init[of_T[-1] if r.random() < 0.7 else r.choice(of_T)]["a"] = False
        if r.random() < 0.5:
            for k in (of_E if r.random() < 0.6 else range(nn)):
                if r.random() < 0.85:
                    init[k]["b"] = True
            free = [k for k in range(L) if events[k][2] is None]
            if free and r.random() < 0.5:
                # ... and one of them is taken back by an event: true after the events before that one only
                slot = r.choice(free)
                events[slot][1:4] = [r.choice(of_E) if of_E else r.randrange(nn), "b", False]
        # cancelled timers
        order = [k for _, _, k in sorted((ev[0], ev[1], k) for k, ev in enumerate(events))]
        pattern = r.choice(["front", "front", "all", "random", "by-earlier", "none"])
        if L and pattern == "front":
            for k in order[:r.randint(1, L)]:
                events[k].append("init")
        elif L and pattern == "all":
            for ev in events:
                ev.append("init")
        elif L and pattern in ("random", "by-earlier"):
            for pos, k in enumerate(order):
                if r.random() < 0.45:
                    earlier = [j for j in order[:pos] if events[j][1] == events[k][1]]
                    if earlier and (pattern == "by-earlier" or r.random() < 0.5):
                        events[k].append(r.choice(earlier))
                    elif pattern == "random":
                        events[k].append("init")

    def widen(self, seed, tier):
        for i in range(1500):
            yield self.gen_case(stable_hash("C18", "widen", seed, i), i, f"widen/{seed}/{i}")
        for i in range(500):
            yield self.gen_batch(stable_hash("C18", "widen-batch", seed, i), i, f"widen-batch/{seed}/{i}")

    # ---- implementation / model
    def run_impl(self, case):
        return run_real(case)

    def model_input(self, case, impl):
        runs = []
        for sim in sims_of(case):
            specs = []
            for sp, tab in zip(case["specs"], pred_tables(sim, case["specs"])):
                d = {"kind": sp["kind"], "pred": tab}
                if sp["kind"].endswith("Proto"):
                    d["T"] = sp["T"]
                specs.append(d)
            runs.append({"n": len(sim["ptypes"]), "ptypes": sim["ptypes"], "sub": SUB, "N": run_length(sim),
                         "eager": self.eager(), "specs": specs})
        return {"kind": "assertion", "runs": runs}

    @staticmethod
    def where(case, k):
        return f"simulation {k} of the batch ({case.get('plan', 'sequential')}): " if "sims" in case else ""

    def compare(self, case, impl, model):
        diffs = []
        for k, (sim, obs, mod) in enumerate(zip(sims_of(case), impl["runs"], model["runs"])):
            diffs += [self.where(case, k) + d for d in self.compare_run(sim, case["specs"], obs, mod)]
        return diffs

    @staticmethod
    def compare_run(sim, specs, impl, model):
        diffs = []
        if impl["verdict"] != model["verdict"] or impl["executed"] != model["executed"]:
            diffs.append(f"implementation: verdict {impl['verdict']} after {impl['executed']} events / model: "
                         f"{model['verdict']} after {model['executed']}")
        # the protocol callbacks that ran are those of the script: cancelled timers are executed without one
        want_delivered = [k for k, runs in execution(sim)[:impl["executed"]] if runs]
        if impl["delivered"] != want_delivered:
            diffs.append(f"protocol callbacks ran for events {impl['delivered']}; the script says {want_delivered} "
                         f"within the {impl['executed']} executed events")
        # the scripted timeline is what the real predicates saw
        tables = pred_tables(sim, specs)
        for idx, node, executed, value in impl["seen"]:
            i = executed - 1
            try:
                want = tables[idx][i] if node is None else tables[idx][i][node]
            except IndexError:
                want = None
            if i < 0 or want != value:
                diffs.append(f"assertion {idx} evaluated on node {node} after {executed} events saw {value}; the script says {want}")
                break
        return diffs

    # ---- the property, read directly (every simulation by its own timeline)
    @staticmethod
    def expectation(sim, specs):
        N = run_length(sim)
        tables = pred_tables(sim, specs)
        ptypes = sim["ptypes"]

        def violated(sp, tab, i):
            if sp["kind"] == "alwaysProto":
                return any(is_a(ptypes[k], sp["T"]) and not tab[i][k] for k in range(len(ptypes)))
            if sp["kind"] == "alwaysSim":
                return not tab[i]
            return False

        first = next((i for i in range(N) if any(violated(sp, tab, i) for sp, tab in zip(specs, tables))), None)
        never = []
        for sp, tab in zip(specs, tables):
            if sp["kind"] == "eventuallySim" and not any(tab[i] for i in range(N)):
                never.append(sp)
            if sp["kind"] == "eventuallyProto" and any(
                    is_a(ptypes[k], sp["T"]) and not any(tab[i][k] for i in range(N)) for k in range(len(ptypes))):
                never.append(sp)
        return N, first, never

    def oracle(self, case, impl):
        fails = []
        for k, (sim, obs) in enumerate(zip(sims_of(case), impl["runs"])):
            fails += [(sig, self.where(case, k) + msg) for sig, msg in self.oracle_run(sim, case["specs"], obs)]
        return fails

    def oracle_run(self, sim, specs, impl):
        fails = []
        N, first, never = self.expectation(sim, specs)
        v, ex = impl["verdict"], impl["executed"]
        if isinstance(v, str) and v.startswith("crash:"):
            return [("C18:" + v, f"the run aborted with {v[6:]}")]
        if first is not None:
            if v in ("passed", "failedAtEnd"):
                fails.append(("C18:always-missed", f"an always-assertion is violated after the event of iteration {first}; "
                              f"the run was not interrupted (verdict {v}, {ex} events)"))
            elif v[1] > first:
                fails.append(("C18:always-late", f"first violation after iteration {first}, interrupted only after {v[1]}"))
            elif v[1] < first:
                fails.append(("C18:spurious-failure", f"interrupted after iteration {v[1]}; the first violation is at {first}"))
            elif ex != first + 1:
                fails.append(("C18:event-after-failure", f"failure at iteration {first} but {ex} events executed"))
            return fails
        if isinstance(v, list):
            fails.append(("C18:spurious-failure", f"interrupted after iteration {v[1]} although no always-assertion is "
                          f"violated after any of the {N} executed events"))
            return fails
        if ex != N:
            fails.append(("C18:event-count", f"{ex} events executed, the run has {N}"))
        if never and v == "passed":
            if N == 0 and all(sp["kind"] == "eventuallyProto" for sp in never):
                fails.append((F18_SIGNATURE, "zero executed events, a node of the asserted type, the predicate was never "
                              "true after any executed event - the protocol-scoped eventually-assertion passes "
                              "(the simulation-scoped one fails)"))
            else:
                fails.append(("C18:eventually-missed", f"{[sp['kind'] for sp in never]} never met in {N} events but the run passed"))
        if not never and v == "failedAtEnd":
            fails.append(("C18:spurious-failure", f"failed at finalisation although every eventually-assertion was met "
                          f"within the {N} executed events"))
        return fails

    # ---- bookkeeping
    def nontrivial(self, case, impl):
        return any(self.nontrivial_run(sim, case["specs"]) for sim in sims_of(case))

    def nontrivial_run(self, sim, specs):
        ptypes = sim["ptypes"]
        if len(set(ptypes)) < 2:
            return False
        N, first, never = self.expectation(sim, specs)
        tables = pred_tables(sim, specs)
        if first is not None:
            for sp, tab in zip(specs, tables):
                if sp["kind"] == "alwaysProto":
                    bad = [k for k in range(len(ptypes)) if is_a(ptypes[k], sp["T"]) and not tab[first][k]]
                    last = max((k for k in range(len(ptypes)) if is_a(ptypes[k], sp["T"])), default=None)
                    if bad and bad == [last]:
                        return True
            return False
        for sp, tab in zip(specs, tables):
            if sp in never and sp["kind"] == "eventuallyProto":
                of = [k for k in range(len(ptypes)) if is_a(ptypes[k], sp["T"])]
                missing = [k for k in of if not any(tab[i][k] for i in range(N))]
                if of and missing == [of[-1]] and N > 0:
                    return True
        return False

    def key(self, case, impl):
        sims = sims_of(case)
        return json.dumps([[sim["ptypes"] for sim in sims], case["specs"], [pred_tables(sim, case["specs"]) for sim in sims],
                           [obs["verdict"] for obs in impl["runs"]], case.get("plan") if len(sims) > 1 else None],
                          sort_keys=True)

    def sample(self, case, impl):
        sims = sims_of(case)
        out = {"label": case.get("label"), "specs": case["specs"], "handler": case.get("handler", "plain"),
               "verdicts": [obs["verdict"] for obs in impl["runs"]], "executed": [obs["executed"] for obs in impl["runs"]]}
        if "sims" in case:
            out.update({"plan": case.get("plan"), "sims": [{"ptypes": sim["ptypes"], "events": sim["events"],
                                                            "maxIter": sim.get("maxIter"),
                                                            "options": sim.get("options")} for sim in sims]})
        else:
            out.update({"ptypes": case["ptypes"], "events": case["events"], "maxIter": case.get("maxIter"),
                        "drive": case["drive"], "options": case.get("options")})
        return out

    def stats(self, case, impl, acc):
        def count(name):
            acc[name] = acc.get(name, 0) + 1
        count("cases")
        count("handler_" + case.get("handler", "plain"))
        sims, specs = sims_of(case), case["specs"]
        if "sims" in case:
            count("batches")
            count("batch_plan_" + case.get("plan", "sequential"))
            expected = [self.expectation(sim, specs) for sim in sims]
            outcomes = {"interrupted" if first is not None else "failedAtEnd" if never else "passed"
                        for _, first, never in expected}
            if len(outcomes) > 1:
                count("batch_with_different_outcomes")
            if any(a["ptypes"] != b["ptypes"] for a, b in zip(sims, sims[1:])):
                count("batch_with_different_populations")
            if any(sp["kind"] == "eventuallyProto" for sp in specs):
                count("batch_sharing_eventually_for_protocol")
                if self.unmet_id_absent_elsewhere(sims, specs):
                    count("batch_unmet_node_id_absent_or_other_type_in_another_simulation")
                if case.get("plan", "sequential") != "sequential" and self.met_in_one_unmet_in_other(sims, specs):
                    count("batch_overlapping_node_id_met_in_one_simulation_only")
        for sim, obs in zip(sims, impl["runs"]):
            self.stats_run(sim, specs, obs, acc)

    def unmet_id_absent_elsewhere(self, sims, specs):
        """a node id whose protocol-scoped eventually-predicate is never met in one simulation is no node of the
        asserted type in another simulation of the batch, where everything is met"""
        for sp, tabs in ((sp, [pred_tables(sim, [sp])[0] for sim in sims]) for sp in specs if sp["kind"] == "eventuallyProto"):
            met = [{k for k, t in enumerate(sim["ptypes"]) if is_a(t, sp["T"]) and any(tab[i][k] for i in range(run_length(sim)))}
                   for sim, tab in zip(sims, tabs)]
            of = [{k for k, t in enumerate(sim["ptypes"]) if is_a(t, sp["T"])} for sim in sims]
            for a in range(len(sims)):
                for b in range(len(sims)):
                    if a != b and (of[a] - met[a]) - of[b] and met[b] == of[b]:
                        return True
        return False

    def met_in_one_unmet_in_other(self, sims, specs):
        for sp, tabs in ((sp, [pred_tables(sim, [sp])[0] for sim in sims]) for sp in specs if sp["kind"] == "eventuallyProto"):
            met = [{k for k, t in enumerate(sim["ptypes"]) if is_a(t, sp["T"]) and any(tab[i][k] for i in range(run_length(sim)))}
                   for sim, tab in zip(sims, tabs)]
            of = [{k for k, t in enumerate(sim["ptypes"]) if is_a(t, sp["T"])} for sim in sims]
            for a in range(len(sims)):
                for b in range(len(sims)):
                    if a != b and met[a] & (of[b] - met[b]):
                        return True
        return False

    def stats_run(self, case, specs, impl, acc):
        acc["simulations"] = acc.get("simulations", 0) + 1
        N, first, never = self.expectation(case, specs)
        acc[f"events_{min(N, 7)}"] = acc.get(f"events_{min(N, 7)}", 0) + 1
        acc["drive_" + case["drive"]["mode"]] = acc.get("drive_" + case["drive"]["mode"], 0) + 1
        for name in sorted(case.get("options") or {}):
            acc["option_" + name] = acc.get("option_" + name, 0) + 1
            if name == "profile" and never and first is None:
                acc["profile_with_unmet_eventually"] = acc.get("profile_with_unmet_eventually", 0) + 1
        v = impl["verdict"]
        k = "verdict_" + (v if isinstance(v, str) else f"failedAfter")
        acc[k] = acc.get(k, 0) + 1
        if first is not None:
            acc[f"first_violation_at_{first}"] = acc.get(f"first_violation_at_{first}", 0) + 1
            if first == N - 1:
                acc["first_violation_at_last"] = acc.get("first_violation_at_last", 0) + 1
        for sp in specs:
            acc["spec_" + sp["kind"]] = acc.get("spec_" + sp["kind"], 0) + 1
        ptypes = case["ptypes"]
        if 2 in ptypes:
            acc["runs_with_nodes_of_a_derived_role"] = acc.get("runs_with_nodes_of_a_derived_role", 0) + 1
        tables = pred_tables(case, specs)
        for sp, tab in zip(specs, tables):
            if not sp["kind"].endswith("Proto"):
                continue
            stated = {BASE: "common_base", IPROTO: "IProtocol"}.get(sp["T"], "concrete_class")
            acc["stated_for_" + stated] = acc.get("stated_for_" + stated, 0) + 1
            inherited = [k for k in range(len(ptypes)) if is_a(ptypes[k], sp["T"]) and ptypes[k] != sp["T"]]
            if sp["kind"] == "alwaysProto" and first is not None and any(not tab[first][k] for k in inherited) and \
                    not any(not tab[first][k] for k in range(len(ptypes)) if ptypes[k] == sp["T"]):
                acc["first_violation_by_node_of_a_subclass_only"] = acc.get("first_violation_by_node_of_a_subclass_only", 0) + 1
            if sp["kind"] == "eventuallyProto" and first is None and sp not in never and inherited and N > 0:
                acc["eventually_met_by_nodes_of_subclasses"] = acc.get("eventually_met_by_nodes_of_subclasses", 0) + 1
        ex = execution(case)
        silent = [i for i, (_, runs) in enumerate(ex) if not runs]
        if silent:
            acc["runs_with_cancelled_timer_events"] = acc.get("runs_with_cancelled_timer_events", 0) + 1
            if len(silent) == N:
                acc["runs_of_cancelled_timer_events_only"] = acc.get("runs_of_cancelled_timer_events_only", 0) + 1
            if first is not None and first in silent:
                acc["first_violation_at_cancelled_timer_event"] = acc.get("first_violation_at_cancelled_timer_event", 0) + 1
            if self.met_only_at(case, specs, silent):
                acc["eventually_met_only_at_cancelled_timer_events"] = \
                    acc.get("eventually_met_only_at_cancelled_timer_events", 0) + 1

    def met_only_at(self, sim, specs, positions):
        """some eventually-assertion is met, and would not be if the given iterations were not judged"""
        N, ptypes = run_length(sim), sim["ptypes"]
        rest = [i for i in range(N) if i not in positions]
        for sp, tab in zip(specs, pred_tables(sim, specs)):
            if sp["kind"] == "eventuallySim" and any(tab[i] for i in range(N)) and not any(tab[i] for i in rest):
                return True
            if sp["kind"] == "eventuallyProto":
                of = [k for k in range(len(ptypes)) if is_a(ptypes[k], sp["T"])]
                if of and all(any(tab[i][k] for i in range(N)) for k in of) and \
                        not all(any(tab[i][k] for i in rest) for k in of):
                    return True
        return False

    def shrink(self, case, still_fails):
        best = copy.deepcopy(case)

        def attempt(change):
            """apply the change to a copy; keep it when the failure is still there"""
            nonlocal best
            cand = copy.deepcopy(best)
            if change(cand) is False:
                return False
            if still_fails(cand):
                best = cand
                return True
            return False

        def drop_sim(k):
            def change(c):
                del c["sims"][k]
                if "runOrder" in c:
                    c["runOrder"] = [j - 1 if j > k else j for j in c["runOrder"] if j != k]
                if "turns" in c:
                    c["turns"] = [j - 1 if j > k else j for j in (t % (len(c["sims"]) + 1) for t in c["turns"]) if j != k]
            return change

        def drop_event(si, i):
            def change(c):
                evs = sims_of(c)[si]["events"]
                del evs[i]
                for ev in evs:       # event indices name the cancelling callbacks: keep them pointing right
                    cb = cancelled_by(ev)
                    if isinstance(cb, int):
                        ev[4] = "init" if cb == i else cb - 1 if cb > i else cb
            return change

        def set_cancel(si, i, simpler):
            def change(c):
                evs = sims_of(c)[si]["events"]
                evs[i] = evs[i][:4] + ([simpler] if simpler else [])
            return change

        changed = True
        while changed:
            changed = False
            if best.get("handler", "plain") != "plain":
                changed |= attempt(lambda c: c.__setitem__("handler", "plain"))
            for i in range(len(best["specs"]) - 1, -1, -1):
                if len(best["specs"]) > 1:
                    changed |= attempt(lambda c: c["specs"].__delitem__(i))
            if "sims" in best:
                for k in range(len(best["sims"]) - 1, -1, -1):
                    if len(best["sims"]) > 1:
                        changed |= attempt(drop_sim(k))
                if best.get("plan") == "interleaved" and best.get("turns"):
                    changed |= attempt(lambda c: c.__setitem__("turns", []))
                if best.get("plan") == "interleaved":
                    changed |= attempt(lambda c: (c.pop("turns", None), c.__setitem__("plan", "build-first")))
                if best.get("plan", "sequential") != "sequential":
                    changed |= attempt(lambda c: (c.pop("turns", None), c.pop("runOrder", None),
                                                  c.__setitem__("plan", "sequential")))
            for si in range(len(sims_of(best))):
                for i in range(len(sims_of(best)[si]["events"]) - 1, -1, -1):
                    changed |= attempt(drop_event(si, i))
                for i in range(len(sims_of(best)[si]["events"])):
                    cb = cancelled_by(sims_of(best)[si]["events"][i])
                    for simpler in ([None, "init"] if isinstance(cb, int) else [None] if cb == "init" else []):
                        if attempt(set_cancel(si, i, simpler)):
                            changed = True
                            break
                if sims_of(best)[si].get("maxIter") is not None:
                    changed |= attempt(lambda c: sims_of(c)[si].__setitem__("maxIter", None))
                if sims_of(best)[si].get("options"):
                    if not attempt(lambda c: sims_of(c)[si].pop("options")):
                        for name in list(sims_of(best)[si]["options"]):
                            if len(sims_of(best)[si]["options"]) > 1:
                                changed |= attempt(lambda c: sims_of(c)[si]["options"].pop(name, None))
                    else:
                        changed = True
        return best


CHECKS = {"C18": C18}
