"""C18 — simulation assertions fail exactly when, and as soon as, they are violated.

REAL simulations (SimulationBuilder, TimerHandler, AssertionHandler and the four public decorators):
1-4 nodes of 2 protocol classes carry boolean attributes that scripted timers flip, so the timeline of
every predicate value after every executed event is known from the script.  Observation: whether and
when FailedAssertionException escapes `start_simulation` / `step_simulation`, how many events had
executed by then, and whether the protocols' `finish` had run (failure at finalisation vs interruption).
"""
import copy
import json
import random

import framework
from common import TICK, stable_hash
from framework import Check
from simimpl import quiet_logging

from gradysim.protocol.interface import IProtocol
from gradysim.simulator.handler.assertion import (AssertionHandler, FailedAssertionException,
                                                  assert_always_true_for_protocol,
                                                  assert_eventually_true_for_protocol,
                                                  assert_always_true_for_simulation,
                                                  assert_eventually_true_for_simulation)
from gradysim.simulator.handler.timer import TimerHandler
from gradysim.simulator.simulation import SimulationBuilder, SimulationConfiguration

F18_SIGNATURE = "C18:eventually-proto-zero-events"
ATTRS = ["a", "b"]
SIM_FNS = ["any", "all", "two"]


def sim_fn(fn, values):
    if fn == "any":
        return any(values)
    if fn == "all":
        return all(values)
    return sum(1 for v in values if v) >= 2


def schedule(case):
    """the scripted events in execution order: by time, ties in scheduling order (nodes initialise in
    id order, each node sets its timers in script order)"""
    evs = [(ev[0], ev[1], k) for k, ev in enumerate(case["events"])]
    evs.sort()
    return [k for _, _, k in evs]


def run_length(case):
    n = len(case["events"])
    return n if case.get("maxIter") is None else min(n, case["maxIter"])


def timeline(case):
    """attribute values of every node after each executed event: [ {attr: [value per node]} per iteration ]"""
    state = [dict(s) for s in case["init"]]
    out = []
    for k in schedule(case)[:run_length(case)]:
        _, node, attr, value = case["events"][k]
        if attr is not None:
            state[node][attr] = value
        out.append({a: [s[a] for s in state] for a in ATTRS})
    return out


def pred_tables(case):
    """per assertion: its predicate's value after every executed event (per node for protocol-scoped)"""
    tl = timeline(case)
    out = []
    for sp in case["specs"]:
        if sp["kind"].endswith("Proto"):
            out.append([row[sp["attr"]] for row in tl])
        else:
            out.append([sim_fn(sp["fn"], row[sp["attr"]]) for row in tl])
    return out


class Rec:
    def __init__(self, case):
        self.case = case
        self.executed = 0
        self.finished = 0
        self.seen = []       # (assertion index, node id | None, events executed so far, value)


def make_protocols(rec):
    class Base(IProtocol):
        def initialize(self):
            n = self.provider.get_id()
            for a in ATTRS:
                setattr(self, a, rec.case["init"][n][a])
            for k, ev in enumerate(rec.case["events"]):
                if ev[1] == n:
                    self.provider.schedule_timer(f"e{k}", ev[0] / TICK)

        def handle_timer(self, timer):
            ev = rec.case["events"][int(timer[1:])]
            if ev[2] is not None:
                setattr(self, ev[2], ev[3])
            rec.executed += 1

        def handle_packet(self, message):
            pass

        def handle_telemetry(self, telemetry):
            pass

        def finish(self):
            rec.finished += 1

    class P0(Base):
        pass

    class P1(Base):
        pass

    return [P0, P1]


def make_assertion(rec, idx, sp, classes):
    kind = sp["kind"]
    if kind.endswith("Proto"):
        def pred(node):
            v = bool(getattr(node.protocol_encapsulator.protocol, sp["attr"]))
            rec.seen.append((idx, node.id, rec.executed, v))
            return v
        deco = assert_always_true_for_protocol if kind == "alwaysProto" else assert_eventually_true_for_protocol
        return deco(classes[sp["T"]], f"assertion{idx}")(pred)

    def pred_sim(nodes):
        v = sim_fn(sp["fn"], [bool(getattr(n.protocol_encapsulator.protocol, sp["attr"])) for n in nodes])
        rec.seen.append((idx, None, rec.executed, v))
        return v
    deco = assert_always_true_for_simulation if kind == "alwaysSim" else assert_eventually_true_for_simulation
    return deco(f"assertion{idx}")(pred_sim)


def run_real(case):
    rec = Rec(case)
    classes = make_protocols(rec)
    conf = SimulationConfiguration(max_iterations=case.get("maxIter"), execution_logging=False)
    builder = SimulationBuilder(conf)
    handlers = {"assertion": AssertionHandler([make_assertion(rec, i, sp, classes) for i, sp in enumerate(case["specs"])]),
                "timer": TimerHandler()}
    for label in (["assertion", "timer"] if case.get("order", "assertion-first") == "assertion-first" else ["timer", "assertion"]):
        builder.add_handler(handlers[label])
    for t in case["ptypes"]:
        builder.add_node(classes[t], (0.0, 0.0, 0.0))
    sim = builder.build()
    quiet_logging()
    exc, steps = None, 0
    try:
        if case["drive"]["mode"] == "start":
            sim.start_simulation()
        else:
            while steps < len(case["events"]) + 5:
                steps += 1
                if not sim.step_simulation():
                    break
    except FailedAssertionException:
        exc = "FailedAssertionException"
    except Exception as e:        # anything else is a crash
        exc = "crash:" + type(e).__name__
    finally:
        quiet_logging()
    n = len(case["ptypes"])
    if exc is None:
        verdict = "passed"
    elif exc == "FailedAssertionException":
        verdict = "failedAtEnd" if rec.finished == n else ["failedAfter", rec.executed - 1]
    else:
        verdict = exc
    return {"verdict": verdict, "executed": rec.executed, "finished": rec.finished, "steps": steps,
            "seen": rec.seen}


class C18(Check):
    prop = "C18"
    level_text = ("Theorems for every list of assertions on one AssertionHandler, every set of nodes and protocol types, every "
                  "timeline of predicate values and every run length: the run is interrupted exactly at the least iteration "
                  "after which an always-assertion is violated and executes nothing afterwards; it fails at finalisation "
                  "exactly when it was not interrupted and some eventually-assertion was never met; the zero-event gap of the "
                  "pinned per-node bookkeeping (F18) is a proved negative instance and the repaired bookkeeping is proved at "
                  "full strength. Tied to the real AssertionHandler inside real simulations by differential execution.")
    rule = ("real simulations with a TimerHandler and an AssertionHandler holding 1-3 assertions of the four decorator kinds; "
            "1-4 nodes of 2 protocol classes whose boolean attributes are flipped by scripted timers (0-7 events, ties, noise "
            "events, max_iterations cuts incl. 0); the first always-violation placed at every position 0..last or nowhere, on "
            "the last node of the asserted type, with nodes of the other type violating from the start; eventually-predicates "
            "met at a chosen position, after the cut, or never, per node; zero-event runs; start_simulation and manual "
            "stepping; both handler registration orders; non-trivial = both protocol types present and the deciding node is "
            "the last node of the asserted type")
    assumptions = ["predicates are judged after each executed event (never before the first)",
                   "same-instant timers run in scheduling order (C03) - used only to script the timeline",
                   "manual stepping stops at the first exception (the blocking-run reading of 'no further event')"]
    modelled = ["gradysim/simulator/handler/assertion.py",
                "gradysim/simulator/simulation.py (after-step fan-out, finalisation, exception propagation)"]

    # the committed disposition of F18 decides which bookkeeping the model mirrors: listed as `known`
    # -> the pinned lazy dictionary; otherwise (repaired) -> filled at registration
    def eager(self):
        return framework.known_match("C18", F18_SIGNATURE) is None

    # ---- generation
    def generate(self, seed, tier):
        n = 2500 if tier == "quick" else 40000
        for i in range(n):
            yield self.gen_case(stable_hash("C18", seed, i), i, f"gen/{seed}/{i}")

    def gen_case(self, s, i, label):
        r = random.Random(s)
        nn = r.choice([1, 2, 2, 3, 3, 4, 4])
        ptypes = [r.randint(0, 1) for _ in range(nn)]
        if nn >= 2 and r.random() < 0.7:
            ptypes[r.randrange(nn)] = 0
            others = [k for k in range(nn) if ptypes[k] != 0] or [r.randrange(nn)]
            ptypes[r.choice(others)] = 1
        L = r.choice([0, 0, 1, 2, 3, 4, 5, 6, 7])
        times, t = [], 0
        for _ in range(L):
            t += r.choice([0, 512, 1024, 1024, 2048])
            times.append(t)
        events = [[times[k], r.randrange(nn), None, None] for k in range(L)]
        init = [{"a": True, "b": False} for _ in range(nn)]
        specs = []
        for _ in range(r.choice([1, 1, 2, 2, 3])):
            kind = r.choice(["alwaysProto", "alwaysProto", "eventuallyProto", "eventuallyProto", "alwaysSim", "eventuallySim"])
            attr = "a" if kind.startswith("always") else "b"
            if kind.endswith("Proto"):
                specs.append({"kind": kind, "T": r.randint(0, 1), "attr": attr})
            else:
                specs.append({"kind": kind, "fn": r.choice(SIM_FNS), "attr": attr})
        # script the attributes: 'a' carries the always-predicates, 'b' the eventually-predicates
        T = next((sp["T"] for sp in specs if sp["kind"] == "alwaysProto"), r.randint(0, 1))
        of_T = [k for k in range(nn) if ptypes[k] == T]
        for k in range(nn):
            if ptypes[k] != T and r.random() < 0.5:
                init[k]["a"] = False            # the OTHER type violates from the start: must not matter
        pos = r.choice([None] + list(range(L))) if L else None
        if pos is not None and of_T:
            victim = of_T[-1] if r.random() < 0.7 else r.choice(of_T)
            # the flip runs on the victim itself (a timer sets its own node's attribute)
            events[pos] = [times[pos], victim, "a", False]
            if pos + 1 < L and r.random() < 0.4:
                events[pos + 1] = [times[pos + 1], victim, "a", True]      # recovers: 'first' matters
        E = next((sp["T"] for sp in specs if sp["kind"] == "eventuallyProto"), r.randint(0, 1))
        of_E = [k for k in range(nn) if ptypes[k] == E]
        free = [k for k in range(L) if events[k][2] is None]
        r.shuffle(free)
        mode = r.choice(["all", "all-but-last", "none", "other-type-only", "random"])
        for k in range(nn):
            if not free:
                break
            if (mode == "all" and k in of_E) or (mode == "all-but-last" and k in of_E[:-1]) or \
                    (mode == "other-type-only" and k not in of_E) or (mode == "random" and r.random() < 0.5):
                slot = free.pop()
                events[slot] = [times[slot], k, "b", True]
                if free and r.random() < 0.25:
                    slot2 = free.pop()
                    if slot2 > slot:
                        events[slot2] = [times[slot2], k, "b", False]    # true once is enough
        if r.random() < 0.12 and nn:
            init[r.randrange(nn)]["b"] = True      # true before the first event only: does not count ...
            # ... unless it is still true after the first executed event, which the script decides
        max_iter = r.choice([None, None, None, 0, 1, 2, 3, 5])
        return {"kind": "assertions", "seed": s, "label": label, "ptypes": ptypes, "init": init, "events": events,
                "specs": specs, "order": r.choice(["assertion-first", "timer-first"]), "maxIter": max_iter,
                "drive": {"mode": r.choice(["start", "steps"])}}

    def widen(self, seed, tier):
        for i in range(1500):
            yield self.gen_case(stable_hash("C18", "widen", seed, i), i, f"widen/{seed}/{i}")

    # ---- implementation / model
    def run_impl(self, case):
        return run_real(case)

    def model_input(self, case, impl):
        tables = pred_tables(case)
        specs = []
        for sp, tab in zip(case["specs"], tables):
            d = {"kind": sp["kind"], "pred": tab}
            if sp["kind"].endswith("Proto"):
                d["T"] = sp["T"]
            specs.append(d)
        return {"kind": "assertion", "n": len(case["ptypes"]), "ptypes": case["ptypes"], "N": run_length(case),
                "eager": self.eager(), "specs": specs}

    def compare(self, case, impl, model):
        diffs = []
        if impl["verdict"] != model["verdict"] or impl["executed"] != model["executed"]:
            diffs.append(f"implementation: verdict {impl['verdict']} after {impl['executed']} events / model: "
                         f"{model['verdict']} after {model['executed']}")
        # the scripted timeline is what the real predicates saw
        tables = pred_tables(case)
        for idx, node, executed, value in impl["seen"]:
            i = executed - 1
            try:
                want = tables[idx][i] if node is None else tables[idx][i][node]
            except IndexError:
                want = None
            if i < 0 or want != value:
                diffs.append(f"assertion {idx} evaluated on node {node} after {executed} events saw {value}; the script says {want}")
                break
        return diffs

    # ---- the property, read directly
    def expectation(self, case):
        N = run_length(case)
        tables = pred_tables(case)
        ptypes = case["ptypes"]

        def violated(sp, tab, i):
            if sp["kind"] == "alwaysProto":
                return any(ptypes[k] == sp["T"] and not tab[i][k] for k in range(len(ptypes)))
            if sp["kind"] == "alwaysSim":
                return not tab[i]
            return False

        first = next((i for i in range(N) if any(violated(sp, tab, i) for sp, tab in zip(case["specs"], tables))), None)
        never = []
        for sp, tab in zip(case["specs"], tables):
            if sp["kind"] == "eventuallySim" and not any(tab[i] for i in range(N)):
                never.append(sp)
            if sp["kind"] == "eventuallyProto" and any(
                    ptypes[k] == sp["T"] and not any(tab[i][k] for i in range(N)) for k in range(len(ptypes))):
                never.append(sp)
        return N, first, never

    def oracle(self, case, impl):
        fails = []
        N, first, never = self.expectation(case)
        v, ex = impl["verdict"], impl["executed"]
        if isinstance(v, str) and v.startswith("crash:"):
            return [("C18:" + v, f"the run aborted with {v[6:]}")]
        if first is not None:
            if v in ("passed", "failedAtEnd"):
                fails.append(("C18:always-missed", f"an always-assertion is violated after the event of iteration {first}; "
                              f"the run was not interrupted (verdict {v}, {ex} events)"))
            elif v[1] > first:
                fails.append(("C18:always-late", f"first violation after iteration {first}, interrupted only after {v[1]}"))
            elif v[1] < first:
                fails.append(("C18:spurious-failure", f"interrupted after iteration {v[1]}; the first violation is at {first}"))
            elif ex != first + 1:
                fails.append(("C18:event-after-failure", f"failure at iteration {first} but {ex} events executed"))
            return fails
        if isinstance(v, list):
            fails.append(("C18:spurious-failure", f"interrupted after iteration {v[1]} although no always-assertion is "
                          f"violated after any of the {N} executed events"))
            return fails
        if ex != N:
            fails.append(("C18:event-count", f"{ex} events executed, the run has {N}"))
        if never and v == "passed":
            if N == 0 and all(sp["kind"] == "eventuallyProto" for sp in never):
                fails.append((F18_SIGNATURE, "zero executed events, a node of the asserted type, the predicate was never "
                              "true after any executed event - the protocol-scoped eventually-assertion passes "
                              "(the simulation-scoped one fails)"))
            else:
                fails.append(("C18:eventually-missed", f"{[sp['kind'] for sp in never]} never met in {N} events but the run passed"))
        if not never and v == "failedAtEnd":
            fails.append(("C18:spurious-failure", f"failed at finalisation although every eventually-assertion was met "
                          f"within the {N} executed events"))
        return fails

    # ---- bookkeeping
    def nontrivial(self, case, impl):
        ptypes = case["ptypes"]
        if len(set(ptypes)) < 2:
            return False
        N, first, never = self.expectation(case)
        tables = pred_tables(case)
        if first is not None:
            for sp, tab in zip(case["specs"], tables):
                if sp["kind"] == "alwaysProto":
                    bad = [k for k in range(len(ptypes)) if ptypes[k] == sp["T"] and not tab[first][k]]
                    last = max(k for k in range(len(ptypes)) if ptypes[k] == sp["T"]) if sp["T"] in ptypes else None
                    if bad and bad == [last]:
                        return True
            return False
        for sp, tab in zip(case["specs"], tables):
            if sp in never and sp["kind"] == "eventuallyProto":
                of = [k for k in range(len(ptypes)) if ptypes[k] == sp["T"]]
                missing = [k for k in of if not any(tab[i][k] for i in range(N))]
                if of and missing == [of[-1]] and N > 0:
                    return True
        return False

    def key(self, case, impl):
        return json.dumps([case["ptypes"], case["specs"], pred_tables(case), impl["verdict"]], sort_keys=True)

    def sample(self, case, impl):
        return {"label": case.get("label"), "ptypes": case["ptypes"], "specs": case["specs"], "events": case["events"],
                "maxIter": case.get("maxIter"), "drive": case["drive"], "verdict": impl["verdict"], "executed": impl["executed"]}

    def stats(self, case, impl, acc):
        acc["cases"] = acc.get("cases", 0) + 1
        N, first, never = self.expectation(case)
        acc[f"events_{min(N, 7)}"] = acc.get(f"events_{min(N, 7)}", 0) + 1
        acc["drive_" + case["drive"]["mode"]] = acc.get("drive_" + case["drive"]["mode"], 0) + 1
        v = impl["verdict"]
        k = "verdict_" + (v if isinstance(v, str) else f"failedAfter")
        acc[k] = acc.get(k, 0) + 1
        if first is not None:
            acc[f"first_violation_at_{first}"] = acc.get(f"first_violation_at_{first}", 0) + 1
            if first == N - 1:
                acc["first_violation_at_last"] = acc.get("first_violation_at_last", 0) + 1
        for sp in case["specs"]:
            acc["spec_" + sp["kind"]] = acc.get("spec_" + sp["kind"], 0) + 1

    def shrink(self, case, still_fails):
        best = copy.deepcopy(case)
        changed = True
        while changed:
            changed = False
            for i in range(len(best["specs"]) - 1, -1, -1):
                if len(best["specs"]) > 1:
                    cand = copy.deepcopy(best)
                    del cand["specs"][i]
                    if still_fails(cand):
                        best, changed = cand, True
            for i in range(len(best["events"]) - 1, -1, -1):
                cand = copy.deepcopy(best)
                del cand["events"][i]
                if still_fails(cand):
                    best, changed = cand, True
            if best.get("maxIter") is not None:
                cand = copy.deepcopy(best)
                cand["maxIter"] = None
                if still_fails(cand):
                    best, changed = cand, True
        return best


CHECKS = {"C18": C18}
