"""C18 — simulation assertions fail exactly when, and as soon as, they are violated.

REAL simulations (SimulationBuilder, TimerHandler, AssertionHandler and the four public decorators):
1-4 nodes of 2 protocol classes carry boolean attributes that scripted timers flip, so the timeline of
every predicate value after every executed event is known from the script.  Some of the scripted timers
are cancelled (`provider.cancel_timer`) in `initialize` or by an earlier timer of the same node: their
events are still executed (popped, counted as an iteration) but run no protocol callback, so the
predicates keep the value they had - possibly the one established in `initialize`.  Observation: whether
and when FailedAssertionException escapes `start_simulation` / `step_simulation`, how many events had
been taken from the event loop by then (read through a user-written handler that is handed the loop by
the public `inject`), which protocol callbacks had run, and whether the protocols' `finish` had run
(failure at finalisation vs interruption).
"""
import copy
import json
import random

import framework
from common import TICK, stable_hash
from framework import Check
from simimpl import quiet_logging

from gradysim.protocol.interface import IProtocol
from gradysim.simulator.handler.assertion import (AssertionHandler, FailedAssertionException,
                                                  assert_always_true_for_protocol,
                                                  assert_eventually_true_for_protocol,
                                                  assert_always_true_for_simulation,
                                                  assert_eventually_true_for_simulation)
from gradysim.simulator.handler.interface import INodeHandler
from gradysim.simulator.handler.timer import TimerHandler
from gradysim.simulator.simulation import SimulationBuilder, SimulationConfiguration

F18_SIGNATURE = "C18:eventually-proto-zero-events"
ATTRS = ["a", "b"]
SIM_FNS = ["any", "all", "two"]


def sim_fn(fn, values):
    if fn == "any":
        return any(values)
    if fn == "all":
        return all(values)
    return sum(1 for v in values if v) >= 2


def schedule(case):
    """the scripted events in execution order: by time, ties in scheduling order (nodes initialise in
    id order, each node sets its timers in script order)"""
    evs = [(ev[0], ev[1], k) for k, ev in enumerate(case["events"])]
    evs.sort()
    return [k for _, _, k in evs]


def run_length(case):
    n = len(case["events"])
    return n if case.get("maxIter") is None else min(n, case["maxIter"])


def cancelled_by(ev):
    """optional 5th field of an event: None = never cancelled, "init" = cancelled in `initialize` right after
    being set, j = cancelled by the callback of event j (same node) - which has an effect only when that
    callback really runs before this event does"""
    return ev[4] if len(ev) > 4 else None


def execution(case):
    """the executed events in order: [(event index, whether its protocol callback runs)]; a cancelled timer's
    event is executed all the same, without a callback"""
    events = case["events"]
    cancelled = {k for k, ev in enumerate(events) if cancelled_by(ev) == "init"}
    done, out = set(), []
    for k in schedule(case)[:run_length(case)]:
        runs = k not in cancelled
        if runs:
            for k2, ev2 in enumerate(events):
                if cancelled_by(ev2) == k and k2 != k and ev2[1] == events[k][1] and k2 not in done:
                    cancelled.add(k2)
        done.add(k)
        out.append((k, runs))
    return out


def timeline(case):
    """attribute values of every node after each executed event: [ {attr: [value per node]} per iteration ]"""
    state = [dict(s) for s in case["init"]]
    out = []
    for k, runs in execution(case):
        node, attr, value = case["events"][k][1:4]
        if runs and attr is not None:
            state[node][attr] = value
        out.append({a: [s[a] for s in state] for a in ATTRS})
    return out


def pred_tables(case):
    """per assertion: its predicate's value after every executed event (per node for protocol-scoped)"""
    tl = timeline(case)
    out = []
    for sp in case["specs"]:
        if sp["kind"].endswith("Proto"):
            out.append([row[sp["attr"]] for row in tl])
        else:
            out.append([sim_fn(sp["fn"], row[sp["attr"]]) for row in tl])
    return out


class Rec:
    def __init__(self, case):
        self.case = case
        self.scheduled = 0
        self.delivered = []  # indices of the events whose protocol callback ran, in order
        self.finished = 0
        self.seen = []       # (assertion index, node id | None, events executed so far, value)
        self.loop = None

    @property
    def executed(self):
        """events taken from the event loop so far (all of them are scheduled in `initialize`)"""
        return self.scheduled - len(self.loop)


def make_probe(rec):
    """a user-written handler: the public `inject` hands it the simulation's event loop, whose public `len`
    tells how many scheduled events have not been executed yet"""
    class Probe(INodeHandler):
        @staticmethod
        def get_label():
            return "c18probe"

        def inject(self, event_loop):
            rec.loop = event_loop

        def register_node(self, node):
            pass

    return Probe()


def make_protocols(rec):
    class Base(IProtocol):
        def initialize(self):
            n = self.provider.get_id()
            for a in ATTRS:
                setattr(self, a, rec.case["init"][n][a])
            for k, ev in enumerate(rec.case["events"]):
                if ev[1] == n:
                    self.provider.schedule_timer(f"e{k}", ev[0] / TICK)
                    rec.scheduled += 1
                    if cancelled_by(ev) == "init":
                        self.provider.cancel_timer(f"e{k}")

        def handle_timer(self, timer):
            j = int(timer[1:])
            ev = rec.case["events"][j]
            if ev[2] is not None:
                setattr(self, ev[2], ev[3])
            rec.delivered.append(j)
            for k, ev2 in enumerate(rec.case["events"]):
                if cancelled_by(ev2) == j and k != j and ev2[1] == ev[1]:
                    self.provider.cancel_timer(f"e{k}")

        def handle_packet(self, message):
            pass

        def handle_telemetry(self, telemetry):
            pass

        def finish(self):
            rec.finished += 1

    class P0(Base):
        pass

    class P1(Base):
        pass

    return [P0, P1]


def make_assertion(rec, idx, sp, classes):
    kind = sp["kind"]
    if kind.endswith("Proto"):
        def pred(node):
            v = bool(getattr(node.protocol_encapsulator.protocol, sp["attr"]))
            rec.seen.append((idx, node.id, rec.executed, v))
            return v
        deco = assert_always_true_for_protocol if kind == "alwaysProto" else assert_eventually_true_for_protocol
        return deco(classes[sp["T"]], f"assertion{idx}")(pred)

    def pred_sim(nodes):
        v = sim_fn(sp["fn"], [bool(getattr(n.protocol_encapsulator.protocol, sp["attr"])) for n in nodes])
        rec.seen.append((idx, None, rec.executed, v))
        return v
    deco = assert_always_true_for_simulation if kind == "alwaysSim" else assert_eventually_true_for_simulation
    return deco(f"assertion{idx}")(pred_sim)


def run_real(case):
    rec = Rec(case)
    classes = make_protocols(rec)
    conf = SimulationConfiguration(max_iterations=case.get("maxIter"), execution_logging=False)
    builder = SimulationBuilder(conf)
    handlers = {"assertion": AssertionHandler([make_assertion(rec, i, sp, classes) for i, sp in enumerate(case["specs"])]),
                "timer": TimerHandler()}
    for label in (["assertion", "timer"] if case.get("order", "assertion-first") == "assertion-first" else ["timer", "assertion"]):
        builder.add_handler(handlers[label])
    builder.add_handler(make_probe(rec))
    for t in case["ptypes"]:
        builder.add_node(classes[t], (0.0, 0.0, 0.0))
    sim = builder.build()
    quiet_logging()
    exc, steps = None, 0
    try:
        if case["drive"]["mode"] == "start":
            sim.start_simulation()
        else:
            while steps < len(case["events"]) + 5:
                steps += 1
                if not sim.step_simulation():
                    break
    except FailedAssertionException:
        exc = "FailedAssertionException"
    except Exception as e:        # anything else is a crash
        exc = "crash:" + type(e).__name__
    finally:
        quiet_logging()
    n = len(case["ptypes"])
    if exc is None:
        verdict = "passed"
    elif exc == "FailedAssertionException":
        verdict = "failedAtEnd" if rec.finished == n else ["failedAfter", rec.executed - 1]
    else:
        verdict = exc
    return {"verdict": verdict, "executed": rec.executed, "delivered": rec.delivered, "finished": rec.finished,
            "steps": steps, "seen": rec.seen}


class C18(Check):
    prop = "C18"
    level_text = ("Theorems for every list of assertions on one AssertionHandler, every set of nodes and protocol types, every "
                  "timeline of predicate values and every run length: the run is interrupted exactly at the least iteration "
                  "after which an always-assertion is violated and executes nothing afterwards; it fails at finalisation "
                  "exactly when it was not interrupted and some eventually-assertion was never met; the zero-event gap of the "
                  "pinned per-node bookkeeping (F18) is a proved negative instance and the repaired bookkeeping is proved at "
                  "full strength. Tied to the real AssertionHandler inside real simulations by differential execution.")
    rule = ("real simulations with a TimerHandler and an AssertionHandler holding 1-3 assertions of the four decorator kinds; "
            "1-4 nodes of 2 protocol classes whose boolean attributes are flipped by scripted timers (0-7 events, ties, noise "
            "events, max_iterations cuts incl. 0); in half of the runs timers are cancelled in initialize or by an earlier "
            "timer of the same node (the leading events, all events, random ones) so that executed events run no protocol "
            "callback, with always-predicates false and eventually-predicates true from initialize on (and taken back by a "
            "later event), so that the deciding event is a cancelled timer's; the first always-violation placed at every position 0..last or nowhere, on "
            "the last node of the asserted type, with nodes of the other type violating from the start; eventually-predicates "
            "met at a chosen position, after the cut, or never, per node; zero-event runs; start_simulation and manual "
            "stepping; both handler registration orders; non-trivial = both protocol types present and the deciding node is "
            "the last node of the asserted type")
    assumptions = ["predicates are judged after each executed event (never before the first)",
                   "same-instant timers run in scheduling order (C03) - used only to script the timeline",
                   "manual stepping stops at the first exception (the blocking-run reading of 'no further event')",
                   "the event of a cancelled timer is an executed event (it is taken from the event loop and counted as an "
                   "iteration, C02) that runs no protocol callback - checked on every run against the callbacks that ran",
                   "executed events are counted as scheduled events no longer in the event loop, read by a user-written "
                   "handler through the public inject()/len()"]
    modelled = ["gradysim/simulator/handler/assertion.py",
                "gradysim/simulator/simulation.py (after-step fan-out, finalisation, exception propagation)"]

    # the committed disposition of F18 decides which bookkeeping the model mirrors: listed as `known`
    # -> the pinned lazy dictionary; otherwise (repaired) -> filled at registration
    def eager(self):
        return framework.known_match("C18", F18_SIGNATURE) is None

    # ---- generation
    def generate(self, seed, tier):
        n = 2500 if tier == "quick" else 40000
        for i in range(n):
            yield self.gen_case(stable_hash("C18", seed, i), i, f"gen/{seed}/{i}")

    def gen_case(self, s, i, label):
        r = random.Random(s)
        nn = r.choice([1, 2, 2, 3, 3, 4, 4])
        ptypes = [r.randint(0, 1) for _ in range(nn)]
        if nn >= 2 and r.random() < 0.7:
            ptypes[r.randrange(nn)] = 0
            others = [k for k in range(nn) if ptypes[k] != 0] or [r.randrange(nn)]
            ptypes[r.choice(others)] = 1
        L = r.choice([0, 0, 1, 2, 3, 4, 5, 6, 7])
        times, t = [], 0
        for _ in range(L):
            t += r.choice([0, 512, 1024, 1024, 2048])
            times.append(t)
        events = [[times[k], r.randrange(nn), None, None] for k in range(L)]
        init = [{"a": True, "b": False} for _ in range(nn)]
        specs = []
        for _ in range(r.choice([1, 1, 2, 2, 3])):
            kind = r.choice(["alwaysProto", "alwaysProto", "eventuallyProto", "eventuallyProto", "alwaysSim", "eventuallySim"])
            attr = "a" if kind.startswith("always") else "b"
            if kind.endswith("Proto"):
                specs.append({"kind": kind, "T": r.randint(0, 1), "attr": attr})
            else:
                specs.append({"kind": kind, "fn": r.choice(SIM_FNS), "attr": attr})
        # script the attributes: 'a' carries the always-predicates, 'b' the eventually-predicates
        T = next((sp["T"] for sp in specs if sp["kind"] == "alwaysProto"), r.randint(0, 1))
        of_T = [k for k in range(nn) if ptypes[k] == T]
        for k in range(nn):
            if ptypes[k] != T and r.random() < 0.5:
                init[k]["a"] = False            # the OTHER type violates from the start: must not matter
        pos = r.choice([None] + list(range(L))) if L else None
        if pos is not None and of_T:
            victim = of_T[-1] if r.random() < 0.7 else r.choice(of_T)
            # the flip runs on the victim itself (a timer sets its own node's attribute)
            events[pos] = [times[pos], victim, "a", False]
            if pos + 1 < L and r.random() < 0.4:
                events[pos + 1] = [times[pos + 1], victim, "a", True]      # recovers: 'first' matters
        E = next((sp["T"] for sp in specs if sp["kind"] == "eventuallyProto"), r.randint(0, 1))
        of_E = [k for k in range(nn) if ptypes[k] == E]
        free = [k for k in range(L) if events[k][2] is None]
        r.shuffle(free)
        mode = r.choice(["all", "all-but-last", "none", "other-type-only", "random"])
        for k in range(nn):
            if not free:
                break
            if (mode == "all" and k in of_E) or (mode == "all-but-last" and k in of_E[:-1]) or \
                    (mode == "other-type-only" and k not in of_E) or (mode == "random" and r.random() < 0.5):
                slot = free.pop()
                events[slot] = [times[slot], k, "b", True]
                if free and r.random() < 0.25:
                    slot2 = free.pop()
                    if slot2 > slot:
                        events[slot2] = [times[slot2], k, "b", False]    # true once is enough
        if r.random() < 0.12 and nn:
            init[r.randrange(nn)]["b"] = True      # true before the first event only: does not count ...
            # ... unless it is still true after the first executed event, which the script decides
        max_iter = r.choice([None, None, None, 0, 1, 2, 3, 5])
        self.gen_stale(random.Random(stable_hash("C18", "stale", s)), ptypes, init, events, of_T, of_E)
        return {"kind": "assertions", "seed": s, "label": label, "ptypes": ptypes, "init": init, "events": events,
                "specs": specs, "order": r.choice(["assertion-first", "timer-first"]), "maxIter": max_iter,
                "drive": {"mode": r.choice(["start", "steps"])}}

    @staticmethod
    def gen_stale(r, ptypes, init, events, of_T, of_E):
        """(own random stream, the rest of the case is unchanged by it)  Half of the cases get cancelled timers -
        executed events that run no protocol callback - and predicates whose decisive value is the one set in
        `initialize`: then the first event after which an always-predicate is false, or the only events after
        which an eventually-predicate is true, may be such silent events."""
        L, nn = len(events), len(ptypes)
        if r.random() < 0.5:
            return
        # the decisive values are there before the first event
        if of_T and r.random() < 0.5:
            init[of_T[-1] if r.random() < 0.7 else r.choice(of_T)]["a"] = False
        if r.random() < 0.5:
            for k in (of_E if r.random() < 0.6 else range(nn)):
                if r.random() < 0.85:
                    init[k]["b"] = True
            free = [k for k in range(L) if events[k][2] is None]
            if free and r.random() < 0.5:
                # ... and one of them is taken back by an event: true after the events before that one only
                slot = r.choice(free)
                events[slot][1:4] = [r.choice(of_E) if of_E else r.randrange(nn), "b", False]
        # cancelled timers
        order = [k for _, _, k in sorted((ev[0], ev[1], k) for k, ev in enumerate(events))]
        pattern = r.choice(["front", "front", "all", "random", "by-earlier", "none"])
        if L and pattern == "front":
            for k in order[:r.randint(1, L)]:
                events[k].append("init")
        elif L and pattern == "all":
            for ev in events:
                ev.append("init")
        elif L and pattern in ("random", "by-earlier"):
            for pos, k in enumerate(order):
                if r.random() < 0.45:
                    earlier = [j for j in order[:pos] if events[j][1] == events[k][1]]
                    if earlier and (pattern == "by-earlier" or r.random() < 0.5):
                        events[k].append(r.choice(earlier))
                    elif pattern == "random":
                        events[k].append("init")

    def widen(self, seed, tier):
        for i in range(1500):
            yield self.gen_case(stable_hash("C18", "widen", seed, i), i, f"widen/{seed}/{i}")

    # ---- implementation / model
    def run_impl(self, case):
        return run_real(case)

    def model_input(self, case, impl):
        tables = pred_tables(case)
        specs = []
        for sp, tab in zip(case["specs"], tables):
            d = {"kind": sp["kind"], "pred": tab}
            if sp["kind"].endswith("Proto"):
                d["T"] = sp["T"]
            specs.append(d)
        return {"kind": "assertion", "n": len(case["ptypes"]), "ptypes": case["ptypes"], "N": run_length(case),
                "eager": self.eager(), "specs": specs}

    def compare(self, case, impl, model):
        diffs = []
        if impl["verdict"] != model["verdict"] or impl["executed"] != model["executed"]:
            diffs.append(f"implementation: verdict {impl['verdict']} after {impl['executed']} events / model: "
                         f"{model['verdict']} after {model['executed']}")
        # the protocol callbacks that ran are those of the script: cancelled timers are executed without one
        want_delivered = [k for k, runs in execution(case)[:impl["executed"]] if runs]
        if impl["delivered"] != want_delivered:
            diffs.append(f"protocol callbacks ran for events {impl['delivered']}; the script says {want_delivered} "
                         f"within the {impl['executed']} executed events")
        # the scripted timeline is what the real predicates saw
        tables = pred_tables(case)
        for idx, node, executed, value in impl["seen"]:
            i = executed - 1
            try:
                want = tables[idx][i] if node is None else tables[idx][i][node]
            except IndexError:
                want = None
            if i < 0 or want != value:
                diffs.append(f"assertion {idx} evaluated on node {node} after {executed} events saw {value}; the script says {want}")
                break
        return diffs

    # ---- the property, read directly
    def expectation(self, case):
        N = run_length(case)
        tables = pred_tables(case)
        ptypes = case["ptypes"]

        def violated(sp, tab, i):
            if sp["kind"] == "alwaysProto":
                return any(ptypes[k] == sp["T"] and not tab[i][k] for k in range(len(ptypes)))
            if sp["kind"] == "alwaysSim":
                return not tab[i]
            return False

        first = next((i for i in range(N) if any(violated(sp, tab, i) for sp, tab in zip(case["specs"], tables))), None)
        never = []
        for sp, tab in zip(case["specs"], tables):
            if sp["kind"] == "eventuallySim" and not any(tab[i] for i in range(N)):
                never.append(sp)
            if sp["kind"] == "eventuallyProto" and any(
                    ptypes[k] == sp["T"] and not any(tab[i][k] for i in range(N)) for k in range(len(ptypes))):
                never.append(sp)
        return N, first, never

    def oracle(self, case, impl):
        fails = []
        N, first, never = self.expectation(case)
        v, ex = impl["verdict"], impl["executed"]
        if isinstance(v, str) and v.startswith("crash:"):
            return [("C18:" + v, f"the run aborted with {v[6:]}")]
        if first is not None:
            if v in ("passed", "failedAtEnd"):
                fails.append(("C18:always-missed", f"an always-assertion is violated after the event of iteration {first}; "
                              f"the run was not interrupted (verdict {v}, {ex} events)"))
            elif v[1] > first:
                fails.append(("C18:always-late", f"first violation after iteration {first}, interrupted only after {v[1]}"))
            elif v[1] < first:
                fails.append(("C18:spurious-failure", f"interrupted after iteration {v[1]}; the first violation is at {first}"))
            elif ex != first + 1:
                fails.append(("C18:event-after-failure", f"failure at iteration {first} but {ex} events executed"))
            return fails
        if isinstance(v, list):
            fails.append(("C18:spurious-failure", f"interrupted after iteration {v[1]} although no always-assertion is "
                          f"violated after any of the {N} executed events"))
            return fails
        if ex != N:
            fails.append(("C18:event-count", f"{ex} events executed, the run has {N}"))
        if never and v == "passed":
            if N == 0 and all(sp["kind"] == "eventuallyProto" for sp in never):
                fails.append((F18_SIGNATURE, "zero executed events, a node of the asserted type, the predicate was never "
                              "true after any executed event - the protocol-scoped eventually-assertion passes "
                              "(the simulation-scoped one fails)"))
            else:
                fails.append(("C18:eventually-missed", f"{[sp['kind'] for sp in never]} never met in {N} events but the run passed"))
        if not never and v == "failedAtEnd":
            fails.append(("C18:spurious-failure", f"failed at finalisation although every eventually-assertion was met "
                          f"within the {N} executed events"))
        return fails

    # ---- bookkeeping
    def nontrivial(self, case, impl):
        ptypes = case["ptypes"]
        if len(set(ptypes)) < 2:
            return False
        N, first, never = self.expectation(case)
        tables = pred_tables(case)
        if first is not None:
            for sp, tab in zip(case["specs"], tables):
                if sp["kind"] == "alwaysProto":
                    bad = [k for k in range(len(ptypes)) if ptypes[k] == sp["T"] and not tab[first][k]]
                    last = max(k for k in range(len(ptypes)) if ptypes[k] == sp["T"]) if sp["T"] in ptypes else None
                    if bad and bad == [last]:
                        return True
            return False
        for sp, tab in zip(case["specs"], tables):
            if sp in never and sp["kind"] == "eventuallyProto":
                of = [k for k in range(len(ptypes)) if ptypes[k] == sp["T"]]
                missing = [k for k in of if not any(tab[i][k] for i in range(N))]
                if of and missing == [of[-1]] and N > 0:
                    return True
        return False

    def key(self, case, impl):
        return json.dumps([case["ptypes"], case["specs"], pred_tables(case), impl["verdict"]], sort_keys=True)

    def sample(self, case, impl):
        return {"label": case.get("label"), "ptypes": case["ptypes"], "specs": case["specs"], "events": case["events"],
                "maxIter": case.get("maxIter"), "drive": case["drive"], "verdict": impl["verdict"], "executed": impl["executed"]}

    def stats(self, case, impl, acc):
        acc["cases"] = acc.get("cases", 0) + 1
        N, first, never = self.expectation(case)
        acc[f"events_{min(N, 7)}"] = acc.get(f"events_{min(N, 7)}", 0) + 1
        acc["drive_" + case["drive"]["mode"]] = acc.get("drive_" + case["drive"]["mode"], 0) + 1
        v = impl["verdict"]
        k = "verdict_" + (v if isinstance(v, str) else f"failedAfter")
        acc[k] = acc.get(k, 0) + 1
        if first is not None:
            acc[f"first_violation_at_{first}"] = acc.get(f"first_violation_at_{first}", 0) + 1
            if first == N - 1:
                acc["first_violation_at_last"] = acc.get("first_violation_at_last", 0) + 1
        for sp in case["specs"]:
            acc["spec_" + sp["kind"]] = acc.get("spec_" + sp["kind"], 0) + 1
        ex = execution(case)
        silent = [i for i, (_, runs) in enumerate(ex) if not runs]
        if silent:
            acc["runs_with_cancelled_timer_events"] = acc.get("runs_with_cancelled_timer_events", 0) + 1
            if len(silent) == N:
                acc["runs_of_cancelled_timer_events_only"] = acc.get("runs_of_cancelled_timer_events_only", 0) + 1
            if first is not None and first in silent:
                acc["first_violation_at_cancelled_timer_event"] = acc.get("first_violation_at_cancelled_timer_event", 0) + 1
            if self.met_only_at(case, silent):
                acc["eventually_met_only_at_cancelled_timer_events"] = \
                    acc.get("eventually_met_only_at_cancelled_timer_events", 0) + 1

    def met_only_at(self, case, positions):
        """some eventually-assertion is met, and would not be if the given iterations were not judged"""
        N, ptypes = run_length(case), case["ptypes"]
        rest = [i for i in range(N) if i not in positions]
        for sp, tab in zip(case["specs"], pred_tables(case)):
            if sp["kind"] == "eventuallySim" and any(tab[i] for i in range(N)) and not any(tab[i] for i in rest):
                return True
            if sp["kind"] == "eventuallyProto":
                of = [k for k in range(len(ptypes)) if ptypes[k] == sp["T"]]
                if of and all(any(tab[i][k] for i in range(N)) for k in of) and \
                        not all(any(tab[i][k] for i in rest) for k in of):
                    return True
        return False

    def shrink(self, case, still_fails):
        best = copy.deepcopy(case)
        changed = True
        while changed:
            changed = False
            for i in range(len(best["specs"]) - 1, -1, -1):
                if len(best["specs"]) > 1:
                    cand = copy.deepcopy(best)
                    del cand["specs"][i]
                    if still_fails(cand):
                        best, changed = cand, True
            for i in range(len(best["events"]) - 1, -1, -1):
                cand = copy.deepcopy(best)
                del cand["events"][i]
                for ev in cand["events"]:       # event indices name the cancelling callbacks: keep them pointing right
                    c = cancelled_by(ev)
                    if isinstance(c, int):
                        ev[4] = "init" if c == i else c - 1 if c > i else c
                if still_fails(cand):
                    best, changed = cand, True
            for i in range(len(best["events"])):
                c = cancelled_by(best["events"][i])
                for simpler in ([None, "init"] if isinstance(c, int) else [None] if c == "init" else []):
                    cand = copy.deepcopy(best)
                    cand["events"][i] = cand["events"][i][:4] + ([simpler] if simpler else [])
                    if still_fails(cand):
                        best, changed = cand, True
                        break
            if best.get("maxIter") is not None:
                cand = copy.deepcopy(best)
                cand["maxIter"] = None
                if still_fails(cand):
                    best, changed = cand, True
        return best


CHECKS = {"C18": C18}
