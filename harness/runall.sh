#!/bin/sh
# run every registered check (quick tier by default) on the current /repo working tree; summary at the end
TIER="${1:-quick}"
cd "$(dirname "$0")/.."
fail=0
for p in $(python3 -c "import json; print(' '.join(c['property_id'] for c in json.load(open('MANIFEST.json'))['checks']))"); do
  out=$(harness/check "$p" --tier "$TIER" 2>&1); code=$?
  echo "$out" | grep -E "^(OK|VIOLATION|KNOWN-FINDING)" | cut -c1-160
  [ $code -ne 0 ] && { fail=1; echo "  -> exit $code for $p"; echo "$out" | tail -n 5; }
done
exit $fail
