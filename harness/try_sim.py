import sys, json
sys.path.insert(0, '/verif/harness')
from common import *
import simgen, simimpl
ensure_driver()
N = int(sys.argv[1]) if len(sys.argv) > 1 else 50
scns=[]; impls=[]
for s in range(N):
    scn, beh = simgen.gen_scenario(s)
    scn["wantPos"] = True
    res = simimpl.run_impl(scn, beh, draw_seed=s)
    scns.append(scn); impls.append(res)
outs = run_driver([simimpl.to_driver(scn, res) for scn, res in zip(scns, impls)])
bad = 0
for s,(scn,res,out) in enumerate(zip(scns,impls,outs)):
    if "error" in out:
        print(s, "DRIVER ERROR", out["error"]); bad+=1; continue
    same = res["trace"] == out["trace"]
    samepos = res["positions"] == out["positions"]
    samerets = scn["drive"]["mode"]=="start" or res["rets"] == out["rets"]
    if not (same and samepos and samerets) or res["crash"] or out["untabled"]:
        bad+=1
        print("seed", s, "trace", same, "pos", samepos, "rets", samerets, "crash", res["crash"], "untabled", out["untabled"][:3], "len", len(res["trace"]), len(out["trace"]))
        if not same:
            for i,(a,b) in enumerate(zip(res["trace"], out["trace"])):
                if a!=b:
                    print("   first diff at", i, "impl", a, "model", b); break
print("bad", bad, "of", N, "avg trace len", sum(len(r["trace"]) for r in impls)/N)
