"""C16 — MissionMobilityPlugin: a mission always targets a valid waypoint, status flags stay consistent,
waypoints are visited in the order of the loop mode, invalid requests raise the plugin's exception and
change nothing.

A case is one history of public calls on a fresh, real `MissionMobilityPlugin`
    ["start", [p…]] | ["startFile", [p…], name, style] | ["stop"] | ["setWaypoint", i] | ["setReversed", b] | ["telemetry", p]
(telemetry goes through the protocol's `handle_telemetry`, i.e. through the dispatcher chain the plugin
hooked), observed after every call through `current_waypoint` / `is_reversed` / `is_idle` and the
commands a recording `IProvider` received.  Positions are float bit patterns; generated coordinates are
multiples of 1/8 below 2^7 and tolerances are dyadic, so every squared distance and the comparison with
`tolerance ** 2` is exact in IEEE doubles (boundary cases are decided exactly, not within an epsilon).

A case with `"usage"` is a single-plugin history on a plugin used in a way the stock classes never produce:
`{"provider": {"sync": k}}` / `{"provider": {"failAt": [j…]}}` (see `_UsageProvider`) or `{"chain": [leg…]}` (see
`_QueuePlugin`).  These cases have no model run; the oracle judges them.

A fleet case (`"members": [{loop, tol, speed}…]`, ops `[who, op]`) is the same with several plugins alive in
the same process, each on its own protocol and provider, their calls interleaved (the nodes of one simulation).
The property speaks about each plugin: every member must behave as its own calls alone dictate, and a call
on one member changes nothing on, and issues no command for, another.

`startFile` is `start_mission_with_waypoint_file(path)`: the harness writes the positions `[p…]` as "x,y,z" lines
(the documented format; `style` picks one of several spellings of the same doubles) to the file `name` of a
scratch directory right before the call - a planner that writes a waypoint file and tells the node to load it,
again for every re-planning, possibly re-using the file name.  The mission the property speaks about is then
the content of that file.  A case with such a call is ONE PROCESS: it runs in a pristine child (`_Fresh`), so
its outcome is a function of the case alone (whatever the plugin module keeps at process level is as after
import), and a replay of the case reproduces it.
"""
import functools
import gc
import itertools
import json
import os
import random
import shutil
import subprocess
import sys
import tempfile
import threading
from concurrent.futures import ThreadPoolExecutor
from fractions import Fraction

from common import bitsf, bitsv3, fbits, stable_hash, v3bits
from framework import Check, ImplementationFault

from gradysim.protocol.interface import IProtocol, IProvider
from gradysim.protocol.messages.mobility import MobilityCommandType
from gradysim.protocol.messages.telemetry import Telemetry
from gradysim.protocol.plugin import dispatcher as _dispatcher
from gradysim.protocol.plugin.mission_mobility import (LoopMission, MissionMobilityConfiguration,
                                                       MissionMobilityPlugin, MissionMobilityPluginException)

@functools.lru_cache(maxsize=8192)
def _fb(x):
    """fbits with shared result strings (10^6 enumerated histories repeat the same few coordinates)"""
    return fbits(x)


MODES = [m.name for m in LoopMission]          # read from the implementation: NO, RESTART, REVERSE
TOLS = [0.5, 1.25, 2.5, 5.0, 1.0]              # dyadic; multiples of 1.25 admit exact 3-4-5 boundary offsets
SPEEDS = [5.0, 10.0, 0.5, 12.25]


# ------------------------------------------------------------------------------------------------
# the real code
class _RecProvider(IProvider):
    def __init__(self):
        self.cmds = []

    def send_communication_command(self, command):
        self.cmds.append(["comm"])

    def send_mobility_command(self, command):
        t = command.command_type
        if t == MobilityCommandType.GOTO_COORDS:
            self.cmds.append(["goto", [_fb(command.param_1), _fb(command.param_2), _fb(command.param_3)]])
        elif t == MobilityCommandType.SET_SPEED:
            self.cmds.append(["setSpeed", _fb(command.param_1)])
        else:
            self.cmds.append(["other", str(t)])

    def schedule_timer(self, timer, timestamp):
        self.cmds.append(["timer"])

    def cancel_timer(self, timer):
        self.cmds.append(["cancel"])

    def current_time(self):
        return 0.0

    def get_id(self):
        return 0


class _BackendDown(ConnectionError):
    """what a `_UsageProvider` raises for a command it was told to fail on"""


class _UsageProvider(_RecProvider):
    """A back-end written against the public `IProvider` interface that behaves in one of two ways the project's
    own providers never do (nothing in the interface forbids either):
    `sync: k`    - a move is carried out at once: the arrival telemetry (standing exactly on the goto's target) is
                   handed to the protocol's `handle_telemetry` from INSIDE `send_mobility_command`, for the first k
                   gotos of every call the harness makes (afterwards the command is only recorded);
    `failAt: [j…]` - the j-th mobility command of the history (0-based, gotos and set-speeds counted alike) is not
                   accepted: `send_mobility_command` raises (a `ConnectionError`), the caller catches it."""

    def __init__(self, usage):
        super().__init__()
        self.sync = int(usage.get("sync", 0))
        self.fail_at = set(usage.get("failAt", []))
        self.n_mob = 0
        self.budget = 0
        self.nested = []
        self.proto = None

    def send_mobility_command(self, command):
        j = self.n_mob
        self.n_mob += 1
        if j in self.fail_at:
            raise _BackendDown(f"mobility command #{j} was not accepted")
        super().send_mobility_command(command)
        if command.command_type == MobilityCommandType.GOTO_COORDS and self.budget > 0:
            self.budget -= 1
            pos = (command.param_1, command.param_2, command.param_3)
            self.nested.append([_fb(x) for x in pos])
            self.proto.handle_telemetry(Telemetry(current_position=pos))


class _QueuePlugin(MissionMobilityPlugin):
    """A mission queue built the way the class invites it (public method overridden in a subclass): whenever a
    mission stops - by request or because its last waypoint was reached - the next leg, if any, is started."""

    def __init__(self, protocol, configuration, legs):
        super().__init__(protocol, configuration)
        self.legs = [[bitsv3(p) for p in leg] for leg in legs]

    def stop_mission(self):
        super().stop_mission()
        if self.legs:
            self.start_mission(self.legs.pop(0))


class _RecProtocol(IProtocol):
    def initialize(self):
        pass

    def handle_timer(self, timer):
        pass

    def handle_packet(self, message):
        pass

    def handle_telemetry(self, telemetry):
        self.seen = getattr(self, "seen", 0) + 1

    def finish(self):
        pass


_runs = 0


def _gc_hygiene():
    """the framework keeps every row of a run alive; with 10^6 enumerated histories the cyclic collector
    would rescan them over and over.  Collect the (cyclic) garbage of the finished plugins, then move the
    survivors out of the collector's sight."""
    global _runs
    _runs += 1
    if _runs % 20000 == 0:
        gc.collect()
        gc.freeze()


STARTS = ("start", "startFile")
FILE_STYLES = ["plain", "plain", "short", "exp", "crlf", "nonl"]


def _num(x, style):
    """a decimal spelling of the double x that `float` reads back as exactly x"""
    if style == "exp":
        t = "%.17e" % x
    elif style == "short" and x == int(x):
        t = str(int(x))
    else:
        t = repr(x)
    return t if fbits(float(t)) == fbits(x) else repr(x)


def file_text(bits, style):
    """the waypoint file of the documented format: one "x,y,z" line per position"""
    eol = "\r\n" if style == "crlf" else "\n"
    text = eol.join(",".join(_num(bitsf(b), style) for b in p) for p in bits)
    return text if style == "nonl" else text + eol


class _Files:
    """the scratch directory of one case; a waypoint file is (re)written right before the call that loads it"""

    def __init__(self):
        self.dir = None

    def put(self, op):
        if self.dir is None:
            shm = "/dev/shm"         # a memory file system when there is one: thousands of tiny files per run
            self.dir = tempfile.mkdtemp(prefix="c16_wp_", dir=shm if os.access(shm, os.W_OK) else None)
        path = os.path.join(self.dir, os.path.basename(str(op[2])) if len(op) > 2 else "mission.txt")
        with open(path, "w", newline="") as f:
            f.write(file_text(op[1], op[3] if len(op) > 3 else "plain"))
        return path

    def close(self):
        if self.dir is not None:
            shutil.rmtree(self.dir, ignore_errors=True)


def _call(plugin, proto, op, mission_of=None, files=None):
    """one public call; how it ended"""
    try:
        name = op[0]
        if name == "start":
            plugin.start_mission(mission_of(op[1]) if mission_of else [bitsv3(p) for p in op[1]])
        elif name == "startFile":
            plugin.start_mission_with_waypoint_file(files.put(op))
        elif name == "stop":
            plugin.stop_mission()
        elif name == "setWaypoint":
            plugin.set_current_waypoint(op[1])
        elif name == "setReversed":
            plugin.set_reversed(op[1])
        elif name == "telemetry":
            proto.handle_telemetry(Telemetry(current_position=bitsv3(op[1])))
        else:
            raise ValueError(f"unknown op {name}")
    except MissionMobilityPluginException:
        return "refused"
    except _BackendDown:            # the back-end refused a command and the caller caught that
        return "backend-failed"
    except Exception as e:          # no counterpart in the property: recorded, judged by the oracle
        return "crash:" + type(e).__name__
    except SystemExit:              # the file loader calls exit(1) on a file it cannot read
        return "crash:SystemExit"
    return "ok"


_OBS = {}


def _shared(r):
    """enumerated histories repeat the same few hundred observations millions of times and the framework keeps
    every row of a run in memory: one (never modified) dict per distinct observation instead of one per call"""
    k = (r["out"], r["wp"], r["reversed"], r["idle"],
         tuple(tuple(tuple(x) if isinstance(x, list) else x for x in c) for c in r["cmds"]))
    return _OBS.setdefault(k, r)


def _status(plugin):
    wp = plugin.current_waypoint
    return {"wp": wp if (wp is None or isinstance(wp, int)) else repr(wp),
            "reversed": plugin.is_reversed, "idle": plugin.is_idle}


def loads_files(case):
    return any(op[0] == "startFile" for op in plain_ops(case))


class _Fresh:
    """One case = one process.  A server (`props_mission.py --serve`, a new interpreter that only imported the
    plugin) forks a child per case; the child runs the history and dies.  Nothing a case leaves behind at
    process level (module globals, class attributes, default arguments, caches) reaches another case, and
    nothing of the thousands of earlier cases reaches it: what is observed is what a user's script consisting
    of exactly these calls observes.
    The generator announces its cases (`ahead`), a few servers then work through them side by side while the
    framework is still busy with the other histories; `run` hands out the finished observation, or runs the
    case on the spot when it was not announced (corpus, replay, shrinking)."""
    local = threading.local()
    pool = None
    pending = {}

    @classmethod
    def _ask(cls, line):
        proc = getattr(cls.local, "proc", None)
        if proc is None or proc.poll() is not None:
            proc = cls.local.proc = subprocess.Popen([sys.executable, os.path.abspath(__file__), "--serve"],
                                                     stdin=subprocess.PIPE, stdout=subprocess.PIPE, text=True, bufsize=1)
        proc.stdin.write(line)
        proc.stdin.flush()
        return proc.stdout.readline()

    @staticmethod
    def _line(case):
        slim = {k: v for k, v in case.items() if k in ("kind", "loop", "tol", "speed", "members", "share", "ops", "usage")}
        return json.dumps(slim, separators=(",", ":")) + "\n"

    @classmethod
    def ahead(cls, case):
        if cls.pool is None:
            cls.pool = ThreadPoolExecutor(max_workers=4)
        cls.pending[id(case)] = (case, cls.pool.submit(cls._ask, cls._line(case)))
        return case

    @classmethod
    def run(cls, case):
        known = cls.pending.pop(id(case), None)
        line = known[1].result() if known is not None and known[0] is case else cls._ask(cls._line(case))
        if not line:
            raise RuntimeError("C16: the fresh-process server died")
        out = json.loads(line)
        if "error" in out:
            if out.get("implFault"):
                raise ImplementationFault(out["type"], out["implFault"])
            raise RuntimeError("C16: running the case in a fresh process failed: " + out["error"])
        for r in out["results"]:        # share the few distinct strings, as the in-process observations do
            r["out"] = sys.intern(r["out"])
            for c in r["cmds"]:
                c[0] = sys.intern(c[0])
                if c[0] == "goto":
                    c[1] = [sys.intern(x) for x in c[1]]
                elif c[0] == "setSpeed":
                    c[1] = sys.intern(c[1])
        if case.get("label") == "enum" and "members" not in case:
            out["results"] = [_shared(r) for r in out["results"]]
        return out


_IN_CHILD = False


def _serve():
    """the server side of `_Fresh`: one JSON case per line in, one JSON observation per line out"""
    global _IN_CHILD
    _IN_CHILD = True
    out = os.fdopen(os.dup(1), "w")
    devnull = os.open(os.devnull, os.O_WRONLY)
    os.dup2(devnull, 1)              # whatever the implementation prints must not end up in the protocol
    for line in sys.stdin:
        if not line.strip():
            continue
        r, w = os.pipe()
        pid = os.fork()
        if pid == 0:
            try:
                os.close(r)
                try:
                    data = json.dumps(run_impl(json.loads(line)))
                except BaseException as e:       # noqa: the child must always answer
                    import framework
                    blame = framework.implementation_fault(e) if isinstance(e, Exception) else None
                    data = json.dumps({"error": f"{type(e).__name__}: {e}", "implFault": blame,
                                       "type": type(e).__name__})
                with os.fdopen(w, "w") as f:
                    f.write(data)
            finally:
                os._exit(0)
        os.close(w)
        with os.fdopen(r) as f:
            data = f.read()
        os.waitpid(pid, 0)
        out.write((data or json.dumps({"error": "the child process died without an answer"})) + "\n")
        out.flush()


def run_impl(case):
    if not _IN_CHILD and loads_files(case):
        return _Fresh.run(case)
    if "members" in case:
        return run_impl_fleet(case)
    _gc_hygiene()
    files = _Files()
    usage = case.get("usage") or {}
    prov = _UsageProvider(usage["provider"]) if "provider" in usage else _RecProvider()
    proto = _RecProtocol.instantiate(prov)
    prov.proto = proto
    cfg = MissionMobilityConfiguration(speed=bitsf(case["speed"]), loop_mission=LoopMission[case["loop"]],
                                       tolerance=bitsf(case["tol"]))
    plugin = _QueuePlugin(proto, cfg, usage["chain"]) if "chain" in usage else MissionMobilityPlugin(proto, cfg)
    results = []
    enum = case.get("label") == "enum" and not _IN_CHILD and not usage
    try:
        for op in case["ops"]:
            n0 = len(prov.cmds)
            if usage:
                prov.budget, prov.nested = getattr(prov, "sync", 0), []
            out = _call(plugin, proto, op, files=files)
            r = {"out": out, **_status(plugin), "cmds": prov.cmds[n0:]}
            if getattr(prov, "nested", None):
                r["nested"] = prov.nested
            results.append(_shared(r) if enum else r)
    finally:
        files.close()
        # harness hygiene only: the dispatcher keeps every wrapped protocol alive in a module-level dict
        getattr(_dispatcher, "_protocol_wrappers", {}).pop(proto, None)
    return {"results": results, "passed_on": getattr(proto, "seen", 0)}


def run_impl_fleet(case):
    """several plugins alive at the same time, one per protocol/provider (the nodes of one simulation), their
    calls interleaved.  With `share` the members that were given equal configurations get the same
    configuration object (the constructor's default argument when it equals the documented defaults) and
    equal missions are the same list object - one `mission = [...]` / one config handed to several nodes."""
    _gc_hygiene()
    share = bool(case.get("share"))
    cfgs, lists = {}, {}
    default = MissionMobilityConfiguration()

    def mission_of(bits):
        if not share:
            return [bitsv3(p) for p in bits]
        k = json.dumps(bits)
        if k not in lists:
            lists[k] = [bitsv3(p) for p in bits]
        return lists[k]

    provs, protos, plugins = [], [], []
    files = _Files()
    try:
        for m in case["members"]:
            prov = _RecProvider()
            proto = _RecProtocol.instantiate(prov)
            provs.append(prov)
            protos.append(proto)
            k = (m["loop"], m["tol"], m["speed"])
            cfg = cfgs.get(k) if share else None
            if cfg is None:
                cfg = MissionMobilityConfiguration(speed=bitsf(m["speed"]), loop_mission=LoopMission[m["loop"]],
                                                   tolerance=bitsf(m["tol"]))
                cfgs[k] = cfg
            if share and cfg == default:
                plugins.append(MissionMobilityPlugin(proto))
            else:
                plugins.append(MissionMobilityPlugin(proto, cfg))
        status = [_status(p) for p in plugins]
        results = []
        for who, op in case["ops"]:
            n0 = [len(p.cmds) for p in provs]
            out = _call(plugins[who], protos[who], op, mission_of, files)
            r = {"out": out, **_status(plugins[who]), "cmds": provs[who].cmds[n0[who]:]}
            others = []
            for j, p in enumerate(plugins):
                st = _status(p)
                if j != who and (st != status[j] or len(provs[j].cmds) != n0[j]):
                    others.append({"member": j, "before": status[j], "after": st, "cmds": provs[j].cmds[n0[j]:]})
                status[j] = st
            if others:
                r["others"] = others
            results.append(r)
    finally:
        files.close()
        for proto in protos:
            getattr(_dispatcher, "_protocol_wrappers", {}).pop(proto, None)
    return {"results": results, "passed_on": [getattr(p, "seen", 0) for p in protos]}


# ------------------------------------------------------------------------------------------------
# the property, read directly (no model): exact arithmetic, the visiting order of each loop mode
@functools.lru_cache(maxsize=4096)
def _fr(b):
    return Fraction(bitsf(b))


def _frac(p):
    return [_fr(b) for b in p]


def reached_exact(pos, target, tol_bits):
    a, b = _frac(pos), _frac(target)
    t = _fr(tol_bits)
    return sum((x - y) ** 2 for x, y in zip(a, b)) <= t * t


def spec_step(loop, n, i, rev):
    """where the mission goes when waypoint i was reached (or the direction was just switched to `rev`):
    (index, reversed) or None when the mission ends."""
    if loop == "NO":
        return (i + 1, False) if i + 1 < n else None
    if loop == "RESTART":
        return ((i + 1) % n, False)
    if not rev:
        return (i + 1, False) if i + 1 < n else (max(n - 2, 0), True)     # bounce at the last waypoint
    return (i - 1, True) if i - 1 >= 0 else (0, False)                      # first waypoint: start over, forwards


class Spec:
    """expected status of the plugin along a history (used by the generator to aim telemetry and by the
    oracle to know whether a mission is active)"""

    def __init__(self, loop, tol_bits, queue=None):
        self.loop, self.tol = loop, tol_bits
        self.m, self.wp, self.rev = None, None, False
        self.queue = [list(leg) for leg in (queue or [])]     # legs a mission-queue subclass starts when a mission stops
        self.chained = False                                  # the last call made the queue start its next leg

    def target(self):
        return self.m[self.wp] if self.m is not None else None

    def set(self, nxt):
        if nxt is None:
            self.m, self.wp, self.rev = None, None, False
            if self.queue:
                self.m, self.wp, self.chained = self.queue.pop(0), 0, True
        else:
            self.wp, self.rev = nxt

    def apply_sync(self, op, budget):
        """`apply` under a back-end that completes the first `budget` gotos of a call at once (arrival telemetry on
        the target from inside the command): the positions it will report"""
        m0, wp0 = self.m, self.wp
        want, stepped = self.apply(op)
        nested = []
        moved = want == "ok" and (op[0] in STARTS or op[0] == "setWaypoint" or stepped)
        while moved and self.m is not None and budget > 0:
            budget -= 1
            nested.append(list(self.target()))
            moved = self.apply(["telemetry", nested[-1]])[1]
        return nested

    def apply(self, op):
        """returns what the call must do: 'ok' | 'refused', and whether a waypoint step happened"""
        name = op[0]
        self.chained = False
        if name in STARTS:              # startFile: the mission is what the file says
            self.m, self.wp, self.rev = list(op[1]), 0, False
            return "ok", False
        if name == "stop":
            self.set(None)
            return "ok", False
        if name == "setWaypoint":
            if self.m is None or not (0 <= op[1] < len(self.m)):
                return "refused", False
            self.wp = op[1]
            return "ok", False
        if name == "setReversed":
            if self.m is None or self.loop != "REVERSE":
                return "refused", False
            if op[1] == self.rev:
                return "ok", False
            self.set(spec_step(self.loop, len(self.m), self.wp, op[1]))
            return "ok", True
        if name == "telemetry":
            if self.m is None or not reached_exact(op[1], self.target(), self.tol):
                return "ok", False
            self.set(spec_step(self.loop, len(self.m), self.wp, self.rev))
            return "ok", True
        raise ValueError(name)


def plain_ops(case):
    return [o[1] for o in case["ops"]] if "members" in case else case["ops"]


def in_domain(case):
    return all(op[0] not in STARTS or len(op[1]) > 0 for op in plain_ops(case))


def member_view(case, impl, i):
    """what member i of a fleet case was asked and showed: a single-plugin case, its observations, and the
    positions of its calls in the fleet's history"""
    idx = [k for k, o in enumerate(case["ops"]) if o[0] == i]
    sub = dict(case["members"][i], kind="mission", ops=[case["ops"][k][1] for k in idx])
    return sub, {"results": [impl["results"][k] for k in idx]}, idx


def oracle_fleet(case, impl):
    """C16 for every member of the fleet on its own calls and observations (the property is about each plugin:
    ITS current waypoint, the last command IT issued, ITS visiting order), and between calls of its own a
    member must not move: a call on another plugin is no request to this one and no waypoint of it was reached."""
    fails = []
    for i in range(len(case["members"])):
        sub, subimpl, idx = member_view(case, impl, i)
        fails += oracle(sub, subimpl, idx=idx, tag=f" on plugin #{i}:")
    for k, ((who, op), r) in enumerate(zip(case["ops"], impl["results"])):
        for o in r.get("others", []):
            fails.append(("C16:other-instance", f"op #{k} {op_text(op)} on plugin #{who} changed plugin #{o['member']}: "
                          f"{o['before']} -> {o['after']}, commands issued there {cmds_text(o['cmds'])}"))
    seen, out = set(), []
    for f in fails:
        if f[0] not in seen:
            seen.add(f[0])
            out.append(f)
    return out


def oracle(case, impl, idx=None, tag=""):
    """C16 evaluated on the implementation's observations.  Signatures, most specific first."""
    if not in_domain(case):
        # empty missions are outside the quantifier of the mission clauses (domain note in DESIGN.md); the clause
        # about the three status flags among themselves names no mission and is evaluated all the same
        fails = []
        for k, (o, r) in enumerate(zip(case["ops"], impl["results"])):
            fails += flag_clauses(_Where(k, o[1] if "members" in case else o, f" on plugin #{o[0]}:" if "members" in case else ""), r)
        return _first_of_each(fails)
    if "members" in case:
        return oracle_fleet(case, impl)
    fails = []
    usage = case.get("usage") or {}
    spec = Spec(case["loop"], case["tol"], usage.get("chain"))
    speed = case["speed"]
    last_goto = None
    prev = {"wp": None, "reversed": False, "idle": True}
    degraded = False      # a command was refused by the back-end in the middle of a call: which mission state the call
                          # should have left is not for the property to say; until the next completed stop / start only
                          # the clause about the flags among themselves is evaluated
    for k, (op, r) in enumerate(zip(case["ops"], impl["results"])):
        where = _Where(idx[k] if idx is not None else k, op, tag)
        for c in r["cmds"]:
            if c[0] == "goto":
                last_goto = c[1]
        wp, rev, idle = r["wp"], r["reversed"], r["idle"]
        state = {"wp": wp, "reversed": rev, "idle": idle}
        if r["out"].startswith("crash"):
            fails.append((f"C16:{r['out']}", f"{where} raised {r['out'][6:]}"))
        if r["out"] == "backend-failed":
            degraded = True
        elif degraded and r["out"] == "ok" and (op[0] == "stop" or op[0] in STARTS):
            degraded = False
        if degraded:
            fails += flag_clauses(where, r, " (a command of an earlier or this call was not accepted by the back-end)")
            prev = state
            continue
        was_active, m0, wp0, rev0 = spec.m is not None, spec.m, spec.wp, spec.rev
        want, stepped = spec.apply(op)
        chained = spec.chained
        for p in r.get("nested", []):       # arrivals the back-end reported from inside this call's commands, in order
            spec.apply(["telemetry", p])
            chained = chained or spec.chained
        # while a mission is active: valid index, not idle, last goto is that waypoint
        if spec.m is not None:
            n = len(spec.m)
            if not (isinstance(wp, int) and not isinstance(wp, bool) and 0 <= wp < n):
                fails.append(("C16:index-invalid", f"after {where} current_waypoint is {wp!r}, mission has {n} waypoint(s)"))
            elif last_goto != spec.m[wp]:
                fails.append(("C16:last-goto", f"after {where} current_waypoint is {wp} at {pos_text(spec.m[wp])} "
                              f"but the last goto issued went to {pos_text(last_goto) if last_goto else None}"))
            if idle:
                fails.append(("C16:flags", f"after {where} is_idle although a mission is active"))
        elif not idle or wp is not None:
            fails.append(("C16:flags", f"after {where} no mission is active but is_idle={idle}, current_waypoint={wp!r}"))
        # the three flags among themselves
        fails += flag_clauses(where, r)
        # what this call had to do
        if want == "refused":
            if r["out"] != "refused":
                fails.append(("C16:invalid-accepted", f"{where} is invalid here (mission active={was_active}, mode {case['loop']}) "
                              f"but ended '{r['out']}' instead of MissionMobilityPluginException"))
            if state != prev or r["cmds"]:
                fails.append(("C16:refused-changed", f"{where} was invalid but changed the plugin: {prev} -> {state}, commands {r['cmds']}"))
        else:
            if r["out"] == "refused":
                fails.append(("C16:valid-refused", f"{where} is valid here but raised MissionMobilityPluginException"))
            exp_cmds = None
            name = op[0]
            if name in STARTS:
                exp = (0, False)
                exp_cmds = [["goto", op[1][0]], ["setSpeed", speed]]
            elif name == "stop":
                exp = None
                exp_cmds = []
            elif name == "setWaypoint":
                exp = (op[1], rev0)
                exp_cmds = [["goto", m0[op[1]]]]
            elif stepped:
                exp = (spec.wp, spec.rev) if spec.m is not None else None
                exp_cmds = [["goto", spec.m[spec.wp]]] if spec.m is not None else []
            else:
                exp = (wp0, rev0) if was_active else None
                exp_cmds = []
            if chained or r.get("nested"):
                # the call went on inside its own commands (the queue started its next leg / arrivals were reported
                # at once): where the mission stands after all of it; which commands that took is not prescribed
                # beyond "the last goto is the current waypoint" above
                exp = (spec.wp, spec.rev) if spec.m is not None else None
                exp_cmds = None
                stepped = True
            got = (wp, rev) if wp is not None else None
            if got != exp:
                sig = {"start": "C16:start", "startFile": "C16:start", "stop": "C16:stop",
                       "setWaypoint": "C16:set-waypoint"}.get(name)
                if sig is None or chained or r.get("nested"):
                    sig = "C16:visit-order" if stepped else "C16:unreached-changed"
                fails.append((sig, f"{where} in mode {case['loop']} from (waypoint {wp0}, reversed {rev0}) of "
                              f"{len(m0) if m0 else 0}: expected (waypoint, reversed) = {exp}, observed {got}"))
            elif exp_cmds is not None and r["cmds"] != exp_cmds:
                fails.append(("C16:commands", f"{where}: expected commands {cmds_text(exp_cmds)}, provider received {cmds_text(r['cmds'])}"))
        prev = state
    return _first_of_each(fails)


def flag_clauses(where, r, note=""):
    """idle exactly when there is no current waypoint; never reversed while idle"""
    wp, rev, idle = r["wp"], r["reversed"], r["idle"]
    fails = []
    if idle != (wp is None):
        fails.append(("C16:flags", f"after {where}{note} is_idle={idle} with current_waypoint={wp!r}"))
    if idle and rev:
        fails.append(("C16:flags", f"after {where}{note} is_reversed while idle"))
    return fails


def _first_of_each(fails):
    """de-duplicate by signature keeping order"""
    seen, out = set(), []
    for f in fails:
        if f[0] not in seen:
            seen.add(f[0])
            out.append(f)
    return out


# ------------------------------------------------------------------------------------------------
class _Where:
    """'op #k <call>' rendered only when a message is actually built"""

    def __init__(self, k, op, tag=""):
        self.k, self.op, self.tag = k, op, tag

    def __format__(self, spec):
        return f"op #{self.k}{self.tag} {op_text(self.op)}"


def pos_text(p):
    return "(" + ", ".join(f"{bitsf(b):g}" for b in p) + ")"


def cmds_text(cs):
    return [[c[0], pos_text(c[1]) if c[0] == "goto" else (f"{bitsf(c[1]):g}" if c[0] == "setSpeed" else c[1:])] for c in cs]


def op_text(op):
    if op[0] == "start":
        return "start_mission([" + ", ".join(pos_text(p) for p in op[1]) + "])"
    if op[0] == "startFile":
        return (f"start_mission_with_waypoint_file({op[2] if len(op) > 2 else 'mission.txt'!r} containing ["
                + ", ".join(pos_text(p) for p in op[1]) + "])")
    if op[0] == "telemetry":
        return "telemetry" + pos_text(op[1])
    if op[0] == "setWaypoint":
        return f"set_current_waypoint({op[1]})"
    if op[0] == "setReversed":
        return f"set_reversed({op[1]})"
    return "stop_mission()"


def fleet_events(case, impl):
    """concurrent = a member steps (reached waypoint or direction switch) or is set to a waypoint index >= 1 while
    another member has a mission in progress whose waypoint at that index is a different position"""
    k = len(case["members"])
    mission, wp = [None] * k, [None] * k
    ev = {"concurrent": 0, "concurrent_members": set(), "both_active_calls": 0, "same_mission_active": 0}
    for (who, op), r in zip(case["ops"], impl["results"]):
        if op[0] in STARTS:
            mission[who] = op[1]
        wp[who] = r["wp"]
        active = [j for j in range(k) if mission[j] and isinstance(wp[j], int)]
        if who in active and len(active) >= 2:
            ev["both_active_calls"] += 1
            if any(j != who and mission[j] == mission[who] for j in active):
                ev["same_mission_active"] += 1
            i = wp[who]
            if op[0] not in STARTS and i >= 1 and any(c[0] == "goto" for c in r["cmds"]) and i < len(mission[who]) and any(
                    j != who and i < len(mission[j]) and mission[j][i] != mission[who][i] for j in active):
                ev["concurrent"] += 1
                ev["concurrent_members"].add(who)
    ev["concurrent_members"] = len(ev["concurrent_members"])
    return ev


def events(case, impl):
    """what happened, read off the implementation's observations: bounces, wraps, completions, refusals"""
    if "members" in case:
        tot = {}
        for i in range(len(case["members"])):
            sub, subimpl, _ = member_view(case, impl, i)
            for key, v in events(sub, subimpl).items():
                tot[key] = tot.get(key, 0) + v
        return tot
    ev = {"top": 0, "bottom": 0, "wrap": 0, "finished": 0, "refused": 0, "reached": 0, "unreached": 0,
          "late": 0}
    prev = (None, False)
    n = 0
    finished = False
    for op, r in zip(case["ops"], impl["results"]):
        if op[0] in STARTS:
            n = len(op[1])
            finished = False
        if r["out"] == "refused":
            ev["refused"] += 1
        if finished and op[0] not in STARTS:
            ev["late"] += 1
        if op[0] == "telemetry" and prev[0] is not None:
            if r["cmds"] or r["wp"] is None:
                ev["reached"] += 1
                if r["wp"] is None:
                    ev["finished"] += 1
                    finished = True
                elif case["loop"] == "REVERSE" and not prev[1] and r["reversed"]:
                    ev["top"] += 1
                elif case["loop"] == "REVERSE" and prev[1] and not r["reversed"]:
                    ev["bottom"] += 1
                elif case["loop"] == "RESTART" and prev[0] == n - 1 and r["wp"] == 0:
                    ev["wrap"] += 1
            else:
                ev["unreached"] += 1
        prev = (r["wp"], r["reversed"])
    return ev


# ------------------------------------------------------------------------------------------------
# generators
def P(x, y, z):
    return v3bits((float(x), float(y), float(z)))


def shifted(p, d):
    q = bitsv3(p)
    return P(q[0] + d[0], q[1] + d[1], q[2] + d[2])


def boundary_offsets(tol):
    """offsets whose squared length is exactly tol² (axis-aligned, and 3-4-5 when tol is a multiple of 1.25)"""
    out = [(tol, 0, 0), (0, -tol, 0), (0, 0, tol), (-tol, 0, 0)]
    s = tol / 5.0
    if (s * 8) == int(s * 8):
        out += [(3 * s, 4 * s, 0), (0, -4 * s, 3 * s), (-4 * s, 0, -3 * s)]
    return out


def make_mission(r, n, tol):
    kind = r.choice(["spread", "spread", "line", "close", "dup"])
    pts = []
    for k in range(n):
        if kind == "line":
            pts.append((10.0 * k, 0.0, 5.0))
        elif kind == "close" and pts:
            a = pts[-1]
            pts.append((a[0] + tol / 2, a[1], a[2]))          # consecutive waypoints within the tolerance
        elif kind == "dup" and pts and r.random() < 0.5:
            pts.append(r.choice(pts))                          # repeated waypoint
        else:
            pts.append((r.randint(-320, 320) / 8.0, r.randint(-320, 320) / 8.0, r.randint(0, 160) / 8.0))
    return [P(*p) for p in pts]


def telemetry_pos(r, spec, tol, how):
    tgt = spec.target()
    m = spec.m
    if tgt is None:
        return P(r.randint(-40, 40), r.randint(-40, 40), 0)
    if how == "on":
        return list(tgt)
    if how == "edge":
        return shifted(tgt, r.choice(boundary_offsets(tol)))
    if how == "inside":
        return shifted(tgt, r.choice([(tol - 0.125, 0, 0), (0, 0.125 - tol, 0), (0.125, 0.125, -0.125)]))
    if how == "outside":
        o = r.choice(boundary_offsets(tol))
        ax = r.randrange(3)
        o = tuple(c + (0.125 if c >= 0 else -0.125) if i == ax else c for i, c in enumerate(o))
        return shifted(tgt, o)
    if how == "other":          # standing on another waypoint of the mission (previous / next / first / last)
        return list(m[r.choice([spec.wp - 1, (spec.wp + 1) % len(m), 0, -1])])
    if how == "rough":          # not on the lattice, clearly inside (< tol/2) or clearly outside (> 2 tol)
        q = bitsv3(tgt)
        d = r.choice([r.uniform(0.0, 0.28) * tol, r.uniform(2.0, 9.0) * tol])
        return P(q[0] + d, q[1] - d, q[2] + d / 3)
    return shifted(tgt, (r.choice([-1, 1]) * (3 * tol + r.randint(1, 80)), r.randint(-8, 8), 0))     # far


def next_op(r, spec, style, n, tol):
    """the next call of one plugin's history, aimed with its expected status `spec`"""
    x = r.random()
    tele = {"walk": 0.78, "mixed": 0.5, "abuse": 0.3}[style]
    if x < tele:
        if style == "walk":
            how = r.choice(["on", "on", "on", "edge", "edge", "inside", "outside", "far", "other", "rough"])
        else:
            how = r.choice(["on", "edge", "inside", "outside", "far", "other", "rough", "on"])
        return ["telemetry", telemetry_pos(r, spec, tol, how)]
    y = r.random()
    ln = len(spec.m) if spec.m is not None else n
    if y < 0.30:
        i = r.choice([r.randrange(ln), r.randrange(ln), ln - 1, 0, -1, ln, ln + r.randint(1, 3), -r.randint(2, 9), 10 ** 6])
        return ["setWaypoint", i]
    if y < 0.62:
        return ["setReversed", r.random() < 0.5]
    if y < 0.74:
        return ["stop"]
    if y < 0.86:
        n2 = n if r.random() < 0.5 else r.choice([1, 2, 3, 4, 5])
        return ["start", make_mission(r, n2, tol)]
    return ["telemetry", telemetry_pos(r, spec, tol, "on")]


def gen_history(seed, max_ops=40):
    r = random.Random(stable_hash("mission", seed))
    loop = r.choice(MODES)
    n = r.choice([1, 1, 2, 2, 3, 4, 5])
    tol = r.choice(TOLS)
    style = r.choice(["walk", "walk", "mixed", "abuse"])
    spec = Spec(loop, fbits(tol))
    n_ops = r.randint(1, max_ops)
    ops = []

    def push(op):
        ops.append(op)
        spec.apply(op)

    if r.random() < 0.9:
        push(["start", make_mission(r, n, tol)])
    while len(ops) < n_ops:
        push(next_op(r, spec, style, n, tol))
    return {"kind": "mission", "loop": loop, "tol": fbits(tol), "speed": fbits(r.choice(SPEEDS)), "ops": ops}


def gen_usage(seed, max_ops=30):
    """one plugin used in a way the stock classes never produce (one of three, see `_UsageProvider`, `_QueuePlugin`):
    sync  - the back-end completes the first k (1-6) gotos of every call at once and reports the arrival from inside
            `send_mobility_command`; short missions, so that whole missions (NO: up to their end) unwind inside one
            start_mission / set_current_waypoint / telemetry call;
    fail  - the back-end does not accept 1-2 of the first mobility commands of the history (the first goto or the
            set-speed of a start_mission among them), the caller catches the error and goes on, sooner or later with a
            stop_mission or a new start_mission;
    chain - a subclass whose stop_mission() starts the next of 1-3 queued legs; the legs are flown exactly or walked,
            so that missions end by telemetry on their last waypoint as well as by request."""
    r = random.Random(stable_hash("mission-usage", seed))
    kind = r.choice(["sync", "fail", "chain"])
    loop = r.choice(MODES + ["NO"] * (1 if kind == "fail" else 3))
    tol = r.choice(TOLS)
    n = r.choice([1, 1, 2, 2, 3, 4])
    style = r.choice(["walk", "walk", "mixed", "abuse"])
    usage, budget, queue = {}, 0, None
    if kind == "sync":
        budget = r.choice([1, 1, 2, 3, 4, 6])
        usage["provider"] = {"sync": budget}
    elif kind == "fail":
        usage["provider"] = {"failAt": sorted(set(r.choice([0, 0, 1, 1, 2, 3, r.randint(2, 12)]) for _ in range(r.choice([1, 1, 2]))))}
    else:
        queue = [make_mission(r, r.choice([1, 2, 2, 3]), tol) for _ in range(r.randint(1, 3))]
        usage["chain"] = queue
    spec = Spec(loop, fbits(tol), queue)
    n_ops = r.randint(2, max_ops)
    ops = []

    def push(op):
        ops.append(op)
        spec.apply_sync(op, budget)

    if r.random() < 0.9:
        push(["start", make_mission(r, n, tol)])
    exact = kind == "chain" and r.random() < 0.5
    while len(ops) < n_ops:
        if exact and spec.m is not None and r.random() < 0.85:
            push(["telemetry", list(spec.target())])
        elif kind == "fail" and r.random() < 0.15:
            push(r.choice([["stop"], ["start", make_mission(r, r.choice([1, 2, 3]), tol)]]))
        else:
            push(next_op(r, spec, style, n, tol))
    return {"kind": "mission", "loop": loop, "tol": fbits(tol), "speed": fbits(r.choice(SPEEDS)), "usage": usage, "ops": ops}


def usage_events(case, impl):
    """what the usage shapes actually exercised (read off the observations)"""
    ev = {}
    usage = case.get("usage") or {}
    legs = len(usage.get("chain", []))
    for op, r in zip(case["ops"], impl["results"]):
        if r.get("nested"):
            ev["sync_calls_with_arrivals_inside"] = ev.get("sync_calls_with_arrivals_inside", 0) + 1
            if r["wp"] is None:
                ev["sync_mission_ended_inside_" + op[0]] = ev.get("sync_mission_ended_inside_" + op[0], 0) + 1
        if r["out"] == "backend-failed":
            ev["backend_failed_in_" + op[0]] = ev.get("backend_failed_in_" + op[0], 0) + 1
        if legs and op[0] in ("telemetry", "stop") and len(r["cmds"]) >= 2 and any(c[0] == "setSpeed" for c in r["cmds"]):
            key = "chain_next_leg_after_" + ("natural_end" if op[0] == "telemetry" else "stop_request")
            ev[key] = ev.get(key, 0) + 1
    return ev


def gen_fleet(seed, max_ops=60):
    """2-4 plugins alive at the same time, each with its own protocol, provider, configuration and mission, their
    histories (the single-plugin generator's, each aimed at the member's own expected target) interleaved call by
    call.  Members often fly missions of the same length with different waypoints, sometimes the very same mission
    (then the same list object when `share` is set), sometimes equal configurations (then the same object)."""
    r = random.Random(stable_hash("mission-fleet", seed))
    k = r.choice([2, 2, 2, 3, 3, 4])
    same_cfg = r.random() < 0.4
    base = (r.choice(MODES), r.choice(TOLS), r.choice(SPEEDS + [5.0]))
    n = r.choice([2, 2, 3, 3, 4, 5, 1])
    members, gens = [], []
    for i in range(k):
        loop, tol, speed = base if (same_cfg or r.random() < 0.3) else (r.choice(MODES), r.choice(TOLS), r.choice(SPEEDS))
        members.append({"loop": loop, "tol": fbits(tol), "speed": fbits(speed)})
        gens.append({"spec": Spec(loop, fbits(tol)), "tol": tol, "n": n if r.random() < 0.7 else r.choice([1, 2, 3, 4, 5]),
                     "style": r.choice(["walk", "walk", "walk", "mixed", "abuse"])})
    ops = []

    def push(i, op):
        ops.append([i, op])
        gens[i]["spec"].apply(op)

    first = None
    for i in r.sample(range(k), k):
        if r.random() < 0.9:
            g = gens[i]
            if first is not None and r.random() < 0.2:
                push(i, ["start", first])                       # the same mission as another member
            else:
                push(i, ["start", make_mission(r, g["n"], g["tol"])])
                first = first or ops[-1][1][1]
    n_ops = r.randint(len(ops) + 1, max_ops)
    burst = r.random() < 0.3                                    # a member makes a few calls in a row
    i = r.randrange(k)
    while len(ops) < n_ops:
        if not (burst and r.random() < 0.6):
            i = r.randrange(k)
        g = gens[i]
        push(i, next_op(r, g["spec"], g["style"], g["n"], g["tol"]))
    return {"kind": "missionFleet", "members": members, "share": r.random() < 0.5, "ops": ops}


def with_files(case, r, mode):
    """the same history with its `start_mission(list)` calls made through `start_mission_with_waypoint_file`
    (mode 'all': every one, 'mixed': every other one on average): each node mostly keeps one file name that it
    rewrites for every re-planning, sometimes uses a new name per plan, sometimes the name another node uses too"""
    fleet = "members" in case
    ops, k = [], 0
    for o in case["ops"]:
        who, op = (o[0], o[1]) if fleet else (0, o)
        if op[0] == "start" and op[1] and (mode == "all" or r.random() < 0.5):
            k += 1
            name = r.choice([f"wp_{who}.txt", f"wp_{who}.txt", f"plan_{k}.txt", "mission.txt"])
            op = ["startFile", op[1], name, r.choice(FILE_STYLES)]
        ops.append([who, op] if fleet else op)
    return dict(case, ops=ops)


def gen_replan(seed, max_ops=60):
    """one node that re-plans: 2-4 missions in succession, each loaded from a waypoint file (now and then one is
    handed over as a list), of lengths 1-5 that usually differ from plan to plan; each plan is flown exactly
    (one telemetry on every waypoint in turn) or walked like the generated histories (telemetry on / at the
    edge of / off the target, manual waypoint and direction requests - among them indices just past the end of
    the CURRENT plan, which an earlier, longer plan had -, stop), to the end or until the next plan arrives"""
    r = random.Random(stable_hash("mission-replan", seed))
    loop = r.choice(MODES)
    tol = r.choice(TOLS)
    spec = Spec(loop, fbits(tol))
    ops = []

    def push(op):
        ops.append(op)
        spec.apply(op)

    own = r.choice(["mission.txt", "waypoints.csv", "plan.txt"])
    phases = r.randint(2, 4)
    for ph in range(phases):
        n = r.choice([1, 2, 2, 3, 3, 4, 5])
        m = make_mission(r, n, tol)
        if r.random() < 0.85:
            push(["startFile", m, own if r.random() < 0.6 else f"plan_{ph}.txt", r.choice(FILE_STYLES)])
        else:
            push(["start", m])
        if r.random() < 0.4:
            laps = 1 if loop == "NO" else r.choice([1, 1, 2])
            for _ in range(r.randint(max(1, n - 1), n * laps + (0 if loop == "NO" else 2))):
                if spec.m is None:
                    break
                push(["telemetry", list(spec.target())])
            if r.random() < 0.5:
                push(["setWaypoint", r.choice([n, n - 1, n + 1, 0])])
        else:
            style = r.choice(["walk", "walk", "mixed"])
            for _ in range(r.randint(n, 3 * n + 4)):
                push(next_op(r, spec, style, n, tol))
        if spec.m is not None and r.random() < 0.35:
            push(["stop"])
        if len(ops) >= max_ops:
            break
    return {"kind": "mission", "loop": loop, "tol": fbits(tol), "speed": fbits(r.choice(SPEEDS)), "ops": ops}


def enum_mission(n):
    return [P(16 * k, 0, 2) for k in range(n)]


def enum_alphabet(n):
    wps = sorted({-1, 0, n - 1, n})
    return ([("start",), ("stop",)] + [("setWaypoint", i) for i in wps]
            + [("setReversed", True), ("setReversed", False), ("tele", "on"), ("tele", "off")])


def enumerate_histories(n, loop, depth, first=None):
    """every history of exactly `depth` calls over enum_alphabet(n) (optionally with a fixed first call);
    the per-call observations cover every shorter history, these being prefixes.
    'tele on' stands on the expected current target, 'tele off' far from every waypoint."""
    tol = fbits(1.0)
    mission = enum_mission(n)
    off = P(-500, 300, 0)
    alpha = enum_alphabet(n)
    rest = depth - (1 if first is not None else 0)
    for combo in itertools.product(alpha, repeat=rest):
        spec = Spec(loop, tol)
        ops = []
        for c in (([first] if first is not None else []) + list(combo)):
            if c[0] == "start":
                op = ["start", mission]
            elif c[0] == "tele":
                op = ["telemetry", (spec.target() if spec.m is not None else mission[0]) if c[1] == "on" else off]
            elif c[0] == "stop":
                op = ["stop"]
            else:
                op = [c[0], c[1]]
            ops.append(op)
            spec.apply(op)
        yield {"kind": "mission", "loop": loop, "tol": tol, "speed": fbits(5.0), "ops": ops, "label": "enum"}


def enumerate_file_histories(loop, depth, first=None):
    """every history of exactly `depth` calls over: load file a (3 waypoints), load file b (2 other waypoints),
    stop, set_current_waypoint(2) (valid for a, past the end of b), telemetry on the expected target"""
    tol = fbits(1.0)
    plans = {"a": enum_mission(3), "b": [P(16 * k, 48, 2) for k in range(2)]}
    alpha = [("file", "a"), ("file", "b"), ("stop",), ("setWaypoint", 2), ("tele",)]
    rest = depth - (1 if first is not None else 0)
    for combo in itertools.product(alpha, repeat=rest):
        spec = Spec(loop, tol)
        ops = []
        for c in (([first] if first is not None else []) + list(combo)):
            if c[0] == "file":
                op = ["startFile", plans[c[1]], c[1] + ".txt", "plain"]
            elif c[0] == "tele":
                op = ["telemetry", spec.target() if spec.m is not None else plans["a"][0]]
            else:
                op = list(c)
            ops.append(op)
            spec.apply(op)
        yield {"kind": "mission", "loop": loop, "tol": tol, "speed": fbits(5.0), "ops": ops, "label": "enum"}


def enumerate_file_fleets(loop, depth, letters):
    """two plugins in mode `loop` that each loaded their own file (3 and 2 waypoints, all different), then every
    interleaving of exactly `depth` further calls, per member over `letters` (own file again, set_current_waypoint(2),
    telemetry on the member's own expected target, stop)"""
    tol = fbits(1.0)
    plans = [enum_mission(3), [P(16 * k, 48, 2) for k in range(2)]]
    members = [{"loop": loop, "tol": tol, "speed": fbits(5.0)} for _ in plans]
    alpha = [(i,) + a for i in (0, 1) for a in letters]
    for combo in itertools.product(alpha, repeat=depth):
        specs = [Spec(loop, tol) for _ in plans]
        ops = []
        for c in ((0, "file"), (1, "file")) + combo:
            i, spec = c[0], specs[c[0]]
            if c[1] == "file":
                op = ["startFile", plans[i], f"node{i}.txt", "plain"]
            elif c[1] == "tele":
                op = ["telemetry", spec.target() if spec.m is not None else plans[i][0]]
            else:
                op = list(c[1:])
            ops.append([i, op])
            spec.apply(op)
        yield {"kind": "missionFleet", "members": members, "share": False, "ops": ops, "label": "enum"}


def enum_fleet_alphabet(n):
    return [("start",), ("stop",), ("setWaypoint", n - 1), ("setReversed", True), ("setReversed", False), ("tele", "on")]


def enumerate_fleets(n, loops, depth):
    """two plugins in modes `loops`, both started on missions of length n that differ at every index, then every
    interleaving of exactly `depth` further calls over enum_fleet_alphabet(n) for either member
    ('tele on' stands on the called member's own expected target)."""
    tol = fbits(1.0)
    missions = [enum_mission(n), [P(16 * k, 48, 2) for k in range(n)]]
    members = [{"loop": lp, "tol": tol, "speed": fbits(5.0)} for lp in loops]
    alpha = [(i,) + a for i in (0, 1) for a in enum_fleet_alphabet(n)]
    for combo in itertools.product(alpha, repeat=depth):
        specs = [Spec(lp, tol) for lp in loops]
        ops = []
        for c in ((0, "start"), (1, "start")) + combo:
            i, spec = c[0], specs[c[0]]
            if c[1] == "start":
                op = ["start", missions[i]]
            elif c[1] == "tele":
                op = ["telemetry", spec.target() if spec.m is not None else missions[i][0]]
            elif c[1] == "stop":
                op = ["stop"]
            else:
                op = [c[1], c[2]]
            ops.append([i, op])
            spec.apply(op)
        yield {"kind": "missionFleet", "members": members, "share": False, "ops": ops, "label": "enum"}


# ------------------------------------------------------------------------------------------------
class C16(Check):
    prop = "C16"
    level_text = ("Theorems over every history of start / stop / set-waypoint / set-reversed / telemetry calls on the Lean model "
                  "of the mission plugin, for every non-empty mission (lengths 1 and 2 included), loop mode and scalar type "
                  "(the 'reached' decision is an arbitrary Boolean): the invariant 'active => valid index, not idle, last goto "
                  "= mission[index]; inactive => no waypoint, idle, not reversed' holds after every call; refused calls are "
                  "no-ops and are refused exactly when invalid; a reached waypoint moves the index as the loop mode dictates and "
                  "issues the goto. For several plugins alive at once (a list of configuration/state pairs, calls interleaved): a call "
                  "leaves every other member untouched, every member is in the state its own calls alone lead to, hence the invariant "
                  "for each member after every interleaved history. The model is tied to the real plugin(s) by running both on "
                  "generated and enumerated histories. start_mission_with_waypoint_file is start_mission of the positions its "
                  "parsing loop collects from the lines of the file, a new list per call (C16_file_mission_is_the_file, C16_file_start): "
                  "every clause holds for histories with file-based starts, the mission being the content of the file.")
    rule = ("histories of 1-40 public calls on the real plugin (mission lengths 1-5 x NO/RESTART/REVERSE; telemetry on target, "
            "exactly on / just inside / just outside the tolerance sphere on a dyadic lattice, on other waypoints, far away; "
            "out-of-bounds set_current_waypoint, set_reversed in every mode, calls before start and after the mission ended); "
            "plus small-scope enumeration over a 9-10 letter alphabet (start, stop, set_current_waypoint(-1|0|len-1|len), "
            "set_reversed(T|F), telemetry on/off the expected target) for lengths 1-4 x 3 modes: quick = every history of <= 3 calls "
            "and (lengths 1, 2) of <= 4 calls beginning with start_mission; thorough = every history of <= 4 calls and every history of <= 6 calls "
            "beginning with start_mission. "
            "Fleets: 700 (thorough 8000) histories of <= 60 interleaved calls on 2-4 real plugins alive in the same process, each on its "
            "own protocol/provider with its own or an equal configuration, missions of mostly equal length and different waypoints "
            "(sometimes the same mission; in half of the cases equal configurations / missions are the same Python object and the "
            "constructor's default configuration is used when it equals the wanted one), every member judged on its own calls and "
            "commands and required not to move on calls made on another member; plus every interleaving of 3 (thorough 4) calls over "
            "a 6-letter alphabet per member on two started plugins (lengths 2, 3; both in the same mode; thorough also every mixed "
            "pair of modes). "
            "Waypoint files: 200 generated histories and 250 fleets (thorough 2000 each) with all / half of their starts made through "
            "start_mission_with_waypoint_file (the positions written as 'x,y,z' lines in several spellings of the same doubles, LF / CRLF, "
            "with / without final newline, to a file the node re-uses for every plan, a new file per plan, or a name another node uses "
            "too), 250 (2000) re-planning nodes flying 2-4 plans of lengths 1-5 one after the other from files (exactly or walked, with "
            "requests for indices just past the end of the current plan), every history of start-from-file-a + 3 calls (thorough: every "
            "history of 4 calls, and file-a + 5 calls) over {load file a (3 waypoints), load file b (2), stop, set_current_waypoint(2), "
            "telemetry on target} per mode, and two nodes that loaded their own files followed by every interleaving of 2 (thorough 3) "
            "calls over {own file again, set_current_waypoint(2), telemetry on target, stop} per member; the mission the oracle reads "
            "is the content of the file at the time of the call. Every history with a file-based start runs in a process of its own "
            "(forked from an interpreter that only imported the plugin), so its verdict depends on nothing but its calls. "
            "Usage shapes (900, thorough 12000 histories of <= 30 calls on one plugin, judged by the oracle alone - the Lean model has "
            "neither re-entrant commands nor subclasses): a back-end (an IProvider of the user) that completes the first 1-6 gotos of "
            "every call at once and reports the arrival on the target from inside send_mobility_command, so that whole missions "
            "(NO: up to their end) unwind inside one start_mission / set_current_waypoint / telemetry call - the arrivals it reported "
            "are read as telemetry calls in that order and the status after the call must be where they lead; a back-end that raises "
            "for 1-2 of the first mobility commands of the history (the goto or the set-speed of a start_mission among them), the "
            "caller catching the error - from then until the next completed stop_mission / start_mission only 'idle exactly when "
            "there is no current waypoint, never reversed while idle' is evaluated; a subclass whose stop_mission() calls "
            "super().stop_mission() and starts the next of 1-3 queued legs, missions ending by telemetry on the last waypoint as "
            "well as by request - the mission in progress is then the leg just started. The flag clause is also evaluated on "
            "histories with an empty mission (otherwise outside the property's domain). "
            "non-trivial = the history contains a refused request AND (REVERSE: bounces at the last and at the first waypoint; "
            "RESTART: wraps from the last waypoint to the first; NO: runs to completion and is called again afterwards); "
            "fleet: at least two members step to / are set to a waypoint index >= 1 while another member has a mission in progress "
            "whose waypoint at that index is a different position")
    assumptions = ["missions are non-empty (start_mission([]) raises IndexError after changing the fields; domain note)",
                   "the caller does not mutate the mission list it handed to start_mission, and no other component sends mobility commands",
                   "set_current_waypoint gets an int and set_reversed a bool",
                   "waypoint files exist, are well-formed ('x,y,z' per line, no blank lines) and non-empty; the file is not changed while it is being read",
                   "fleets: one plugin per protocol instance (two mission plugins on one protocol would send each other's node around, see the plugin's docstring)",
                   "boundary decisions are generated on a dyadic lattice where float arithmetic is exact; off-lattice positions stay clear of the tolerance sphere"]
    modelled = ["gradysim/protocol/plugin/mission_mobility.py (all of MissionMobilityPlugin; of start_mission_with_waypoint_file the "
                "list-building loop and the hand-over to start_mission - reading the text of a line into three doubles is Python's float(), "
                "not modelled; unreadable / malformed files (exit(1)) are outside the property)"]

    quick_n = 2500
    thorough_n = 30000
    quick_fleets = 700
    thorough_fleets = 8000
    quick_usage = 900
    thorough_usage = 12000
    quick_files = (200, 250, 250)          # histories / fleets re-run with file-based starts, re-planning nodes
    thorough_files = (2000, 2000, 2000)

    def generate(self, seed, tier):
        n = self.quick_n if tier == "quick" else self.thorough_n
        for i in range(n):
            h = gen_history(stable_hash("C16", seed, i))
            h["label"] = f"gen/{seed}/{i}"
            yield h
        # several plugins alive at the same time (the nodes of one simulation), calls interleaved
        for i in range(self.quick_fleets if tier == "quick" else self.thorough_fleets):
            h = gen_fleet(stable_hash("C16", "fleet", seed, i))
            h["label"] = f"fleet/{seed}/{i}"
            yield h
        # one plugin behind a back-end that completes moves at once / refuses a command, or subclassed into a
        # mission queue (judged by the oracle alone: the Lean model has neither re-entrant commands nor subclasses)
        for i in range(self.quick_usage if tier == "quick" else self.thorough_usage):
            h = gen_usage(stable_hash("C16", "usage", seed, i))
            h["label"] = f"usage/{seed}/{i}"
            yield h
        # missions loaded from waypoint files (each such case runs in a process of its own): the generated
        # shapes above with (some of) their starts made through files, several nodes each loading its own
        # file, and nodes that re-plan from one file after another
        nh, nf, nr = self.quick_files if tier == "quick" else self.thorough_files

        def ahead(h):
            return _Fresh.ahead(h) if loads_files(h) else h
        for i in range(nh):
            r = random.Random(stable_hash("C16", "files", seed, i))
            h = with_files(gen_history(stable_hash("C16", "files-h", seed, i)), r, r.choice(["all", "mixed"]))
            h["label"] = f"files/{seed}/{i}"
            yield ahead(h)
        for i in range(nf):
            r = random.Random(stable_hash("C16", "file-fleet", seed, i))
            h = with_files(gen_fleet(stable_hash("C16", "file-fleet-h", seed, i)), r, r.choice(["all", "all", "mixed"]))
            h["label"] = f"file-fleet/{seed}/{i}"
            yield ahead(h)
        for i in range(nr):
            h = gen_replan(stable_hash("C16", "replan", seed, i))
            h["label"] = f"replan/{seed}/{i}"
            yield ahead(h)
        for loop in MODES:
            if tier == "quick":
                yield from map(ahead, enumerate_file_histories(loop, 4, first=("file", "a")))
                yield from map(ahead, enumerate_file_fleets(loop, 2, [("file",), ("setWaypoint", 2), ("tele",), ("stop",)]))
            else:
                yield from map(ahead, enumerate_file_histories(loop, 4))
                yield from map(ahead, enumerate_file_histories(loop, 6, first=("file", "a")))
                yield from map(ahead, enumerate_file_fleets(loop, 3, [("file",), ("setWaypoint", 2), ("tele",), ("stop",)]))
        # small scope: every history over the 9-10 letter alphabet of enum_alphabet, per length and mode.
        # quick: all histories of <= 3 calls, and (lengths 1, 2) start_mission followed by every 3 further calls;
        # thorough: all histories of <= 4 calls, and start_mission followed by every 5 further calls
        # (calls made before the first start_mission act on the initial state only).
        for ln in (1, 2, 3, 4):
            for loop in MODES:
                if tier == "quick":
                    yield from enumerate_histories(ln, loop, 3)
                    if ln <= 2:
                        yield from enumerate_histories(ln, loop, 4, first=("start",))
                else:
                    yield from enumerate_histories(ln, loop, 4)
                    yield from enumerate_histories(ln, loop, 6, first=("start",))
        # two started plugins on different missions, every interleaving of 3 (thorough: 4) further calls
        for loop in MODES:
            for ln in (2, 3):
                yield from enumerate_fleets(ln, (loop, loop), 3 if tier == "quick" else 4)
        if tier != "quick":
            for a, b in itertools.permutations(MODES, 2):
                yield from enumerate_fleets(2, (a, b), 3)

    def widen(self, seed, tier):
        for i in range(4000):
            yield gen_history(stable_hash("C16", "widen", seed, i))
            if i % 4 == 0:
                yield gen_fleet(stable_hash("C16", "widen-fleet", seed, i))
            if i % 8 == 1:
                yield gen_replan(stable_hash("C16", "widen-replan", seed, i))
            if i % 2 == 1:
                yield gen_usage(stable_hash("C16", "widen-usage", seed, i))
            if i % 8 == 5:
                yield with_files(gen_fleet(stable_hash("C16", "widen-file-fleet", seed, i)),
                                 random.Random(stable_hash("C16", "widen-files", seed, i)), "all")

    def run_impl(self, case):
        return run_impl(case)

    def model_input(self, case, impl):
        if case.get("usage"):
            return None         # oracle only
        if "members" in case:
            return {"kind": "missionFleet", "members": case["members"], "ops": case["ops"]}
        return {"kind": "mission", "loop": case["loop"], "speed": case["speed"], "tol": case["tol"], "ops": case["ops"]}

    def compare(self, case, impl, model):
        a = [dict(r, out="crash" if r["out"].startswith("crash") else r["out"]) for r in impl["results"]]
        b = model["results"]
        fleet = "members" in case
        for k, r in enumerate(a):
            if "others" in r:       # the model's members share nothing: a call on one never shows on another
                o = r["others"][0]
                return [f"call #{k} {op_text(case['ops'][k][1])} on plugin #{case['ops'][k][0]} changed plugin "
                        f"#{o['member']} ({o['before']} -> {o['after']}, commands {cmds_text(o['cmds'])}); in the model it cannot"]
        if len(a) != len(b):
            return [f"observation length differs: implementation {len(a)} vs model {len(b)}"]
        if a == b:
            model["results"] = len(b)          # agreed: keep the count only (the framework holds every row in memory)
            return []
        for k, (x, y) in enumerate(zip(a, b)):
            if x != y:
                keys = [f for f in ("out", "wp", "reversed", "idle", "cmds") if x.get(f) != y.get(f)]
                call = (f"{op_text(case['ops'][k][1])} on plugin #{case['ops'][k][0]} ({case['members'][case['ops'][k][0]]['loop']})"
                        if fleet else f"{op_text(case['ops'][k])} ({case['loop']})")
                return [f"after call #{k} {call}: " + "; ".join(
                    f"{f}: implementation {json.dumps(x.get(f))[:160]} vs model {json.dumps(y.get(f))[:160]}" for f in keys)]
        return []

    def oracle(self, case, impl):
        return oracle(case, impl)

    def nontrivial(self, case, impl):
        if not in_domain(case):
            return False
        if "members" in case:
            # at least two members stepped to / were set to an index >= 1 while another member had a mission
            # in progress with a different waypoint at that index
            return fleet_events(case, impl)["concurrent_members"] >= 2
        ev = events(case, impl)
        if not ev["refused"]:
            return False
        if case["loop"] == "REVERSE":
            return ev["top"] >= 1 and ev["bottom"] >= 1
        if case["loop"] == "RESTART":
            return ev["wrap"] >= 1
        return ev["finished"] >= 1 and ev["late"] >= 1

    def key(self, case, impl):
        if "members" in case:
            return json.dumps([case["members"], case["ops"]])
        return case["loop"] + case["tol"] + json.dumps(case["ops"]) + (json.dumps(case["usage"]) if case.get("usage") else "")

    def sample(self, case, impl):
        if "members" in case:
            return {"label": case.get("label"), "members": [[m["loop"], bitsf(m["tol"])] for m in case["members"]],
                    "calls": [f"#{who}: {op_text(op)}" for who, op in case["ops"][:12]],
                    "observed": [[r["out"], r["wp"], r["reversed"], r["idle"], cmds_text(r["cmds"])] for r in impl["results"][:12]]}
        return {"label": case.get("label"), "loop": case["loop"], "tolerance": bitsf(case["tol"]),
                "calls": [op_text(op) for op in case["ops"][:12]],
                "observed": [[r["out"], r["wp"], r["reversed"], r["idle"], cmds_text(r["cmds"])] for r in impl["results"][:12]]}

    def stats(self, case, impl, acc):
        def inc(k, d=1):
            acc[k] = acc.get(k, 0) + d
        inc("histories")
        inc("histories_" + ("enumerated" if case.get("label") == "enum" else "generated_or_corpus"))
        if "members" in case:
            inc("fleet_histories")
            inc(f"fleet_of_{len(case['members'])}")
            if case.get("share"):
                inc("fleet_shared_objects")
            for m in case["members"]:
                inc("mode_" + m["loop"])
            for k, v in fleet_events(case, impl).items():
                if v:
                    inc("fleet_" + k, v)
        else:
            inc("mode_" + case["loop"])
        inc("calls", len(case["ops"]))
        loads = [o for o in case["ops"] if (o[1] if "members" in case else o)[0] == "startFile"]
        if loads:
            inc("histories_in_a_process_of_their_own")
            if len(loads) >= 2:
                inc("histories_with_2+_file_loads")
            if "members" in case and len({o[0] for o in loads}) >= 2:
                inc("fleets_with_2+_members_loading_files")
            names = [(o[1] if "members" in case else o)[2] for o in loads]
            if len(set(names)) < len(names):
                inc("histories_reloading_a_file_name")
        for op, r in zip(plain_ops(case), impl["results"]):
            inc("call_" + op[0])
            inc("result_" + r["out"])
            if op[0] in STARTS:
                inc(f"mission_len_{len(op[1])}")
        for k, v in events(case, impl).items():
            if v:
                inc("event_" + k, v)
        if case.get("usage"):
            inc("usage_histories")
            for k, v in usage_events(case, impl).items():
                inc("usage_" + k, v)

    def shrink(self, case, still_fails):
        fleet = "members" in case
        best = case
        changed = True
        while changed:
            changed = False
            for i in range(len(best["ops"]) - 1, -1, -1):
                cand = dict(best)
                cand["ops"] = best["ops"][:i] + best["ops"][i + 1:]
                if cand["ops"] and still_fails(cand):
                    best = cand
                    changed = True
        # shorten the missions (drop trailing waypoints) while it still fails
        changed = True
        while changed:
            changed = False
            for i, o in enumerate(best["ops"]):
                op = o[1] if fleet else o
                if op[0] in STARTS and len(op[1]) > 1:
                    short = [op[0], op[1][:-1]] + op[2:]
                    cand = dict(best)
                    cand["ops"] = best["ops"][:i] + [[o[0], short] if fleet else short] + best["ops"][i + 1:]
                    if still_fails(cand):
                        best = cand
                        changed = True
                        break
        # a file-based start that may as well be a start_mission(list): say so (the file is then not what it takes)
        for i, o in enumerate(best["ops"]):
            op = o[1] if fleet else o
            if op[0] == "startFile":
                plain = ["start", op[1]]
                cand = dict(best)
                cand["ops"] = best["ops"][:i] + [[o[0], plain] if fleet else plain] + best["ops"][i + 1:]
                if still_fails(cand):
                    best = cand
        best = dict(best)
        if fleet:
            # members that are never called: drop them while it still fails (renumbering the others)
            for j in range(len(best["members"]) - 1, -1, -1):
                if len(best["members"]) > 1 and all(o[0] != j for o in best["ops"]):
                    cand = dict(best)
                    cand["members"] = best["members"][:j] + best["members"][j + 1:]
                    cand["ops"] = [[w - 1 if w > j else w, op] for w, op in best["ops"]]
                    if still_fails(cand):
                        best = cand
            best["readable"] = {"plugins": [{"loop": m["loop"], "tolerance": bitsf(m["tol"])} for m in best["members"]],
                                "shared_config_and_mission_objects": bool(best.get("share")),
                                "calls": [f"plugin #{w}: {op_text(o)}" for w, o in best["ops"]]}
        else:
            best["readable"] = {"loop": best["loop"], "tolerance": bitsf(best["tol"]), "calls": [op_text(o) for o in best["ops"]]}
            if best.get("usage"):
                u = best["usage"]
                best["readable"]["usage"] = (
                    {"subclass": "stop_mission() overridden: super().stop_mission(), then start_mission(next queued leg)",
                     "legs": [[pos_text(p) for p in leg] for leg in u["chain"]]} if "chain" in u else
                    {"provider": "reports the arrival on the goto's target from inside send_mobility_command "
                                 f"(first {u['provider']['sync']} gotos of each call)"} if "sync" in u["provider"] else
                    {"provider": f"send_mobility_command raises ConnectionError for mobility command(s) #{u['provider']['failAt']} "
                                 "of the history; the caller catches it"})
        return best


CHECKS = {"C16": C16}

if __name__ == "__main__" and "--serve" in sys.argv:
    _serve()
