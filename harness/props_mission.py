"""C16 — MissionMobilityPlugin: a mission always targets a valid waypoint, status flags stay consistent,
waypoints are visited in the order of the loop mode, invalid requests raise the plugin's exception and
change nothing.

A case is one history of public calls on a fresh, real `MissionMobilityPlugin`
    ["start", [p…]] | ["stop"] | ["setWaypoint", i] | ["setReversed", b] | ["telemetry", p]
(telemetry goes through the protocol's `handle_telemetry`, i.e. through the dispatcher chain the plugin
hooked), observed after every call through `current_waypoint` / `is_reversed` / `is_idle` and the
commands a recording `IProvider` received.  Positions are float bit patterns; generated coordinates are
multiples of 1/8 below 2^7 and tolerances are dyadic, so every squared distance and the comparison with
`tolerance ** 2` is exact in IEEE doubles (boundary cases are decided exactly, not within an epsilon).

A fleet case (`"members": [{loop, tol, speed}…]`, ops `[who, op]`) is the same with several plugins alive in
the same process, each on its own protocol and provider, their calls interleaved (the nodes of one simulation).
The property speaks about each plugin: every member must behave as its own calls alone dictate, and a call
on one member changes nothing on, and issues no command for, another.
"""
import functools
import gc
import itertools
import json
import random
from fractions import Fraction

from common import bitsf, bitsv3, fbits, stable_hash, v3bits
from framework import Check

from gradysim.protocol.interface import IProtocol, IProvider
from gradysim.protocol.messages.mobility import MobilityCommandType
from gradysim.protocol.messages.telemetry import Telemetry
from gradysim.protocol.plugin import dispatcher as _dispatcher
from gradysim.protocol.plugin.mission_mobility import (LoopMission, MissionMobilityConfiguration,
                                                       MissionMobilityPlugin, MissionMobilityPluginException)

@functools.lru_cache(maxsize=8192)
def _fb(x):
    """fbits with shared result strings (10^6 enumerated histories repeat the same few coordinates)"""
    return fbits(x)


MODES = [m.name for m in LoopMission]          # read from the implementation: NO, RESTART, REVERSE
TOLS = [0.5, 1.25, 2.5, 5.0, 1.0]              # dyadic; multiples of 1.25 admit exact 3-4-5 boundary offsets
SPEEDS = [5.0, 10.0, 0.5, 12.25]


# ------------------------------------------------------------------------------------------------
# the real code
class _RecProvider(IProvider):
    def __init__(self):
        self.cmds = []

    def send_communication_command(self, command):
        self.cmds.append(["comm"])

    def send_mobility_command(self, command):
        t = command.command_type
        if t == MobilityCommandType.GOTO_COORDS:
            self.cmds.append(["goto", [_fb(command.param_1), _fb(command.param_2), _fb(command.param_3)]])
        elif t == MobilityCommandType.SET_SPEED:
            self.cmds.append(["setSpeed", _fb(command.param_1)])
        else:
            self.cmds.append(["other", str(t)])

    def schedule_timer(self, timer, timestamp):
        self.cmds.append(["timer"])

    def cancel_timer(self, timer):
        self.cmds.append(["cancel"])

    def current_time(self):
        return 0.0

    def get_id(self):
        return 0


class _RecProtocol(IProtocol):
    def initialize(self):
        pass

    def handle_timer(self, timer):
        pass

    def handle_packet(self, message):
        pass

    def handle_telemetry(self, telemetry):
        self.seen = getattr(self, "seen", 0) + 1

    def finish(self):
        pass


_runs = 0


def _gc_hygiene():
    """the framework keeps every row of a run alive; with 10^6 enumerated histories the cyclic collector
    would rescan them over and over.  Collect the (cyclic) garbage of the finished plugins, then move the
    survivors out of the collector's sight."""
    global _runs
    _runs += 1
    if _runs % 20000 == 0:
        gc.collect()
        gc.freeze()


def _call(plugin, proto, op, mission_of=None):
    """one public call; how it ended"""
    try:
        name = op[0]
        if name == "start":
            plugin.start_mission(mission_of(op[1]) if mission_of else [bitsv3(p) for p in op[1]])
        elif name == "stop":
            plugin.stop_mission()
        elif name == "setWaypoint":
            plugin.set_current_waypoint(op[1])
        elif name == "setReversed":
            plugin.set_reversed(op[1])
        elif name == "telemetry":
            proto.handle_telemetry(Telemetry(current_position=bitsv3(op[1])))
        else:
            raise ValueError(f"unknown op {name}")
    except MissionMobilityPluginException:
        return "refused"
    except Exception as e:          # no counterpart in the property: recorded, judged by the oracle
        return "crash:" + type(e).__name__
    return "ok"


def _status(plugin):
    wp = plugin.current_waypoint
    return {"wp": wp if (wp is None or isinstance(wp, int)) else repr(wp),
            "reversed": plugin.is_reversed, "idle": plugin.is_idle}


def run_impl(case):
    if "members" in case:
        return run_impl_fleet(case)
    _gc_hygiene()
    prov = _RecProvider()
    proto = _RecProtocol.instantiate(prov)
    cfg = MissionMobilityConfiguration(speed=bitsf(case["speed"]), loop_mission=LoopMission[case["loop"]],
                                       tolerance=bitsf(case["tol"]))
    plugin = MissionMobilityPlugin(proto, cfg)
    results = []
    try:
        for op in case["ops"]:
            n0 = len(prov.cmds)
            out = _call(plugin, proto, op)
            results.append({"out": out, **_status(plugin), "cmds": prov.cmds[n0:]})
    finally:
        # harness hygiene only: the dispatcher keeps every wrapped protocol alive in a module-level dict
        getattr(_dispatcher, "_protocol_wrappers", {}).pop(proto, None)
    return {"results": results, "passed_on": getattr(proto, "seen", 0)}


def run_impl_fleet(case):
    """several plugins alive at the same time, one per protocol/provider (the nodes of one simulation), their
    calls interleaved.  With `share` the members that were given equal configurations get the same
    configuration object (the constructor's default argument when it equals the documented defaults) and
    equal missions are the same list object - one `mission = [...]` / one config handed to several nodes."""
    _gc_hygiene()
    share = bool(case.get("share"))
    cfgs, lists = {}, {}
    default = MissionMobilityConfiguration()

    def mission_of(bits):
        if not share:
            return [bitsv3(p) for p in bits]
        k = json.dumps(bits)
        if k not in lists:
            lists[k] = [bitsv3(p) for p in bits]
        return lists[k]

    provs, protos, plugins = [], [], []
    try:
        for m in case["members"]:
            prov = _RecProvider()
            proto = _RecProtocol.instantiate(prov)
            provs.append(prov)
            protos.append(proto)
            k = (m["loop"], m["tol"], m["speed"])
            cfg = cfgs.get(k) if share else None
            if cfg is None:
                cfg = MissionMobilityConfiguration(speed=bitsf(m["speed"]), loop_mission=LoopMission[m["loop"]],
                                                   tolerance=bitsf(m["tol"]))
                cfgs[k] = cfg
            if share and cfg == default:
                plugins.append(MissionMobilityPlugin(proto))
            else:
                plugins.append(MissionMobilityPlugin(proto, cfg))
        status = [_status(p) for p in plugins]
        results = []
        for who, op in case["ops"]:
            n0 = [len(p.cmds) for p in provs]
            out = _call(plugins[who], protos[who], op, mission_of)
            r = {"out": out, **_status(plugins[who]), "cmds": provs[who].cmds[n0[who]:]}
            others = []
            for j, p in enumerate(plugins):
                st = _status(p)
                if j != who and (st != status[j] or len(provs[j].cmds) != n0[j]):
                    others.append({"member": j, "before": status[j], "after": st, "cmds": provs[j].cmds[n0[j]:]})
                status[j] = st
            if others:
                r["others"] = others
            results.append(r)
    finally:
        for proto in protos:
            getattr(_dispatcher, "_protocol_wrappers", {}).pop(proto, None)
    return {"results": results, "passed_on": [getattr(p, "seen", 0) for p in protos]}


# ------------------------------------------------------------------------------------------------
# the property, read directly (no model): exact arithmetic, the visiting order of each loop mode
@functools.lru_cache(maxsize=4096)
def _fr(b):
    return Fraction(bitsf(b))


def _frac(p):
    return [_fr(b) for b in p]


def reached_exact(pos, target, tol_bits):
    a, b = _frac(pos), _frac(target)
    t = _fr(tol_bits)
    return sum((x - y) ** 2 for x, y in zip(a, b)) <= t * t


def spec_step(loop, n, i, rev):
    """where the mission goes when waypoint i was reached (or the direction was just switched to `rev`):
    (index, reversed) or None when the mission ends."""
    if loop == "NO":
        return (i + 1, False) if i + 1 < n else None
    if loop == "RESTART":
        return ((i + 1) % n, False)
    if not rev:
        return (i + 1, False) if i + 1 < n else (max(n - 2, 0), True)     # bounce at the last waypoint
    return (i - 1, True) if i - 1 >= 0 else (0, False)                      # first waypoint: start over, forwards


class Spec:
    """expected status of the plugin along a history (used by the generator to aim telemetry and by the
    oracle to know whether a mission is active)"""

    def __init__(self, loop, tol_bits):
        self.loop, self.tol = loop, tol_bits
        self.m, self.wp, self.rev = None, None, False

    def target(self):
        return self.m[self.wp] if self.m is not None else None

    def set(self, nxt):
        if nxt is None:
            self.m, self.wp, self.rev = None, None, False
        else:
            self.wp, self.rev = nxt

    def apply(self, op):
        """returns what the call must do: 'ok' | 'refused', and whether a waypoint step happened"""
        name = op[0]
        if name == "start":
            self.m, self.wp, self.rev = list(op[1]), 0, False
            return "ok", False
        if name == "stop":
            self.set(None)
            return "ok", False
        if name == "setWaypoint":
            if self.m is None or not (0 <= op[1] < len(self.m)):
                return "refused", False
            self.wp = op[1]
            return "ok", False
        if name == "setReversed":
            if self.m is None or self.loop != "REVERSE":
                return "refused", False
            if op[1] == self.rev:
                return "ok", False
            self.set(spec_step(self.loop, len(self.m), self.wp, op[1]))
            return "ok", True
        if name == "telemetry":
            if self.m is None or not reached_exact(op[1], self.target(), self.tol):
                return "ok", False
            self.set(spec_step(self.loop, len(self.m), self.wp, self.rev))
            return "ok", True
        raise ValueError(name)


def plain_ops(case):
    return [o[1] for o in case["ops"]] if "members" in case else case["ops"]


def in_domain(case):
    return all(op[0] != "start" or len(op[1]) > 0 for op in plain_ops(case))


def member_view(case, impl, i):
    """what member i of a fleet case was asked and showed: a single-plugin case, its observations, and the
    positions of its calls in the fleet's history"""
    idx = [k for k, o in enumerate(case["ops"]) if o[0] == i]
    sub = dict(case["members"][i], kind="mission", ops=[case["ops"][k][1] for k in idx])
    return sub, {"results": [impl["results"][k] for k in idx]}, idx


def oracle_fleet(case, impl):
    """C16 for every member of the fleet on its own calls and observations (the property is about each plugin:
    ITS current waypoint, the last command IT issued, ITS visiting order), and between calls of its own a
    member must not move: a call on another plugin is no request to this one and no waypoint of it was reached."""
    fails = []
    for i in range(len(case["members"])):
        sub, subimpl, idx = member_view(case, impl, i)
        fails += oracle(sub, subimpl, idx=idx, tag=f" on plugin #{i}:")
    for k, ((who, op), r) in enumerate(zip(case["ops"], impl["results"])):
        for o in r.get("others", []):
            fails.append(("C16:other-instance", f"op #{k} {op_text(op)} on plugin #{who} changed plugin #{o['member']}: "
                          f"{o['before']} -> {o['after']}, commands issued there {cmds_text(o['cmds'])}"))
    seen, out = set(), []
    for f in fails:
        if f[0] not in seen:
            seen.add(f[0])
            out.append(f)
    return out


def oracle(case, impl, idx=None, tag=""):
    """C16 evaluated on the implementation's observations.  Signatures, most specific first."""
    if not in_domain(case):
        return []           # empty missions are outside the property's quantifier (domain note in DESIGN.md)
    if "members" in case:
        return oracle_fleet(case, impl)
    fails = []
    spec = Spec(case["loop"], case["tol"])
    speed = case["speed"]
    last_goto = None
    prev = {"wp": None, "reversed": False, "idle": True}
    for k, (op, r) in enumerate(zip(case["ops"], impl["results"])):
        where = _Where(idx[k] if idx is not None else k, op, tag)
        was_active, m0, wp0, rev0 = spec.m is not None, spec.m, spec.wp, spec.rev
        want, stepped = spec.apply(op)
        for c in r["cmds"]:
            if c[0] == "goto":
                last_goto = c[1]
        wp, rev, idle = r["wp"], r["reversed"], r["idle"]
        state = {"wp": wp, "reversed": rev, "idle": idle}
        if r["out"].startswith("crash"):
            fails.append((f"C16:{r['out']}", f"{where} raised {r['out'][6:]}"))
        # while a mission is active: valid index, not idle, last goto is that waypoint
        if spec.m is not None:
            n = len(spec.m)
            if not (isinstance(wp, int) and not isinstance(wp, bool) and 0 <= wp < n):
                fails.append(("C16:index-invalid", f"after {where} current_waypoint is {wp!r}, mission has {n} waypoint(s)"))
            elif last_goto != spec.m[wp]:
                fails.append(("C16:last-goto", f"after {where} current_waypoint is {wp} at {pos_text(spec.m[wp])} "
                              f"but the last goto issued went to {pos_text(last_goto) if last_goto else None}"))
            if idle:
                fails.append(("C16:flags", f"after {where} is_idle although a mission is active"))
        elif not idle or wp is not None:
            fails.append(("C16:flags", f"after {where} no mission is active but is_idle={idle}, current_waypoint={wp!r}"))
        # the three flags among themselves
        if idle != (wp is None):
            fails.append(("C16:flags", f"after {where} is_idle={idle} with current_waypoint={wp!r}"))
        if idle and rev:
            fails.append(("C16:flags", f"after {where} is_reversed while idle"))
        # what this call had to do
        if want == "refused":
            if r["out"] != "refused":
                fails.append(("C16:invalid-accepted", f"{where} is invalid here (mission active={was_active}, mode {case['loop']}) "
                              f"but ended '{r['out']}' instead of MissionMobilityPluginException"))
            if state != prev or r["cmds"]:
                fails.append(("C16:refused-changed", f"{where} was invalid but changed the plugin: {prev} -> {state}, commands {r['cmds']}"))
        else:
            if r["out"] == "refused":
                fails.append(("C16:valid-refused", f"{where} is valid here but raised MissionMobilityPluginException"))
            exp_cmds = None
            name = op[0]
            if name == "start":
                exp = (0, False)
                exp_cmds = [["goto", op[1][0]], ["setSpeed", speed]]
            elif name == "stop":
                exp = None
                exp_cmds = []
            elif name == "setWaypoint":
                exp = (op[1], rev0)
                exp_cmds = [["goto", m0[op[1]]]]
            elif stepped:
                exp = (spec.wp, spec.rev) if spec.m is not None else None
                exp_cmds = [["goto", spec.m[spec.wp]]] if spec.m is not None else []
            else:
                exp = (wp0, rev0) if was_active else None
                exp_cmds = []
            got = (wp, rev) if wp is not None else None
            if got != exp:
                sig = {"start": "C16:start", "stop": "C16:stop", "setWaypoint": "C16:set-waypoint"}.get(name)
                if sig is None:
                    sig = "C16:visit-order" if stepped else "C16:unreached-changed"
                fails.append((sig, f"{where} in mode {case['loop']} from (waypoint {wp0}, reversed {rev0}) of "
                              f"{len(m0) if m0 else 0}: expected (waypoint, reversed) = {exp}, observed {got}"))
            elif r["cmds"] != exp_cmds:
                fails.append(("C16:commands", f"{where}: expected commands {cmds_text(exp_cmds)}, provider received {cmds_text(r['cmds'])}"))
        prev = state
    # de-duplicate keeping order
    seen, out = set(), []
    for f in fails:
        if f[0] not in seen:
            seen.add(f[0])
            out.append(f)
    return out


# ------------------------------------------------------------------------------------------------
class _Where:
    """'op #k <call>' rendered only when a message is actually built"""

    def __init__(self, k, op, tag=""):
        self.k, self.op, self.tag = k, op, tag

    def __format__(self, spec):
        return f"op #{self.k}{self.tag} {op_text(self.op)}"


def pos_text(p):
    return "(" + ", ".join(f"{bitsf(b):g}" for b in p) + ")"


def cmds_text(cs):
    return [[c[0], pos_text(c[1]) if c[0] == "goto" else (f"{bitsf(c[1]):g}" if c[0] == "setSpeed" else c[1:])] for c in cs]


def op_text(op):
    if op[0] == "start":
        return "start_mission([" + ", ".join(pos_text(p) for p in op[1]) + "])"
    if op[0] == "telemetry":
        return "telemetry" + pos_text(op[1])
    if op[0] == "setWaypoint":
        return f"set_current_waypoint({op[1]})"
    if op[0] == "setReversed":
        return f"set_reversed({op[1]})"
    return "stop_mission()"


def fleet_events(case, impl):
    """concurrent = a member steps (reached waypoint or direction switch) or is set to a waypoint index >= 1 while
    another member has a mission in progress whose waypoint at that index is a different position"""
    k = len(case["members"])
    mission, wp = [None] * k, [None] * k
    ev = {"concurrent": 0, "concurrent_members": set(), "both_active_calls": 0, "same_mission_active": 0}
    for (who, op), r in zip(case["ops"], impl["results"]):
        if op[0] == "start":
            mission[who] = op[1]
        wp[who] = r["wp"]
        active = [j for j in range(k) if mission[j] and isinstance(wp[j], int)]
        if who in active and len(active) >= 2:
            ev["both_active_calls"] += 1
            if any(j != who and mission[j] == mission[who] for j in active):
                ev["same_mission_active"] += 1
            i = wp[who]
            if op[0] != "start" and i >= 1 and any(c[0] == "goto" for c in r["cmds"]) and i < len(mission[who]) and any(
                    j != who and i < len(mission[j]) and mission[j][i] != mission[who][i] for j in active):
                ev["concurrent"] += 1
                ev["concurrent_members"].add(who)
    ev["concurrent_members"] = len(ev["concurrent_members"])
    return ev


def events(case, impl):
    """what happened, read off the implementation's observations: bounces, wraps, completions, refusals"""
    if "members" in case:
        tot = {}
        for i in range(len(case["members"])):
            sub, subimpl, _ = member_view(case, impl, i)
            for key, v in events(sub, subimpl).items():
                tot[key] = tot.get(key, 0) + v
        return tot
    ev = {"top": 0, "bottom": 0, "wrap": 0, "finished": 0, "refused": 0, "reached": 0, "unreached": 0,
          "late": 0}
    prev = (None, False)
    n = 0
    finished = False
    for op, r in zip(case["ops"], impl["results"]):
        if op[0] == "start":
            n = len(op[1])
            finished = False
        if r["out"] == "refused":
            ev["refused"] += 1
        if finished and op[0] != "start":
            ev["late"] += 1
        if op[0] == "telemetry" and prev[0] is not None:
            if r["cmds"] or r["wp"] is None:
                ev["reached"] += 1
                if r["wp"] is None:
                    ev["finished"] += 1
                    finished = True
                elif case["loop"] == "REVERSE" and not prev[1] and r["reversed"]:
                    ev["top"] += 1
                elif case["loop"] == "REVERSE" and prev[1] and not r["reversed"]:
                    ev["bottom"] += 1
                elif case["loop"] == "RESTART" and prev[0] == n - 1 and r["wp"] == 0:
                    ev["wrap"] += 1
            else:
                ev["unreached"] += 1
        prev = (r["wp"], r["reversed"])
    return ev


# ------------------------------------------------------------------------------------------------
# generators
def P(x, y, z):
    return v3bits((float(x), float(y), float(z)))


def shifted(p, d):
    q = bitsv3(p)
    return P(q[0] + d[0], q[1] + d[1], q[2] + d[2])


def boundary_offsets(tol):
    """offsets whose squared length is exactly tol² (axis-aligned, and 3-4-5 when tol is a multiple of 1.25)"""
    out = [(tol, 0, 0), (0, -tol, 0), (0, 0, tol), (-tol, 0, 0)]
    s = tol / 5.0
    if (s * 8) == int(s * 8):
        out += [(3 * s, 4 * s, 0), (0, -4 * s, 3 * s), (-4 * s, 0, -3 * s)]
    return out


def make_mission(r, n, tol):
    kind = r.choice(["spread", "spread", "line", "close", "dup"])
    pts = []
    for k in range(n):
        if kind == "line":
            pts.append((10.0 * k, 0.0, 5.0))
        elif kind == "close" and pts:
            a = pts[-1]
            pts.append((a[0] + tol / 2, a[1], a[2]))          # consecutive waypoints within the tolerance
        elif kind == "dup" and pts and r.random() < 0.5:
            pts.append(r.choice(pts))                          # repeated waypoint
        else:
            pts.append((r.randint(-320, 320) / 8.0, r.randint(-320, 320) / 8.0, r.randint(0, 160) / 8.0))
    return [P(*p) for p in pts]


def telemetry_pos(r, spec, tol, how):
    tgt = spec.target()
    m = spec.m
    if tgt is None:
        return P(r.randint(-40, 40), r.randint(-40, 40), 0)
    if how == "on":
        return list(tgt)
    if how == "edge":
        return shifted(tgt, r.choice(boundary_offsets(tol)))
    if how == "inside":
        return shifted(tgt, r.choice([(tol - 0.125, 0, 0), (0, 0.125 - tol, 0), (0.125, 0.125, -0.125)]))
    if how == "outside":
        o = r.choice(boundary_offsets(tol))
        ax = r.randrange(3)
        o = tuple(c + (0.125 if c >= 0 else -0.125) if i == ax else c for i, c in enumerate(o))
        return shifted(tgt, o)
    if how == "other":          # standing on another waypoint of the mission (previous / next / first / last)
        return list(m[r.choice([spec.wp - 1, (spec.wp + 1) % len(m), 0, -1])])
    if how == "rough":          # not on the lattice, clearly inside (< tol/2) or clearly outside (> 2 tol)
        q = bitsv3(tgt)
        d = r.choice([r.uniform(0.0, 0.28) * tol, r.uniform(2.0, 9.0) * tol])
        return P(q[0] + d, q[1] - d, q[2] + d / 3)
    return shifted(tgt, (r.choice([-1, 1]) * (3 * tol + r.randint(1, 80)), r.randint(-8, 8), 0))     # far


def next_op(r, spec, style, n, tol):
    """the next call of one plugin's history, aimed with its expected status `spec`"""
    x = r.random()
    tele = {"walk": 0.78, "mixed": 0.5, "abuse": 0.3}[style]
    if x < tele:
        if style == "walk":
            how = r.choice(["on", "on", "on", "edge", "edge", "inside", "outside", "far", "other", "rough"])
        else:
            how = r.choice(["on", "edge", "inside", "outside", "far", "other", "rough", "on"])
        return ["telemetry", telemetry_pos(r, spec, tol, how)]
    y = r.random()
    ln = len(spec.m) if spec.m is not None else n
    if y < 0.30:
        i = r.choice([r.randrange(ln), r.randrange(ln), ln - 1, 0, -1, ln, ln + r.randint(1, 3), -r.randint(2, 9), 10 ** 6])
        return ["setWaypoint", i]
    if y < 0.62:
        return ["setReversed", r.random() < 0.5]
    if y < 0.74:
        return ["stop"]
    if y < 0.86:
        n2 = n if r.random() < 0.5 else r.choice([1, 2, 3, 4, 5])
        return ["start", make_mission(r, n2, tol)]
    return ["telemetry", telemetry_pos(r, spec, tol, "on")]


def gen_history(seed, max_ops=40):
    r = random.Random(stable_hash("mission", seed))
    loop = r.choice(MODES)
    n = r.choice([1, 1, 2, 2, 3, 4, 5])
    tol = r.choice(TOLS)
    style = r.choice(["walk", "walk", "mixed", "abuse"])
    spec = Spec(loop, fbits(tol))
    n_ops = r.randint(1, max_ops)
    ops = []

    def push(op):
        ops.append(op)
        spec.apply(op)

    if r.random() < 0.9:
        push(["start", make_mission(r, n, tol)])
    while len(ops) < n_ops:
        push(next_op(r, spec, style, n, tol))
    return {"kind": "mission", "loop": loop, "tol": fbits(tol), "speed": fbits(r.choice(SPEEDS)), "ops": ops}


def gen_fleet(seed, max_ops=60):
    """2-4 plugins alive at the same time, each with its own protocol, provider, configuration and mission, their
    histories (the single-plugin generator's, each aimed at the member's own expected target) interleaved call by
    call.  Members often fly missions of the same length with different waypoints, sometimes the very same mission
    (then the same list object when `share` is set), sometimes equal configurations (then the same object)."""
    r = random.Random(stable_hash("mission-fleet", seed))
    k = r.choice([2, 2, 2, 3, 3, 4])
    same_cfg = r.random() < 0.4
    base = (r.choice(MODES), r.choice(TOLS), r.choice(SPEEDS + [5.0]))
    n = r.choice([2, 2, 3, 3, 4, 5, 1])
    members, gens = [], []
    for i in range(k):
        loop, tol, speed = base if (same_cfg or r.random() < 0.3) else (r.choice(MODES), r.choice(TOLS), r.choice(SPEEDS))
        members.append({"loop": loop, "tol": fbits(tol), "speed": fbits(speed)})
        gens.append({"spec": Spec(loop, fbits(tol)), "tol": tol, "n": n if r.random() < 0.7 else r.choice([1, 2, 3, 4, 5]),
                     "style": r.choice(["walk", "walk", "walk", "mixed", "abuse"])})
    ops = []

    def push(i, op):
        ops.append([i, op])
        gens[i]["spec"].apply(op)

    first = None
    for i in r.sample(range(k), k):
        if r.random() < 0.9:
            g = gens[i]
            if first is not None and r.random() < 0.2:
                push(i, ["start", first])                       # the same mission as another member
            else:
                push(i, ["start", make_mission(r, g["n"], g["tol"])])
                first = first or ops[-1][1][1]
    n_ops = r.randint(len(ops) + 1, max_ops)
    burst = r.random() < 0.3                                    # a member makes a few calls in a row
    i = r.randrange(k)
    while len(ops) < n_ops:
        if not (burst and r.random() < 0.6):
            i = r.randrange(k)
        g = gens[i]
        push(i, next_op(r, g["spec"], g["style"], g["n"], g["tol"]))
    return {"kind": "missionFleet", "members": members, "share": r.random() < 0.5, "ops": ops}


def enum_mission(n):
    return [P(16 * k, 0, 2) for k in range(n)]


def enum_alphabet(n):
    wps = sorted({-1, 0, n - 1, n})
    return ([("start",), ("stop",)] + [("setWaypoint", i) for i in wps]
            + [("setReversed", True), ("setReversed", False), ("tele", "on"), ("tele", "off")])


def enumerate_histories(n, loop, depth, first=None):
    """every history of exactly `depth` calls over enum_alphabet(n) (optionally with a fixed first call);
    the per-call observations cover every shorter history, these being prefixes.
    'tele on' stands on the expected current target, 'tele off' far from every waypoint."""
    tol = fbits(1.0)
    mission = enum_mission(n)
    off = P(-500, 300, 0)
    alpha = enum_alphabet(n)
    rest = depth - (1 if first is not None else 0)
    for combo in itertools.product(alpha, repeat=rest):
        spec = Spec(loop, tol)
        ops = []
        for c in (([first] if first is not None else []) + list(combo)):
            if c[0] == "start":
                op = ["start", mission]
            elif c[0] == "tele":
                op = ["telemetry", (spec.target() if spec.m is not None else mission[0]) if c[1] == "on" else off]
            elif c[0] == "stop":
                op = ["stop"]
            else:
                op = [c[0], c[1]]
            ops.append(op)
            spec.apply(op)
        yield {"kind": "mission", "loop": loop, "tol": tol, "speed": fbits(5.0), "ops": ops, "label": "enum"}


def enum_fleet_alphabet(n):
    return [("start",), ("stop",), ("setWaypoint", n - 1), ("setReversed", True), ("setReversed", False), ("tele", "on")]


def enumerate_fleets(n, loops, depth):
    """two plugins in modes `loops`, both started on missions of length n that differ at every index, then every
    interleaving of exactly `depth` further calls over enum_fleet_alphabet(n) for either member
    ('tele on' stands on the called member's own expected target)."""
    tol = fbits(1.0)
    missions = [enum_mission(n), [P(16 * k, 48, 2) for k in range(n)]]
    members = [{"loop": lp, "tol": tol, "speed": fbits(5.0)} for lp in loops]
    alpha = [(i,) + a for i in (0, 1) for a in enum_fleet_alphabet(n)]
    for combo in itertools.product(alpha, repeat=depth):
        specs = [Spec(lp, tol) for lp in loops]
        ops = []
        for c in ((0, "start"), (1, "start")) + combo:
            i, spec = c[0], specs[c[0]]
            if c[1] == "start":
                op = ["start", missions[i]]
            elif c[1] == "tele":
                op = ["telemetry", spec.target() if spec.m is not None else missions[i][0]]
            elif c[1] == "stop":
                op = ["stop"]
            else:
                op = [c[1], c[2]]
            ops.append([i, op])
            spec.apply(op)
        yield {"kind": "missionFleet", "members": members, "share": False, "ops": ops, "label": "enum"}


# ------------------------------------------------------------------------------------------------
class C16(Check):
    prop = "C16"
    level_text = ("Theorems over every history of start / stop / set-waypoint / set-reversed / telemetry calls on the Lean model "
                  "of the mission plugin, for every non-empty mission (lengths 1 and 2 included), loop mode and scalar type "
                  "(the 'reached' decision is an arbitrary Boolean): the invariant 'active => valid index, not idle, last goto "
                  "= mission[index]; inactive => no waypoint, idle, not reversed' holds after every call; refused calls are "
                  "no-ops and are refused exactly when invalid; a reached waypoint moves the index as the loop mode dictates and "
                  "issues the goto. For several plugins alive at once (a list of configuration/state pairs, calls interleaved): a call "
                  "leaves every other member untouched, every member is in the state its own calls alone lead to, hence the invariant "
                  "for each member after every interleaved history. The model is tied to the real plugin(s) by running both on "
                  "generated and enumerated histories.")
    rule = ("histories of 1-40 public calls on the real plugin (mission lengths 1-5 x NO/RESTART/REVERSE; telemetry on target, "
            "exactly on / just inside / just outside the tolerance sphere on a dyadic lattice, on other waypoints, far away; "
            "out-of-bounds set_current_waypoint, set_reversed in every mode, calls before start and after the mission ended); "
            "plus small-scope enumeration over a 9-10 letter alphabet (start, stop, set_current_waypoint(-1|0|len-1|len), "
            "set_reversed(T|F), telemetry on/off the expected target) for lengths 1-4 x 3 modes: quick = every history of <= 3 calls "
            "and (lengths 1, 2) of <= 4 calls beginning with start_mission; thorough = every history of <= 4 calls and every history of <= 6 calls "
            "beginning with start_mission. "
            "Fleets: 700 (thorough 8000) histories of <= 60 interleaved calls on 2-4 real plugins alive in the same process, each on its "
            "own protocol/provider with its own or an equal configuration, missions of mostly equal length and different waypoints "
            "(sometimes the same mission; in half of the cases equal configurations / missions are the same Python object and the "
            "constructor's default configuration is used when it equals the wanted one), every member judged on its own calls and "
            "commands and required not to move on calls made on another member; plus every interleaving of 3 (thorough 4) calls over "
            "a 6-letter alphabet per member on two started plugins (lengths 2, 3; both in the same mode; thorough also every mixed "
            "pair of modes). "
            "non-trivial = the history contains a refused request AND (REVERSE: bounces at the last and at the first waypoint; "
            "RESTART: wraps from the last waypoint to the first; NO: runs to completion and is called again afterwards); "
            "fleet: at least two members step to / are set to a waypoint index >= 1 while another member has a mission in progress "
            "whose waypoint at that index is a different position")
    assumptions = ["missions are non-empty (start_mission([]) raises IndexError after changing the fields; domain note)",
                   "the caller does not mutate the mission list it handed to start_mission, and no other component sends mobility commands",
                   "set_current_waypoint gets an int and set_reversed a bool",
                   "fleets: one plugin per protocol instance (two mission plugins on one protocol would send each other's node around, see the plugin's docstring)",
                   "boundary decisions are generated on a dyadic lattice where float arithmetic is exact; off-lattice positions stay clear of the tolerance sphere"]
    modelled = ["gradysim/protocol/plugin/mission_mobility.py (all of MissionMobilityPlugin except start_mission_with_waypoint_file)"]

    quick_n = 2500
    thorough_n = 30000
    quick_fleets = 700
    thorough_fleets = 8000

    def generate(self, seed, tier):
        n = self.quick_n if tier == "quick" else self.thorough_n
        for i in range(n):
            h = gen_history(stable_hash("C16", seed, i))
            h["label"] = f"gen/{seed}/{i}"
            yield h
        # several plugins alive at the same time (the nodes of one simulation), calls interleaved
        for i in range(self.quick_fleets if tier == "quick" else self.thorough_fleets):
            h = gen_fleet(stable_hash("C16", "fleet", seed, i))
            h["label"] = f"fleet/{seed}/{i}"
            yield h
        # small scope: every history over the 9-10 letter alphabet of enum_alphabet, per length and mode.
        # quick: all histories of <= 3 calls, and (lengths 1, 2) start_mission followed by every 3 further calls;
        # thorough: all histories of <= 4 calls, and start_mission followed by every 5 further calls
        # (calls made before the first start_mission act on the initial state only).
        for ln in (1, 2, 3, 4):
            for loop in MODES:
                if tier == "quick":
                    yield from enumerate_histories(ln, loop, 3)
                    if ln <= 2:
                        yield from enumerate_histories(ln, loop, 4, first=("start",))
                else:
                    yield from enumerate_histories(ln, loop, 4)
                    yield from enumerate_histories(ln, loop, 6, first=("start",))
        # two started plugins on different missions, every interleaving of 3 (thorough: 4) further calls
        for loop in MODES:
            for ln in (2, 3):
                yield from enumerate_fleets(ln, (loop, loop), 3 if tier == "quick" else 4)
        if tier != "quick":
            for a, b in itertools.permutations(MODES, 2):
                yield from enumerate_fleets(2, (a, b), 3)

    def widen(self, seed, tier):
        for i in range(4000):
            yield gen_history(stable_hash("C16", "widen", seed, i))
            if i % 4 == 0:
                yield gen_fleet(stable_hash("C16", "widen-fleet", seed, i))

    def run_impl(self, case):
        return run_impl(case)

    def model_input(self, case, impl):
        if "members" in case:
            return {"kind": "missionFleet", "members": case["members"], "ops": case["ops"]}
        return {"kind": "mission", "loop": case["loop"], "speed": case["speed"], "tol": case["tol"], "ops": case["ops"]}

    def compare(self, case, impl, model):
        a = [dict(r, out="crash" if r["out"].startswith("crash") else r["out"]) for r in impl["results"]]
        b = model["results"]
        fleet = "members" in case
        for k, r in enumerate(a):
            if "others" in r:       # the model's members share nothing: a call on one never shows on another
                o = r["others"][0]
                return [f"call #{k} {op_text(case['ops'][k][1])} on plugin #{case['ops'][k][0]} changed plugin "
                        f"#{o['member']} ({o['before']} -> {o['after']}, commands {cmds_text(o['cmds'])}); in the model it cannot"]
        if len(a) != len(b):
            return [f"observation length differs: implementation {len(a)} vs model {len(b)}"]
        if a == b:
            if case.get("label") == "enum":
                model["results"] = len(b)      # agreed: keep the count only (the framework holds every row in memory)
            return []
        for k, (x, y) in enumerate(zip(a, b)):
            if x != y:
                keys = [f for f in ("out", "wp", "reversed", "idle", "cmds") if x.get(f) != y.get(f)]
                call = (f"{op_text(case['ops'][k][1])} on plugin #{case['ops'][k][0]} ({case['members'][case['ops'][k][0]]['loop']})"
                        if fleet else f"{op_text(case['ops'][k])} ({case['loop']})")
                return [f"after call #{k} {call}: " + "; ".join(
                    f"{f}: implementation {json.dumps(x.get(f))[:160]} vs model {json.dumps(y.get(f))[:160]}" for f in keys)]
        return []

    def oracle(self, case, impl):
        return oracle(case, impl)

    def nontrivial(self, case, impl):
        if not in_domain(case):
            return False
        if "members" in case:
            # at least two members stepped to / were set to an index >= 1 while another member had a mission
            # in progress with a different waypoint at that index
            return fleet_events(case, impl)["concurrent_members"] >= 2
        ev = events(case, impl)
        if not ev["refused"]:
            return False
        if case["loop"] == "REVERSE":
            return ev["top"] >= 1 and ev["bottom"] >= 1
        if case["loop"] == "RESTART":
            return ev["wrap"] >= 1
        return ev["finished"] >= 1 and ev["late"] >= 1

    def key(self, case, impl):
        if "members" in case:
            return json.dumps([case["members"], case["ops"]])
        return case["loop"] + case["tol"] + json.dumps(case["ops"])

    def sample(self, case, impl):
        if "members" in case:
            return {"label": case.get("label"), "members": [[m["loop"], bitsf(m["tol"])] for m in case["members"]],
                    "calls": [f"#{who}: {op_text(op)}" for who, op in case["ops"][:12]],
                    "observed": [[r["out"], r["wp"], r["reversed"], r["idle"], cmds_text(r["cmds"])] for r in impl["results"][:12]]}
        return {"label": case.get("label"), "loop": case["loop"], "tolerance": bitsf(case["tol"]),
                "calls": [op_text(op) for op in case["ops"][:12]],
                "observed": [[r["out"], r["wp"], r["reversed"], r["idle"], cmds_text(r["cmds"])] for r in impl["results"][:12]]}

    def stats(self, case, impl, acc):
        def inc(k, d=1):
            acc[k] = acc.get(k, 0) + d
        inc("histories")
        inc("histories_" + ("enumerated" if case.get("label") == "enum" else "generated_or_corpus"))
        if "members" in case:
            inc("fleet_histories")
            inc(f"fleet_of_{len(case['members'])}")
            if case.get("share"):
                inc("fleet_shared_objects")
            for m in case["members"]:
                inc("mode_" + m["loop"])
            for k, v in fleet_events(case, impl).items():
                if v:
                    inc("fleet_" + k, v)
        else:
            inc("mode_" + case["loop"])
        inc("calls", len(case["ops"]))
        for op, r in zip(plain_ops(case), impl["results"]):
            inc("call_" + op[0])
            inc("result_" + r["out"])
            if op[0] == "start":
                inc(f"mission_len_{len(op[1])}")
        for k, v in events(case, impl).items():
            if v:
                inc("event_" + k, v)

    def shrink(self, case, still_fails):
        fleet = "members" in case
        best = case
        changed = True
        while changed:
            changed = False
            for i in range(len(best["ops"]) - 1, -1, -1):
                cand = dict(best)
                cand["ops"] = best["ops"][:i] + best["ops"][i + 1:]
                if cand["ops"] and still_fails(cand):
                    best = cand
                    changed = True
        # shorten the missions (drop trailing waypoints) while it still fails
        changed = True
        while changed:
            changed = False
            for i, o in enumerate(best["ops"]):
                op = o[1] if fleet else o
                if op[0] == "start" and len(op[1]) > 1:
                    short = ["start", op[1][:-1]]
                    cand = dict(best)
                    cand["ops"] = best["ops"][:i] + [[o[0], short] if fleet else short] + best["ops"][i + 1:]
                    if still_fails(cand):
                        best = cand
                        changed = True
                        break
        best = dict(best)
        if fleet:
            # members that are never called: drop them while it still fails (renumbering the others)
            for j in range(len(best["members"]) - 1, -1, -1):
                if len(best["members"]) > 1 and all(o[0] != j for o in best["ops"]):
                    cand = dict(best)
                    cand["members"] = best["members"][:j] + best["members"][j + 1:]
                    cand["ops"] = [[w - 1 if w > j else w, op] for w, op in best["ops"]]
                    if still_fails(cand):
                        best = cand
            best["readable"] = {"plugins": [{"loop": m["loop"], "tolerance": bitsf(m["tol"])} for m in best["members"]],
                                "shared_config_and_mission_objects": bool(best.get("share")),
                                "calls": [f"plugin #{w}: {op_text(o)}" for w, o in best["ops"]]}
        else:
            best["readable"] = {"loop": best["loop"], "tolerance": bitsf(best["tol"]), "calls": [op_text(o) for o in best["ops"]]}
        return best


CHECKS = {"C16": C16}
