"""C13 — unique identities; nodes affect each other only through messages.

What the theorems contribute (lean/GradysProofs/Properties/C13.lean): for every configuration and all
programs, if node x never sends or broadcasts, the view of every other node (its callbacks with
payloads and reported times, its requests with their outcomes, its position, its timers) is a function
of the number of executed events not owned by x (`C13_view_function_of_visible_count`), hence equal in
two complete runs that differ only in x's node-scoped requests (`C13_noninterference_partial`); the two
channels other than messages (iteration budget, clock read in finish) are real (`C13_shared_bounds_witness`).

What this check does: identity checks on the real builder; PAIRED implementation runs
  A: a scenario in which the silent node x does nothing,
  B: the same scenario (the other nodes replay A's program table) where x additionally issues a random
     sequence of node-scoped requests from its callbacks,
in a minority of scenarios with many nodes (two-digit identifiers) and free-form timer names (digits first or
last), where distinct (node, name) pairs are written with the same characters,
the projections on the nodes other than x compared with each other (the property) and each run with
its model run (the correspondence).
"""
import copy
import json
import random
import time

import simgen
import simimpl
from common import bitsf, fbits, stable_hash
from simcheck import SimCheck, parse, first_diff

X_PROFILE = {
    "w": {"setTimer": 5, "cancelTimer": 3, "send": 0, "broadcast": 0, "goto": 2, "setSpeed": 1,
          # gotoGeo stays off, as in every other simulator-level check: the model has the repaired
          # geo_to_cartesian; the frame lemma for gotoGeo is proved all the same
          "setRange": 1.5, "gotoGeo": 0, "gotoHere": 1},
    "maxReq": 4, "budget": 45, "pTelemetry": 0.3, "pGuarded": 0.1, "pFinish": 0.5,
    # x also parks itself: speed exactly 0, a goto to the place where it is
    "speeds": [10.0, 4.0, 0.5, 64.0, 0.0, 0.0],
}
NODE_SCOPED = ("setTimer", "cancelTimer", "goto", "gotoGeo", "setSpeed", "setRange")

# Timer names are free-form strings chosen by the protocol author ("associate it with some serialized
# data"): nothing says they are letters. Fragments used to build name alphabets in which names begin or
# end with digits, contain separators, or extend one another.
FREE_FRAGMENTS = ["0", "1", "2", "10", "-", ":", "_", " ", ".", "/"]


def concat_twins(n):
    """pairs of DISTINCT node ids (lo, hi) < n whose decimal numerals extend one another: str(hi) is
    str(lo) followed by `rest` ("pre") or `rest` followed by str(lo) ("post"). Only such pairs allow
    (id, name) and (id', name') with different ids to be written with the same characters."""
    out = []
    for hi in range(n):
        for lo in range(n):
            if lo == hi:
                continue
            a, b = str(lo), str(hi)
            if len(b) > len(a) and b.startswith(a):
                out.append(("pre", lo, hi, b[len(a):]))
            if len(b) > len(a) and b.endswith(a):
                out.append(("post", lo, hi, b[:len(b) - len(a)]))
    return out


def same_characters(n1, name1, n2, name2):
    """two different (node, timer name) pairs that read the same when id and name are written one after
    the other (in either order): distinct timers of distinct nodes all the same"""
    return (n1, name1) != (n2, name2) and (f"{n1}{name1}" == f"{n2}{name2}" or f"{name1}{n1}" == f"{name2}{n2}")


class MaskX:
    """A's behaviour: everybody but x reacts"""

    def __init__(self, inner, x):
        self.inner, self.x = inner, x

    def react(self, n, kind, key, t):
        return [] if n == self.x else self.inner.react(n, kind, key, t)


class OnlyX:
    """B's behaviour for callbacks that are not in A's table: only x reacts, node-scoped requests only"""

    def __init__(self, inner, x):
        self.inner, self.x = inner, x

    def react(self, n, kind, key, t):
        if n != self.x:
            return []
        out = []
        for spec in self.inner.react(n, kind, key, t):
            if spec[0] == "onRefused":
                if spec[1][0] in NODE_SCOPED:
                    out.append(["onRefused", spec[1], [a for a in spec[2] if a[0] in NODE_SCOPED]])
            elif spec[0] in NODE_SCOPED:
                out.append(spec)
        return out


def project(res, x, mask_finish=True):
    """what the nodes other than x observe: their callbacks (kind, payload, time) and their requests
    with outcomes, in order; the time read inside finish is masked on demand"""
    out = []
    for e in res["trace"]:
        if e[0] == "cb" and e[1] != x:
            e2 = list(e)
            if mask_finish and e[2] == "finish":
                e2[4] = "*"
            out.append(e2)
        elif e[0] == "req" and e[1] != x:
            out.append(list(e))
    return out


def others_positions(res, x):
    fp = res.get("finalPositions")
    if fp is None:
        return None
    return [p for i, p in enumerate(fp) if i != x]


def light(res):
    return {k: res.get(k) for k in ("trace", "finalPositions", "crash", "table", "identities", "addedIds",
                                    "drawsUsed", "rets", "timeTypes")}


class C13(SimCheck):
    prop = "C13"
    level_text = ("Theorems for every configuration and all programs (unwinding): node-scoped requests of x change only "
                  "components owned by x; executing an event owned by a silent x is invisible to the others; an event not "
                  "owned by x acts congruently on equal views; hence along two runs that differ only in x's program the view "
                  "of the others is a function of the number of executed visible events, the projected traces are "
                  "prefix-comparable and equal at equal visible counts; for completed runs under a duration bound (what "
                  "start_simulation does) everything the others observe before finish, their finish callbacks and their "
                  "positions are equal. The literal statement fails in the model exactly as "
                  "in the code at the iteration budget and at the clock read in finish (witness theorem, finding F13). Tied "
                  "to the code by paired executions, each also compared with its model run.")
    rule = ("2-5 nodes (about one scenario in eight: 11-14 nodes, i.e. two-digit identifiers), timers and communication on, "
            "mobility in most scenarios, no iteration limit, blocking start; timer names a/b/c, in about one scenario in five "
            "free-form names (beginning or ending with digits, with separators, one name extending another; with >= 11 nodes "
            "the alphabet contains N and rest+N / N+rest for two identifiers lo, hi = lo·rest or rest·lo, so that different "
            "(node, name) pairs are spelt with the same characters, and x is usually one of the two); run A: "
            "the silent node x does nothing; run B: the other nodes replay A's program table and x issues random node-scoped "
            "requests (timers under the names the others use, cancels, goto, setSpeed, setRange) from its "
            "initialize/timer/packet/telemetry/finish callbacks (the others issue nothing inside finish, whose time is the "
            "global clock); identity checks on every run; non-trivial = x cancelled (accepted) a "
            "timer name that another node had pending at that moment (or whose spelling together with the identifier "
            "coincides with that of another node's pending timer), and changed its range or target, and the other "
            "nodes made >= 4 callbacks beyond initialize/finish")
    assumptions = ["x never sends or broadcasts (silent); x uses no shared random generator and no camera",
                   "no iteration limit; the time read inside finish is excluded (finding F13: both are global by design)",
                   "timer identifiers are never observable (the code's global counter vs the model's per-node counters)"]
    quick_n = 600
    thorough_n = 18000      # scenarios with 11-14 nodes cost several small ones: keeps the tier under its 10 min
    force_cfg = {"hasTimer": True, "hasComm": True}
    drive = {"mode": "start"}
    profile = {"w": {"setTimer": 5, "cancelTimer": 1.5, "send": 2.5, "broadcast": 1.5, "goto": 1, "setSpeed": 0.3,
                     "setRange": 0.3, "gotoGeo": 0}, "budget": 50,
               # the program table is keyed by the time a callback reads: what a node does inside finish may
               # legitimately depend on the global clock (finding F13), so the other nodes stay passive there
               "pFinish": 0.0}

    def __init__(self):
        self._cache = {}

    # -- generation ------------------------------------------------------------------------
    def tweak(self, r, scn):
        cfg = scn["cfg"]
        cfg["maxIter"] = None
        if cfg["nNodes"] < 2:
            cfg["nNodes"] = r.choice([2, 3, 4])
            cfg["initPos"] = [[fbits(c) for c in simgen.lattice(r)] for _ in range(cfg["nNodes"])]
        if cfg["hasMob"] and cfg["duration"] is None:
            cfg["duration"] = r.choice([2048, 4096, 6144])
        if cfg["duration"] is not None and cfg["duration"] < 2048:
            cfg["duration"] = r.choice([2048, 4096])
        scn["x"] = r.randrange(cfg["nNodes"])
        scn["xProfile"] = dict(X_PROFILE)
        if r.random() < 0.35:
            scn["intArgs"] = [scn["x"]]       # only x writes integral numbers as ints (`schedule_timer("wake", 5)`)
        u = r.random()
        if u < self.p_crowd:
            self.crowd(r, scn)
        elif u < self.p_crowd + self.p_freeform:
            # few nodes, free-form timer names (digits first/last, separators, one name extending another)
            base = r.choice(simgen.NAMES)
            pool = [base] + [f + base for f in FREE_FRAGMENTS] + [base + f for f in FREE_FRAGMENTS] + ["0", "1", "10"]
            scn["profile"]["names"] = [base] + r.sample(pool[1:], 2)
        # requests made before the start: x stays silent (no messages) there too
        rows = []
        for row in scn.get("prestart", []):
            if row["n"] == scn["x"]:
                row = dict(row, reqs=[q for q in row["reqs"] if q[0] not in ("send", "broadcast")])
            if row["reqs"]:
                rows.append(row)
        if "prestart" in scn:
            scn["prestart"] = rows
        # the same for what an external controller asks of x between two steps
        rows = []
        for row in scn.get("between", []):
            if row["n"] == scn["x"]:
                row = dict(row, reqs=[q for q in row["reqs"] if q[0] not in ("send", "broadcast")])
            if row["reqs"]:
                rows.append(row)
        if "between" in scn:
            scn["between"] = rows
        return scn

    p_crowd = 0.12
    p_freeform = 0.10

    def crowd(self, r, scn):
        """many nodes (two-digit identifiers) and a timer-name alphabet closed under "the rest of the longer
        identifier": with ids lo and hi = lo·rest (or rest·lo) the names N and rest·N (N·rest) are both in
        use, so that different (node, name) pairs are spelt with the same characters. Identity is the pair,
        not its spelling: whatever x does with ITS timer of one name must leave the other node's timer of
        the other name alone. x is usually one of such a pair, everybody uses the whole alphabet."""
        cfg = scn["cfg"]
        n = r.choice([11, 11, 12, 13, 14])
        cfg["nNodes"] = n
        cfg["initPos"] = [[fbits(c) for c in simgen.lattice(r)] for _ in range(n)]
        base = r.choice(simgen.NAMES)
        kind, lo, hi, rest = r.choice(concat_twins(n))
        other = rest + base if kind == "pre" else base + rest
        # the mirror-image spelling as third name (the alphabet keeps its usual size of three)
        third = base + rest if kind == "pre" else rest + base
        scn["profile"]["names"] = [base, other, third]
        scn["x"] = r.choice([lo, hi]) if r.random() < 0.8 else r.randrange(n)
        scn["crowd"] = {"kind": kind, "lo": lo, "hi": hi, "rest": rest}
        # the reacting-callback budget is shared by all nodes: keep the per-node share of small scenarios
        scn["profile"]["budget"] = self.profile["budget"] + 4 * n
        # many telemetry streams cost time and add nothing here: at most a short mobile phase
        if cfg["hasMob"] and cfg["duration"] is not None and cfg["duration"] > 4096:
            cfg["duration"] = 4096
        return scn

    def generate(self, seed, tier):
        for scn in super().generate(seed, tier):
            for role in ("A", "B"):
                c = copy.deepcopy(scn)
                c["role"] = role
                c["label"] = scn["label"] + "/" + role
                yield c

    def widen(self, seed, tier):
        return [c for c in self.generate(seed + 7919, tier) if c["role"] == "A"]

    # -- the paired runs ---------------------------------------------------------------------
    def pair(self, case):
        key = stable_hash(json.dumps({k: v for k, v in case.items() if k not in ("role", "label")},
                                     sort_keys=True, default=str))
        hit = self._cache.get(key)
        if hit is not None:
            return hit
        x, seed = case["x"], case.get("seed", 0)
        a = copy.deepcopy(case)
        if "prestart" in a:
            a["prestart"] = [row for row in a["prestart"] if row["n"] != x]
        if "between" in a:
            a["between"] = [row for row in a["between"] if row["n"] != x]
        if case.get("frozen"):
            beh_a = None
        else:
            a["table"] = []
            beh_a = MaskX(simgen.Behaviour(stable_hash("beh", seed), case["cfg"], case.get("profile")), x)
        res_a = simimpl.run_impl(a, beh_a, draw_seed=seed)
        b = copy.deepcopy(case)
        b["table"] = [row for row in res_a["table"] if row["n"] != x] + copy.deepcopy(case.get("xRows", []))
        if case.get("frozen"):
            beh_b = None
        else:
            prof = dict(case.get("profile") or {})
            prof.update(case.get("xProfile") or X_PROFILE)
            beh_b = OnlyX(simgen.Behaviour(stable_hash("x", seed), case["cfg"], prof), x)
        res_b = simimpl.run_impl(b, beh_b, draw_seed=seed)
        self._cache = {key: (res_a, res_b)}      # the two roles of one scenario are evaluated back to back
        return res_a, res_b

    def run_impl(self, case):
        res_a, res_b = self.pair(case)
        primary = dict(res_a if case.get("role", "A") == "A" else res_b)
        primary["pair"] = {"A": light(res_a), "B": light(res_b)}
        return primary

    def model_input(self, case, impl):
        if case.get("role", "A") == "A" and "prestart" in case:
            case = dict(case, prestart=[row for row in case["prestart"] if row["n"] != case["x"]])
        return simimpl.to_driver(case, impl)

    # -- correspondence: each run against its model run, on the projection ---------------------
    def obs(self, case, res):
        return {"others": project(res, case["x"], mask_finish=False),
                "positions": others_positions(res, case["x"])}

    def compare(self, case, impl, model):
        diffs = []
        if model.get("untabled"):
            diffs.append(f"model reaches callbacks the implementation never made: {model['untabled'][:3]}")
        a, b = self.obs(case, impl), self.obs(case, model)
        if a["others"] != b["others"]:
            diffs.append(f"run {case.get('role', 'A')}: " + first_diff(a["others"], b["others"]))
        if a["positions"] != b["positions"] and not impl.get("crash"):
            diffs.append(f"run {case.get('role', 'A')}: final positions of the other nodes differ: "
                         f"implementation {a['positions']} vs model {b['positions']}")
        return diffs

    # -- the property ----------------------------------------------------------------------
    def identity_failures(self, case, res, tag):
        fails = []
        n = case["cfg"]["nNodes"]
        if res.get("crash"):
            return fails
        if res.get("addedIds") != list(range(n)):
            fails.append(("C13:ids", f"run {tag}: add_node returned {res.get('addedIds')} for {n} nodes added in order"))
        idents = res.get("identities") or []
        if [i[0] for i in idents] != list(range(n)):
            fails.append(("C13:ids", f"run {tag}: get_id() in initialisation order is {[i[0] for i in idents]}, "
                          f"expected {list(range(n))}"))
        if len({i[1] for i in idents}) != len(idents):
            fails.append(("C13:shared-protocol-instance", f"run {tag}: two nodes share one protocol object"))
        if len({i[2] for i in idents}) != len(idents):
            fails.append(("C13:shared-provider", f"run {tag}: two nodes share one provider object"))
        return fails

    def oracle(self, case, impl):
        fails = self.crash_fail(impl)
        role = case.get("role", "A")
        fails += self.identity_failures(case, impl, role)
        if role != "A":
            return fails
        x = case["x"]
        res_a, res_b = impl["pair"]["A"], impl["pair"]["B"]
        if res_b.get("crash"):
            typ = res_b["crash"].split(":")[0]
            fails.append((f"C13:crash:{typ}", f"run B (x={x} issues node-scoped requests) aborted with {res_b['crash']}"))
            return fails
        if impl.get("crash"):
            return fails
        bad = [e for e in res_b["trace"] if e[0] == "req" and e[1] == x and e[2][0] not in NODE_SCOPED]
        if bad:
            return fails + [("C13:harness", f"x issued a message request {bad[0]}: the pairing premise is broken")]
        bounded = case["cfg"]["maxIter"] is not None or case["drive"]["mode"] != "start"
        pa, pb = project(res_a, x), project(res_b, x)
        if pa != pb:
            i = next((k for k, (u, v) in enumerate(zip(pa, pb)) if u != v), min(len(pa), len(pb)))
            msg = (f"node-scoped requests of silent node {x} changed what the others observe: entry #{i} is "
                   f"{json.dumps(pa[i:i + 1])} without them and {json.dumps(pb[i:i + 1])} with them "
                   f"(lengths {len(pa)}/{len(pb)})")
            if bounded:
                # the step / iteration budget is one for all nodes (F13): x's events may use it up, so the
                # others may get LESS - but what they do get is still the same, in the same order
                def body(p):
                    k = next((j for j, e in enumerate(p) if e[0] == "cb" and e[2] == "finish"), len(p))
                    return p[:k]
                ba, bb = body(pa), body(pb)
                m = min(len(ba), len(bb))
                if ba[:m] != bb[:m]:
                    j = next(k for k in range(m) if ba[k] != bb[k])
                    fails.append(("C13:interference", f"node-scoped requests of silent node {x} changed what the others "
                                  f"observe (not explained by the shared step budget): entry #{j} is "
                                  f"{json.dumps(ba[j])} without them and {json.dumps(bb[j])} with them"))
                else:
                    fails.append(("C13:shared-iteration-budget", "with an iteration limit: " + msg))
            else:
                fails.append(("C13:interference", msg))
            return fails
        # the representation of the times the others read (what a payload built from the time would show)
        ta = [t for t in res_a.get("timeTypes", []) if t[0] != x and t[1] != "finish"]
        tb = [t for t in res_b.get("timeTypes", []) if t[0] != x and t[1] != "finish"]
        if ta != tb and len(ta) == len(tb) and not bounded:
            i = next(k for k, (u, v) in enumerate(zip(ta, tb)) if u != v)
            fails.append(("C13:interference", f"node-scoped requests of silent node {x} changed how the time reads in "
                          f"callback #{i} of the others: {ta[i]} without them, {tb[i]} with them"))
            return fails
        qa, qb = others_positions(res_a, x), others_positions(res_b, x)
        if qa != qb:
            fails.append(("C13:interference-position", f"final positions of the nodes other than {x} differ: {qa} vs {qb}"))
        if case.get("literal"):
            la, lb = project(res_a, x, mask_finish=False), project(res_b, x, mask_finish=False)
            if la != lb:
                i = next(k for k, (u, v) in enumerate(zip(la, lb)) if u != v)
                fails.append(("C13:finish-reads-global-clock",
                              f"literal statement: the time read inside finish differs, {json.dumps(la[i])} vs "
                              f"{json.dumps(lb[i])}: it is the time of the last event of ANY node"))
        return fails

    def coverage(self, case, impl):
        """-> (x cancelled a name another node had pending, x cancelled a name while another node had a
        pending timer whose (id, name) is spelt with the same characters, x moved / changed its range)"""
        x = case["x"]
        res_b = impl["pair"]["B"]
        pending = {}            # (node, name) -> list of due times
        cancel_hit, spelling_hit, moved = False, False, False
        for c in parse(res_b["trace"]):
            if c["kind"] == "timer":
                due = pending.get((c["n"], c["key"]), [])
                if c["t"] in due:
                    due.remove(c["t"])
            for req, ok, _ in c["reqs"]:
                if not ok:
                    continue
                if req[0] == "setTimer":
                    pending.setdefault((c["n"], req[1]), []).append(req[2])
                elif req[0] == "cancelTimer":
                    if c["n"] == x:
                        for (m, name), v in pending.items():
                            if m != x and v and name == req[1]:
                                cancel_hit = True
                            if m != x and v and same_characters(x, req[1], m, name):
                                spelling_hit = True
                    pending[(c["n"], req[1])] = []
                elif c["n"] == x and req[0] in ("goto", "gotoGeo", "setRange"):
                    moved = True
        return cancel_hit, spelling_hit, moved

    def nontrivial(self, case, impl):
        if case.get("role", "A") != "A" or impl.get("crash"):
            return False
        x = case["x"]
        cancel_hit, spelling_hit, moved = self.coverage(case, impl)
        others = [c for c in parse(impl["pair"]["A"]["trace"]) if c["n"] != x and c["kind"] not in ("initialize", "finish")]
        return (cancel_hit or spelling_hit) and moved and len(others) >= 4

    def key(self, case, impl):
        return json.dumps([project(impl["pair"]["B"], -1)], sort_keys=True, default=str)

    def sample(self, case, impl):
        x = case["x"]
        res_b = impl["pair"]["B"]
        xreq = [e[2] for e in res_b["trace"] if e[0] == "req" and e[1] == x]
        return {"label": case.get("label"), "x": x,
                "cfg": {k: v for k, v in case["cfg"].items() if k not in ("draws",)},
                "others_entries": len(project(impl["pair"]["A"], x)),
                "x_requests_in_B": len(xreq), "x_requests_head": xreq[:8]}

    def stats(self, case, impl, acc):
        super().stats(case, impl, acc)
        if case.get("role", "A") == "A":
            x = case["x"]
            acc["pairs"] = acc.get("pairs", 0) + 1
            for e in impl["pair"]["B"]["trace"]:
                if e[0] == "req" and e[1] == x:
                    k = "x_req_" + e[2][0] + ("" if e[3] else "_refused")
                    acc[k] = acc.get(k, 0) + 1
            acc["others_entries"] = acc.get("others_entries", 0) + len(project(impl["pair"]["A"], x))
            if not impl.get("crash"):
                cancel_hit, spelling_hit, _ = self.coverage(case, impl)
                n = case["cfg"]["nNodes"]
                acc["pairs_ge11_nodes"] = acc.get("pairs_ge11_nodes", 0) + (n >= 11)
                acc["pairs_freeform_names"] = acc.get("pairs_freeform_names", 0) + ("names" in (case.get("profile") or {}))
                acc["x_cancel_hits_same_name_pending_elsewhere"] = acc.get("x_cancel_hits_same_name_pending_elsewhere", 0) + cancel_hit
                acc["x_cancel_hits_same_spelling_pending_elsewhere"] = acc.get("x_cancel_hits_same_spelling_pending_elsewhere", 0) + spelling_hit

    # -- shrinking: freeze both programs, then drop requests --------------------------------
    def shrink(self, case, still_fails):
        res_a, res_b = self.pair(case)
        x = case["x"]
        frozen = copy.deepcopy(case)
        frozen["frozen"] = True
        frozen["role"] = "A"
        frozen["table"] = [r for r in res_a["table"] if r["n"] != x and r["reqs"]]
        frozen["xRows"] = [r for r in res_b["table"] if r["n"] == x and r["reqs"]]
        if not still_fails(frozen):
            return case
        best = frozen
        t0 = time.time()
        changed = True
        while changed and time.time() - t0 < 25:
            changed = False
            for field in ("xRows", "table"):
                for i in range(len(best[field]) - 1, -1, -1):
                    if time.time() - t0 > 25:
                        break
                    for j in range(len(best[field][i]["reqs"]) - 1, -1, -1):
                        cand = copy.deepcopy(best)
                        del cand[field][i]["reqs"][j]
                        if still_fails(cand):
                            best = cand
                            changed = True
        for field in ("xRows", "table"):
            best[field] = [r for r in best[field] if r["reqs"]]
        return best


CHECKS = {"C13": C13}
