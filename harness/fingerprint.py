"""Source fingerprint of the implementation the model was last audited against.

The model is hand-written; its tie to /repo is the correspondence check of every run.  This module makes that
tie react to *where* the source changed: `source_fingerprint.json` (committed) holds, for every module of the
`gradysim` package, a hash of its syntax tree (comments, blank lines and docstrings do not count) taken on the
tree the model was written and audited against.  On every run the hashes are recomputed from the working tree:

* nothing differs  -> the sampling budget of the tier is used as it is;
* something differs -> the source is no longer the one the model was audited against.  That is NOT a violation
  (a harmless rewrite changes the hash too) - it makes the check sample deeper (further generator seeds, model
  and implementation both run) before it decides, and the evidence names the files that differ.

    harness/fingerprint.py            print what differs from the recorded fingerprint
    harness/fingerprint.py --update   record the current tree (after a `fix:` commit and a model audit)
"""
import ast
import hashlib
import json
import sys
from pathlib import Path

from common import REPO, VERIF

RECORD = VERIF / "harness" / "source_fingerprint.json"


def _strip_docstrings(tree):
    for node in ast.walk(tree):
        if isinstance(node, (ast.Module, ast.ClassDef, ast.FunctionDef, ast.AsyncFunctionDef)):
            b = node.body
            if b and isinstance(b[0], ast.Expr) and isinstance(getattr(b[0], "value", None), ast.Constant) \
                    and isinstance(b[0].value.value, str):
                node.body = b[1:] or [ast.Pass()]
    return tree


def file_hash(path: Path) -> str:
    src = path.read_bytes()
    try:
        tree = _strip_docstrings(ast.parse(src))
        data = ast.dump(tree, include_attributes=False).encode()
    except (SyntaxError, ValueError):
        data = b"unparsable:" + src
    return hashlib.sha256(data).hexdigest()[:24]


def current(repo: Path = REPO) -> dict:
    root = repo / "gradysim"
    out = {}
    for p in sorted(root.rglob("*.py")):
        out[str(p.relative_to(repo))] = file_hash(p)
    return out


def changed(repo: Path = REPO):
    """files whose syntax differs from the audited tree (added and removed ones included); None when no record."""
    if not RECORD.exists():
        return None
    rec = json.loads(RECORD.read_text())["files"]
    cur = current(repo)
    return sorted(f for f in set(rec) | set(cur) if rec.get(f) != cur.get(f))


if __name__ == "__main__":
    if "--update" in sys.argv:
        import subprocess
        head = subprocess.run(["git", "-C", str(REPO), "rev-parse", "HEAD"], capture_output=True, text=True).stdout.strip()
        RECORD.write_text(json.dumps({"audited_commit": head, "files": current()}, indent=1) + "\n")
        print(f"recorded {len(current())} files at {head[:7]}")
    else:
        d = changed()
        print("no record" if d is None else ("unchanged" if not d else "\n".join(d)))
