"""Histories of the public EventLoop API (schedule_event / pop_event / peek_event / clear / len /
current_time) on the real class, with the direct predicates of C01/C02/C03 evaluated on them."""
import itertools
import random

from common import TICK, stable_hash, to_ticks

from gradysim.simulator.event import EventLoop, EventLoopException


class _Job:
    """a unit of work whose `run` method is handed to the loop as the callback"""

    def __init__(self, ident):
        self.ident = ident

    def run(self):
        return self.ident


def make_callback(ident, kept):
    """the callable shapes user code hands to schedule_event: a lambda, a functools.partial, the bound
    method of an object nobody else keeps (`loop.schedule_event(t, Job(x).run)`) and of one that is kept"""
    import functools
    shape = ident % 4
    if shape == 0:
        return lambda i=ident: i
    if shape == 1:
        return functools.partial(int, ident)
    job = _Job(ident)
    if shape == 3:
        kept.append(job)
    return job.run


def gen_history(seed, max_ops=60, alphabet=None, p_clear=0.03):
    r = random.Random(stable_hash("el", seed))
    fine = alphabet is None and r.random() < 0.15
    if fine:
        # fine regime: 2^40 ticks per second; values one tick (9e-13 s) apart
        b = 2 ** 40
        alphabet = r.choice([[b, b + 1, b + 2, 2 * b], [b - 1, b, b + 1], [3 * b, 3 * b + 1, 4 * b, 4 * b - 1]])
    alphabet = alphabet or r.choice([[1024, 2048, 3072], [0, 1024], [512, 1024, 1536, 2048, 4096, 8192], [5, 5, 7]])
    n = r.randint(3, max_ops)
    ops, next_id = [], 0
    mode = r.choice(["mixed", "burst", "drain"])
    for _ in range(n):
        x = r.random()
        if mode == "burst" and x < 0.7 or mode == "mixed" and x < 0.5 or mode == "drain" and x < 0.35:
            ops.append(["schedule", r.choice(alphabet), next_id])
            next_id += 1
        elif x < 0.85:
            ops.append(["pop"])
        elif x < 0.85 + p_clear:
            ops.append(["clear"])
        else:
            ops.append([r.choice(["peek", "len", "now"])])
    # drain at the end so that every queued event's order is observed
    ops += [["len"]] + [["pop"]] * (next_id + 1)
    case = {"kind": "el", "ops": ops}
    if fine:
        case["tick"] = 2.0 ** 40
    if r.random() < 0.35:
        # a driver that pops the events of one instant as a batch ("instant") or collects everything it pops
        # ("end") and runs the callbacks afterwards: a popped event belongs to its caller - what it carries when
        # it is run is what was scheduled (seeded C02_L: the loop re-uses the objects it handed out)
        case["deferred"] = r.choice(["instant", "end"])
    return case


def enumerate_histories(max_len, alphabet=(1024, 2048, 3072)):
    """every history of at most max_len ops over the timestamp alphabet (ids in request order)"""
    opset = [("schedule", t) for t in alphabet] + [("pop",), ("peek",), ("clear",), ("len",)]
    for n in range(1, max_len + 1):
        for combo in itertools.product(opset, repeat=n):
            ops, k = [], 0
            for c in combo:
                if c[0] == "schedule":
                    ops.append(["schedule", c[1], k])
                    k += 1
                else:
                    ops.append([c[0]])
            yield {"kind": "el", "ops": ops + [["pop"]] * (k + 1)}


def run_impl(case):
    TICK = float(case.get("tick", 1024.0))

    def to_ticks(t):
        from common import to_ticks as tt
        return tt(t, TICK)
    loop = EventLoop()
    kept = []
    out = []
    crash = None
    deferred = case.get("deferred")
    held = []               # (event object, the result slot of its pop) not yet run

    def flush():
        for ev, slot in held:
            slot[:] = [ev.callback(), to_ticks(ev.timestamp)]
        del held[:]
    try:
        for op in case["ops"]:
            name = op[0]
            if name == "schedule":
                ident = op[2]
                try:
                    loop.schedule_event(op[1] / TICK, make_callback(ident, kept), f"ev{ident}")
                    out.append("ok")
                except EventLoopException:
                    out.append("past")
            elif name == "pop":
                try:
                    e = loop.pop_event()
                    if deferred:
                        if deferred == "instant" and held and held[-1][0].timestamp != e.timestamp:
                            flush()
                        slot = []
                        held.append((e, slot))
                        out.append(slot)
                    else:
                        out.append([e.callback(), to_ticks(e.timestamp)])
                except EventLoopException:
                    out.append("empty")
            elif name == "peek":
                e = loop.peek_event()
                out.append(None if e is None else [e.callback(), to_ticks(e.timestamp)])
            elif name == "clear":
                loop.clear()
                out.append("ok")
            elif name == "len":
                out.append(len(loop))
            elif name == "now":
                out.append(to_ticks(loop.current_time))
        flush()
    except Exception as e:
        crash = f"{type(e).__name__}: {e}"
    return {"results": out, "crash": crash}


def oracle(case, impl, prop):
    """Direct reading of C01 / C02 / C03 on one API history (no model involved)."""
    fails = []
    if impl["crash"]:
        return [(f"{prop}:crash:{impl['crash'].split(':')[0]}", impl["crash"])]
    now = 0
    queued = {}          # id -> (ts, request index)
    popped_ids = set()
    req_index = 0
    last_pop = None
    for op, res in zip(case["ops"], impl["results"]):
        name = op[0]
        if name == "schedule":
            ts, ident = op[1], op[2]
            if ts < now:
                if res != "past":
                    fails.append(("C01:past-accepted", f"schedule at {ts} accepted although current time is {now}"))
                    queued[ident] = (ts, req_index)
            else:
                if res != "ok":
                    fails.append(("C01:valid-refused", f"schedule at {ts} >= now {now} refused"))
                else:
                    queued[ident] = (ts, req_index)
            req_index += 1
        elif name == "pop":
            if not queued:
                if res != "empty":
                    fails.append(("C02:invented", f"pop on an empty queue returned {res}"))
                continue
            if res == "empty":
                fails.append(("C02:lost", f"pop refused although {len(queued)} events are queued"))
                continue
            ident, ts = res
            if ident not in queued:
                what = "C02:duplicate" if ident in popped_ids else "C02:invented"
                fails.append((what, f"pop returned event {ident} which is not queued"))
                continue
            qts, qidx = queued.pop(ident)
            popped_ids.add(ident)
            if qts != ts:
                fails.append(("C02:changed", f"event {ident} scheduled for {qts} popped with timestamp {ts}"))
            if ts < now:
                fails.append(("C01:time-decreased", f"popped timestamp {ts} < current time {now}"))
            least = min(queued.values(), default=None)
            if least is not None and (qts, qidx) > least:
                if qts > least[0]:
                    fails.append(("C01:not-earliest", f"popped ts {qts} while an event at {least[0]} is queued"))
                else:
                    fails.append(("C03:tie-order", f"event {ident} (request #{qidx}) popped before an equal-time event requested earlier (#{least[1]})"))
            now = ts
        elif name == "peek":
            if not queued:
                if res is not None:
                    fails.append(("C02:invented", f"peek on an empty queue returned {res}"))
            else:
                least = min((v, k) for k, v in queued.items())
                if res is None or res[0] not in queued:
                    fails.append(("C02:peek", f"peek returned {res} with {len(queued)} queued"))
                elif queued[res[0]][0] != least[0][0]:
                    fails.append(("C01:not-earliest", f"peek shows ts {res[1]}, earliest queued is {least[0][0]}"))
        elif name == "clear":
            queued.clear()
        elif name == "len":
            if res != len(queued):
                fails.append(("C02:len", f"len is {res}, accepted-minus-popped is {len(queued)}"))
        elif name == "now":
            if res != now:
                fails.append(("C01:clock", f"current_time is {res}, last popped timestamp is {now}"))
    wanted = {"C01": ("C01",), "C02": ("C02",), "C03": ("C03",)}[prop]
    return [f for f in fails if f[0].split(":")[0] in wanted]


def nontrivial(case, impl, prop):
    ops = case["ops"]
    if prop == "C03":
        # a tie group of size >= 4 queued at once
        from collections import Counter
        c = Counter(op[1] for op in ops if op[0] == "schedule")
        return any(v >= 4 for v in c.values())
    sizes = [r for op, r in zip(ops, impl["results"]) if op[0] == "len" and isinstance(r, int)]
    refused = any(r in ("past", "empty") for r in impl["results"])
    return refused and any(s >= 4 for s in sizes)
