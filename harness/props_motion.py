"""Checks for the numeric simulator-level properties
  C09  delivery gated by the sender's range and the positions at send time,
  C10  loss only as configured; never duplicated or revived,
  C11  straight-line motion at speed, no overshoot, stop on target.
Property-scoped observations for the correspondence with the Lean model, and direct predicates
(independent of the model) on the implementation's trace."""
import math
import random
from collections import Counter, defaultdict
from fractions import Fraction

import simgen
import simimpl
from common import bitsf, bitsv3, fbits, v3bits, stable_hash, TICK
from simcheck import SimCheck, parse, afters, completed, first_diff

from gradysim.protocol.position import geo_to_cartesian

TOL = 1e-9


def is_int(x):
    return isinstance(x, int) and not isinstance(x, bool)


def dist3(a, b):
    try:
        return math.sqrt((b[0] - a[0]) ** 2 + (b[1] - a[1]) ** 2 + (b[2] - a[2]) ** 2)
    except OverflowError:            # a changed implementation may put nodes at astronomical coordinates
        return float("inf")


def first_label(cfg):
    return cfg["handlers"][0] if cfg["handlers"] else None


def must_be_handled(cfg, case, impl, due, last_time):
    """is a delivery due at `due` certain to have been executed by the end of this run?"""
    if cfg["maxIter"] is not None:
        return False
    D = cfg["duration"]
    return due < last_time or (completed(case, impl) and (D is None or due <= D))


_LAST = {}


def run_with_recorder(case, behaviour, cls):
    """run the real simulator with the harness's own extension of simimpl.Recorder (which registers
    itself in _LAST); returns (result, recorder)"""
    old = simimpl.Recorder
    simimpl.Recorder = cls
    _LAST.pop("rec", None)
    try:
        res = simimpl.run_impl(case, behaviour, draw_seed=case.get("seed", 0))
    finally:
        simimpl.Recorder = old
    return res, _LAST.pop("rec", None)


# ================================================================================================
# C11
# ================================================================================================
class CmdPosRecorder(simimpl.Recorder):
    """the harness's own recording for C11: every node's position (public `get_node(i).position`)
    right before and right after each mobility command is handed to the provider"""

    def __init__(self, scn, behaviour=None):
        super().__init__(scn, behaviour)
        self.cmd_pos = []
        self.geo_targets = []
        _LAST.setdefault("rec", self)     # the scenario's own recorder is made first; a shadow simulation's comes later

    def snap(self):
        try:
            return [v3bits(self.sim.get_node(i).position) for i in range(self.scn["cfg"]["nNodes"])]
        except Exception:
            return None

    def perform(self, proto, req):
        if req[0] in ("goto", "gotoGeo", "setSpeed") and self.sim is not None:
            before = self.snap()
            if req[0] == "gotoGeo":
                # where the geographic target lies in the scene: the project's public conversion, relative to
                # the reference the mobility handler was configured with (what that point IS is C20's subject;
                # that the node then flies to it like to any other target is C11's)
                try:
                    self.geo_targets.append([len(self.trace), v3bits(geo_to_cartesian(
                        bitsv3(self.scn["cfg"]["refGeo"]), bitsv3(req[1:4])))])
                except Exception:
                    pass
            try:
                return super().perform(proto, req)
            finally:
                self.cmd_pos.append([len(self.trace), req[0], before, self.snap()])
        return super().perform(proto, req)


def walk_motion(case, impl):
    """Replays the implementation's trace against the statement of C11.
    Returns (fails, info); info counts, per node, partial steps / arrivals / ticks at rest / mid-flight
    retargets and the number of judged updates."""
    cfg = case["cfg"]
    n = cfg["nNodes"]
    dts = bitsf(cfg["dtS"])
    fails = []
    info = {"partial": [0] * n, "arrive": [0] * n, "rest": [0] * n, "retarget": [0] * n,
            "speedchange": [0] * n, "ticks": 0, "judged": 0, "exact": 0, "events": 0, "commands": 0,
            "geo": 0, "geoJudged": 0, "revisit": 0, "crossRevisit": 0}
    pos = [bitsv3(p) for p in cfg["initPos"]]
    tgt = [None] * n            # None: no target; "?": a geographic target whose place is unknown (not judged); else a 3-tuple
    geo = {i: bitsv3(b) for i, b in impl.get("geoTargets") or []}
    is_geo = [False] * n        # the current target was given geographically
    last_of = [dict() for _ in range(n)]   # statistics only: the last request of each kind, per node
    seen = [[] for _ in range(n)]          # statistics only: all goto requests so far, per node
    spd = [bitsf(cfg["defaultSpeed"])] * n
    flying = [0] * n            # partial steps made towards the current target
    samples = impl.get("positions") or []
    first = first_label(cfg)
    k = 0
    had_cb = False

    def add(sig, msg):
        if len(fails) < 12:
            fails.append((sig, msg))

    dt = cfg["dt"]
    updates_seen, idle_seen = set(), set()

    def should_move(i):
        return tgt[i] not in (None, "?") and pos[i] != tgt[i] and spd[i] * dts > 0

    def silent_is_update(ts, new_pos):
        """an executed event without protocol callbacks is the mobility update of its instant (k*dt, once per
        instant) — unless nothing moved although somebody had to: then it is some other silent event (a cancelled
        timer's), and the update of that instant must still follow (checked below: C11:update-skipped)"""
        if not (is_int(ts) and dt > 0 and ts > 0 and ts % dt == 0) or ts in updates_seen:
            return False
        if new_pos == pos:
            if any(should_move(i) for i in range(n)):
                return False
            idle_seen.add(ts)          # nobody moved, nobody had to: the update or another silent event — either way fine
            return True
        updates_seen.add(ts)
        return True

    def check_skipped(ts):
        # every update instant strictly before `ts` must have been seen by now
        if is_int(ts) and dt > 0:
            kt = ((ts - 1) // dt) * dt if ts > 0 else 0
            if kt >= dt and kt not in updates_seen and kt not in idle_seen and cfg["hasMob"]:
                updates_seen.add(kt)
                who = [f"node {i} at {pos[i]} with target {tgt[i]}" for i in range(n) if should_move(i)]
                add("C11:update-skipped", f"no mobility update was observed at {kt} (update interval {dt}), events now at {ts}: "
                                          f"the update of that instant was skipped or it left in place " + ", ".join(who[:3]))

    for idx, op, before, after in impl.get("cmdPos", []):
        info["commands"] += 1
        if before is not None and before != after:
            i = next(i for i in range(n) if before[i] != after[i])
            add("C11:moved-by-command", f"the {op} command (trace entry {idx}) itself moved node {i} from "
                                        f"{bitsv3(before[i])} to {bitsv3(after[i])}")
    for ti, e in enumerate(impl["trace"]):
        if e[0] == "cb":
            if e[2] not in ("initialize", "finish"):
                had_cb = True
        elif e[0] == "req":
            node, req, ok = e[1], e[2], e[3]
            if req[0] in ("goto", "gotoGeo", "setSpeed") and not ok:
                add("C11:command-refused", f"{req[0]} by node {node} raised")
            if not ok or not cfg["hasMob"]:
                continue
            if req[0] in ("goto", "gotoGeo"):
                # a cartesian target is the triple given; a geographic one the converted point recorded at the request
                new = bitsv3(req[1:4]) if req[0] == "goto" else geo.get(ti, "?")
                if tgt[node] not in (None, "?") and pos[node] != tgt[node] and flying[node] > 0:
                    info["retarget"][node] += 1
                if tgt[node] not in (None, "?") and new != tgt[node]:
                    # a request made before (same kind, same parameters) while the node is now headed elsewhere
                    info["revisit"] += req in seen[node]
                    # ... the previous request of its kind, because a request of the other kind came in between
                    info["crossRevisit"] += last_of[node].get(req[0]) == req
                last_of[node][req[0]] = req
                seen[node].append(req)
                tgt[node] = new
                is_geo[node] = req[0] == "gotoGeo"
                info["geo"] += is_geo[node]
                flying[node] = 0
            elif req[0] == "setSpeed":
                v = bitsf(req[1])
                if tgt[node] not in (None, "?") and pos[node] != tgt[node] and v != spd[node]:
                    info["speedchange"][node] += 1
                spd[node] = v
        elif e[0] == "after" and e[1] == first:
            if k >= len(samples):
                break
            new_pos = [bitsv3(p) for p in samples[k]]
            k += 1
            info["events"] += 1
            check_skipped(e[3])
            if had_cb:
                # an event that ran protocol callbacks (timer, packet, telemetry): nobody moves — in
                # particular a goto / set-speed issued from it does not move the node
                for i in range(n):
                    if new_pos[i] != pos[i]:
                        add("C11:moved-outside-update",
                            f"node {i} moved from {pos[i]} to {new_pos[i]} during an event that is not a mobility "
                            f"update (time {e[3]}, iteration {e[2]})")
            elif not silent_is_update(e[3], new_pos):
                # a silent event that is not the mobility update (a cancelled timer's event): nobody moves
                for i in range(n):
                    if new_pos[i] != pos[i]:
                        add("C11:moved-outside-update",
                            f"node {i} moved from {pos[i]} to {new_pos[i]} during a silent event at {e[3]} that is not "
                            f"the mobility update of that instant")
            else:
                info["ticks"] += 1
                for i in range(n):
                    p, q, t = pos[i], new_pos[i], tgt[i]
                    if t is None:
                        if q != p:
                            add("C11:moved-without-target", f"node {i} has no target but moved from {p} to {q} at {e[3]}")
                        continue
                    if t == "?":
                        continue
                    info["judged"] += 1
                    info["geoJudged"] += is_geo[i]
                    d = dist3(p, t)
                    mm = spd[i] * dts
                    scale = max(1.0, d, mm, max(abs(c) for c in p + t))
                    tol = TOL * scale
                    if case.get("regime") == "projected":
                        tol = 0.0       # axis-aligned dyadic geometry at projected-map magnitudes: every operation is exact
                    if p == t:
                        info["rest"][i] += 1
                        if q != t:
                            add("C11:left-target", f"node {i} was on its target {t} and moved to {q} at {e[3]}")
                        continue
                    moved, rem = dist3(p, q), dist3(q, t)
                    step = min(mm, d)
                    if moved > d + tol or rem > d + tol:
                        add("C11:overshoot", f"node {i} at {p} target {t} (distance {d}) speed*dt {mm}: moved {moved} "
                                             f"to {q}, now {rem} from the target")
                    elif abs(moved - step) > tol:
                        add("C11:wrong-step-length", f"node {i} at {p} target {t} (distance {d}) speed {spd[i]} dt {dts}: "
                                                     f"moved {moved}, expected min(speed*dt, d) = {step}")
                    elif abs(rem - (d - step)) > tol or any(
                            abs(q[c] - (p[c] + (t[c] - p[c]) * (step / d))) > tol for c in range(3)):
                        add("C11:off-segment", f"node {i} at {p} target {t}: new position {q} is not the point of the "
                                               f"segment {step} from the start (remaining {rem}, expected {d - step})")
                    if mm >= d * (1 + TOL) and q != t:
                        add("C11:not-on-target", f"node {i} at {p} target {t} distance {d} <= speed*dt {mm}: landed on {q}, "
                                                 f"not exactly on the target")
                    if q == t:
                        info["arrive"][i] += 1
                        if all(float(c).is_integer() for c in p + t):
                            info["exact"] += 1
                    else:
                        info["partial"][i] += 1
                        flying[i] += 1
            pos = new_pos
            had_cb = False
    fin = impl.get("finalPositions")
    if fin is not None and k == len(samples) and not impl.get("crash"):
        for i in range(n):
            if bitsv3(fin[i]) != pos[i]:
                add("C11:moved-outside-update", f"node {i} is at {bitsv3(fin[i])} at the end of the run but was at {pos[i]} "
                                                f"after the last executed event")
    return fails, info


def geo_waypoint(r, ref, span=8):
    """a geographic waypoint (lat, lon, alt) within `span`/65536 degrees (about 1.7 m each) of the reference"""
    return (ref[0] + r.randint(-span, span) / 65536.0, ref[1] + r.randint(-span, span) / 65536.0,
            float(r.randint(0, 30)))


def waypoint_request(r, ref, p_geo=0.5, lo=-12, hi=12):
    """one named place of a route as the request that sends a node there: a cartesian goto to a lattice point or a
    geographic goto — the same place is always requested by the same command with the same parameters"""
    if r.random() < p_geo:
        return ["gotoGeo"] + v3bits(geo_waypoint(r, ref))
    return ["goto"] + v3bits(simgen.lattice(r, lo, hi))


class RouteBehaviour(simgen.Behaviour):
    """simgen.Behaviour whose goto / gotoGeo requests are drawn from the scenario's alphabet of places
    (profile["places"]: complete requests, cartesian and geographic mixed)"""

    def make(self, r, op, n, kind, key, t, hops):
        if op in ("goto", "gotoGeo") and self.p.get("places"):
            return list(r.choice(self.p["places"]))
        return super().make(r, op, n, kind, key, t, hops)


class C11(SimCheck):
    prop = "C11"
    allow_tolerant = False     # its oracle samples positions in the after-step hooks, one round per event
    level_text = ("Theorems over the reals for the per-node update (no target: fixed; arrival: the target itself, for every "
                  "scalar type; partial step: the point of the segment at speed*dt from the start; moved = min(speed*dt, d); "
                  "trajectory by induction; commands change only target/speed), tied to the code by bit-exact differential "
                  "execution of the same formula at IEEE doubles.")
    rule = ("exact regime: axis-aligned integer geometry with dyadic speed*dt, scripted retarget / speed change mid-flight; "
            "route regime: 1-3 nodes patrolling a closed route of 2-4 named places, each place given either as a cartesian or "
            "as a geographic goto (always by the same command), legs started on a schedule (mid-flight or after resting); "
            "general regime: 1-5 nodes, random lattice / geographic targets or a small alphabet of places (cartesian, or "
            "cartesian and geographic mixed) that are revisited, goto / geographic goto / set-speed issued from initialize, "
            "timer, packet and telemetry handlers at random ticks; a geographic target is judged as the point the public "
            "geo_to_cartesian gives for it; observation = every node's position after every executed event, compared bit "
            "for bit; non-trivial = one node's trajectory has >= 3 partial steps, an arrival, >= 2 ticks at rest and a "
            "mid-flight retarget")
    assumptions = ["0 <= speed and 0 < update_rate (with a negative speed the code moves away from the target: not a speed)",
                   "where a geographic target lies is C20's subject: C11 takes the point geo_to_cartesian(reference, target) "
                   "and checks that the node flies to it like to any other target",
                   "times are dyadic (ticks/1024); IEEE rounding of the real-number formula is trusted (T3), the oracle "
                   "allows 1e-9 relative"]
    force_cfg = {"hasMob": True, "hasTimer": True}
    want_pos = True
    profile = {"w": {"setTimer": 3, "cancelTimer": 0, "send": 0.6, "broadcast": 0.3, "goto": 4, "gotoHere": 1.5, "setSpeed": 2,
                     "setRange": 0, "gotoGeo": 0},
               "pTelemetry": 0.3, "speeds": [10.0, 4.0, 0.5, 64.0, 0.0, 3.3, 17.7, 1.0, 25.0],
               "horizon": 24 * 1024, "budget": 90, "maxReq": 3}
    quick_n = 200
    thorough_n = 6000
    exact_quick = 100
    exact_thorough = 3000
    route_quick = 40
    route_thorough = 1200

    # -- generators ---------------------------------------------------------------------------
    def exact_case(self, seed):
        r = random.Random(stable_hash("C11x", seed))
        scn, _ = simgen.gen_scenario(seed, dict(self.force_cfg), dict(self.profile), None)
        cfg = scn["cfg"]
        n, dt = cfg["nNodes"], cfg["dt"]
        dts = dt / TICK
        rows = []
        ticks = 4
        for node in range(n):
            if node > 0 and r.random() < 0.25:
                continue                                    # a node without target: must stay put
            speed = r.choice([0.5, 1.0, 2.0, 4.0, 8.0, 16.0])
            mm = speed * dts
            p0 = bitsv3(cfg["initPos"][node])
            axis, sgn = r.randrange(3), r.choice([-1, 1])
            d1 = max(1, int(round(mm * r.uniform(3.2, 7.0))))
            k1 = math.ceil(d1 / mm)
            t1 = list(p0)
            t1[axis] += sgn * d1
            init = [["goto"] + v3bits(t1)]
            if r.random() < 0.8:
                init.insert(r.randrange(2), ["setSpeed", fbits(speed)])
            else:
                speed = bitsf(cfg["defaultSpeed"])
                mm = speed * dts
                k1 = math.ceil(d1 / mm)
            rows.append({"n": node, "cb": "initialize", "key": "", "t": 0, "reqs": init})
            total = k1
            if k1 >= 2 and r.random() < 0.8:
                kr = r.randint(1, k1 - 1)                   # mid-flight: kr*mm < d1
                reqs = []
                speed2 = speed
                if r.random() < 0.4:
                    speed2 = r.choice([0.5, 1.0, 2.0, 4.0, 8.0])
                    reqs.append(["setSpeed", fbits(speed2)])
                mm2 = speed2 * dts
                d2 = max(1, int(round(mm2 * r.uniform(3.2, 6.0))))
                t2 = list(p0)
                t2[axis] -= sgn * d2                        # back through the start, on the same axis
                if r.random() < 0.75:
                    reqs.insert(r.randrange(len(reqs) + 1), ["goto"] + v3bits(t2))
                    total = kr + math.ceil((kr * mm + d2) / mm2) + 1
                else:
                    total = kr + math.ceil(max(0.0, d1 - kr * mm) / mm2) + 1 if mm2 > 0 else kr + 4
                rows.append({"n": node, "cb": "telemetry", "key": "", "t": kr * dt, "reqs": reqs})
            ticks = max(ticks, total + r.choice([2, 3, 4]))
        ticks = min(ticks, 60)
        cfg["duration"] = ticks * dt
        cfg["maxIter"] = None
        if r.random() < 0.5:
            scn["drive"] = {"mode": "start"}
        else:
            scn["drive"] = {"mode": "steps", "n": ticks * (n + 1) + r.choice([0, 3, 10])}
        scn["frozen"] = True
        scn["table"] = rows
        scn["wantPos"] = True
        scn["regime"] = "exact"
        scn["label"] = f"exact/{seed}"
        return scn

    def projected_case(self, seed):
        """projected-map coordinates (UTM-like eastings / northings of 1e5..1e7 m) and slow vehicles: the step of one
        update (speed*dt around a millimetre) is far below 1e-9 of the coordinates' magnitude, so anything "relative"
        in the arrival test shows (seeded C11_L). Axis-aligned, every quantity dyadic: position after k updates is
        exactly start + k*speed*dt and the landing is exact."""
        r = random.Random(stable_hash("C11p", seed))
        n, dt = r.choice([1, 2, 3]), r.choice([1, 2, 4])
        scn, _ = simgen.gen_scenario(seed, dict(self.force_cfg, nNodes=n, dt=dt), dict(self.profile), None)
        scn = self.plain(scn)
        for k in ("shadow", "tick", "intTime", "intArgs", "prestart", "between"):
            scn.pop(k, None)
        cfg = scn["cfg"]
        dts = dt / TICK
        base = [r.choice([7.0e6, 4194304.0, 6.5e6]), r.choice([5.0e5, 262144.0, 8.0e5]), r.choice([30.0, 1.0e5])]
        cfg["initPos"] = [v3bits([base[0] + r.randrange(-8, 9), base[1] + r.randrange(-8, 9), base[2]]) for _ in range(n)]
        rows, ticks = [], 4
        for node in range(n):
            speed = r.choice([0.25, 0.5, 1.0])
            mm = speed * dts
            p0 = bitsv3(cfg["initPos"][node])
            axis = r.choice([0, 1] if base[2] < 1000 else [0, 1, 2])
            sgn = r.choice([-1, 1])
            k1 = r.randint(12, 40)
            t1 = list(p0)
            t1[axis] += sgn * k1 * mm
            init = [["setSpeed", fbits(speed)], ["goto"] + v3bits(t1)]
            if r.random() < 0.5:
                init.reverse()
            rows.append({"n": node, "cb": "initialize", "key": "", "t": 0, "reqs": init})
            ticks = max(ticks, k1 + r.choice([2, 3, 5]))
        cfg["duration"] = ticks * dt
        cfg["maxIter"] = None
        scn["drive"] = {"mode": "start"} if r.random() < 0.5 else {"mode": "steps", "n": ticks * (n + 1) + r.choice([0, 3, 10])}
        scn["frozen"] = True
        scn["table"] = rows
        scn["wantPos"] = True
        scn["regime"] = "projected"
        scn["label"] = f"projected/{seed}"
        return scn

    def route_case(self, seed):
        """patrols: every node flies a closed route W0 -> W1 -> ... -> W0 -> ... over 2-4 named places, the next leg
        requested on a schedule from the telemetry callback (sometimes mid-flight, sometimes after resting on the
        place); each place is a cartesian or a geographic goto, always the same command with the same parameters"""
        r = random.Random(stable_hash("C11r", seed))
        scn, _ = simgen.gen_scenario(seed, dict(self.force_cfg, nNodes=r.choice([1, 2, 2, 3])), dict(self.profile), None)
        cfg = scn["cfg"]
        n, dt = cfg["nNodes"], cfg["dt"]
        dts = dt / TICK
        ref = bitsv3(cfg["refGeo"])
        shared = [waypoint_request(r, ref) for _ in range(r.choice([2, 3, 4]))]
        rows = []
        last = 4
        for node in range(n):
            if node > 0 and r.random() < 0.2:
                continue                                    # a node without target: must stay put
            route = shared if r.random() < 0.5 else [waypoint_request(r, ref) for _ in range(r.choice([2, 2, 3, 4]))]
            route = route[r.randrange(len(route)):] + route
            speed = r.choice([2.0, 4.0, 8.0, 16.0, 3.3, 10.0])
            init = [list(route[0])]
            if r.random() < 0.7:
                init.insert(r.randrange(2), ["setSpeed", fbits(speed)])
            else:
                speed = bitsf(cfg["defaultSpeed"])
            rows.append({"n": node, "cb": "initialize", "key": "", "t": 0, "reqs": init})
            k = 0
            for leg in range(1, r.randint(3, 7)):
                # a leg of ~20 m takes 20/(speed*dt) updates: leave earlier (retarget mid-flight) or later (rest first)
                k += max(1, int(round(20.0 / (speed * dts) * r.choice([0.3, 0.6, 1.5, 2.5]))))
                if k > 50:
                    break
                reqs = [list(route[leg % len(route)])]
                if r.random() < 0.15:
                    speed = r.choice([2.0, 4.0, 8.0, 16.0])
                    reqs.insert(r.randrange(2), ["setSpeed", fbits(speed)])
                rows.append({"n": node, "cb": "telemetry", "key": "", "t": k * dt, "reqs": reqs})
            last = max(last, k + int(round(45.0 / (speed * dts))) + 2)
        ticks = min(last, 64)
        cfg["duration"] = ticks * dt
        cfg["maxIter"] = None
        if r.random() < 0.5:
            scn["drive"] = {"mode": "start"}
        else:
            scn["drive"] = {"mode": "steps", "n": ticks * (n + 1) + r.choice([0, 3, 10])}
        scn["frozen"] = True
        scn["table"] = rows
        scn["wantPos"] = True
        scn["regime"] = "route"
        scn["label"] = f"route/{seed}"
        return scn

    def generate(self, seed, tier):
        m = self.exact_quick if tier == "quick" else self.exact_thorough
        for i in range(m):
            yield self.plain(self.exact_case(stable_hash(self.prop, "exact", seed, i)))
        m = self.route_quick if tier == "quick" else self.route_thorough
        for i in range(m):
            yield self.plain(self.route_case(stable_hash(self.prop, "route", seed, i)))
        for i in range(m // 2):
            yield self.projected_case(stable_hash(self.prop, "projected", seed, i))
        yield from super().generate(seed, tier)

    @staticmethod
    def plain(scn):
        scn.pop("tolerant", None)
        scn.pop("escapeAt", None)
        return scn

    def behaviour(self, case):
        if case.get("frozen"):
            return None
        return RouteBehaviour(stable_hash("beh", case.get("seed", 0)), case["cfg"], case.get("profile"))

    def tweak(self, r, scn):
        cfg = scn["cfg"]
        scn["regime"] = "general"
        cfg["duration"] = r.choice([4096, 6144, 10240, 10240, 16384, 20480])
        cfg["maxIter"] = r.choice([None, None, None, 60, 200])
        cfg["delay"] = r.choice([0, 1, 512, 1024])
        cfg["failRate"] = fbits(0.0)
        cfg["defaultRange"] = fbits(1.0e6)
        if scn["drive"]["mode"] == "steps":
            scn["drive"]["n"] = r.choice([3, 30, 120, 400])
        style = r.random()
        if style < 0.3:
            # a small waypoint alphabet: targets are revisited (goto T, goto U, goto T again), also at
            # the same speed, from positions off the original line
            scn["profile"]["waypoints"] = [list(simgen.lattice(r, -12, 12)) for _ in range(r.choice([2, 3, 3]))]
            scn["profile"]["horizon"] = 16 * 1024
            scn["profile"]["pTelemetry"] = 0.3
        elif style < 0.6:
            # a small alphabet of places, some cartesian and some geographic: both kinds of goto are mixed on one
            # node and the same place comes back by the very same request after the node was sent elsewhere
            ref = bitsv3(cfg["refGeo"])
            k = r.choice([2, 3, 3, 4])
            places = [waypoint_request(r, ref, p_geo=(0.0 if j == 0 else 1.0 if j == 1 else 0.5)) for j in range(k)]
            scn["profile"]["places"] = places
            scn["profile"]["w"] = dict(scn["profile"]["w"], goto=3, gotoGeo=3)
            scn["profile"]["horizon"] = 16 * 1024
            scn["profile"]["pTelemetry"] = 0.3
        elif style < 0.8:
            # free geographic targets next to free cartesian ones
            scn["profile"]["w"] = dict(scn["profile"]["w"], gotoGeo=2)
        return scn

    # -- observation / correspondence ---------------------------------------------------------
    def obs(self, case, res):
        return {"positions": res.get("positions"), "final": res.get("finalPositions")}

    def compare(self, case, impl, model):
        diffs = []
        if model.get("untabled"):
            diffs.append(f"model reaches callbacks the implementation never made: {model['untabled'][:3]}")
        a, b = impl.get("positions") or [], model.get("positions") or []
        if len(a) != len(b):
            diffs.append(f"number of position samples differs: implementation {len(a)} vs model {len(b)}")
        for k, (x, y) in enumerate(zip(a, b)):
            if x != y:
                i = next(i for i in range(len(x)) if x[i] != y[i])
                diffs.append(f"position of node {i} after executed event #{k} differs: implementation {bitsv3(x[i])} vs "
                             f"model {bitsv3(y[i])} (bit patterns {x[i]} vs {y[i]})")
                break
        if impl.get("finalPositions") != model.get("finalPositions"):
            diffs.append(f"final positions differ: implementation {impl.get('finalPositions')} vs model {model.get('finalPositions')}")
        return diffs

    def run_impl(self, case):
        res, rec = run_with_recorder(case, self.behaviour(case), CmdPosRecorder)
        res["cmdPos"] = rec.cmd_pos if rec is not None else []
        res["geoTargets"] = rec.geo_targets if rec is not None else []
        return res

    def oracle(self, case, impl):
        fails = self.crash_fail(impl)
        f, _ = walk_motion(case, impl)
        return fails + f

    def nontrivial(self, case, impl):
        _, info = walk_motion(case, impl)
        return any(info["partial"][i] >= 3 and info["arrive"][i] >= 1 and info["rest"][i] >= 2 and info["retarget"][i] >= 1
                   for i in range(case["cfg"]["nNodes"]))

    def key(self, case, impl):
        return str(impl.get("positions")) + str(case["cfg"]["initPos"])

    def stats(self, case, impl, acc):
        super().stats(case, impl, acc)
        _, info = walk_motion(case, impl)
        acc["regime_" + case.get("regime", "other")] = acc.get("regime_" + case.get("regime", "other"), 0) + 1
        for k_, name in (("partial", "partial_steps"), ("arrive", "arrivals"), ("rest", "ticks_at_rest"),
                         ("retarget", "midflight_retargets"), ("speedchange", "midflight_speed_changes")):
            acc[name] = acc.get(name, 0) + sum(info[k_])
        acc["mobility_updates"] = acc.get("mobility_updates", 0) + info["ticks"]
        acc["commands_observed_before_after"] = acc.get("commands_observed_before_after", 0) + info["commands"]
        acc["node_updates_judged"] = acc.get("node_updates_judged", 0) + info["judged"]
        acc["exact_lattice_arrivals"] = acc.get("exact_lattice_arrivals", 0) + info["exact"]
        for k_, name in (("geo", "geographic_gotos"), ("geoJudged", "node_updates_judged_towards_geographic_target"),
                         ("revisit", "same_request_repeated_while_headed_elsewhere"),
                         ("crossRevisit", "same_request_repeated_after_goto_of_other_kind")):
            acc[name] = acc.get(name, 0) + info[k_]
        acc["position_samples_compared_bitwise"] = acc.get("position_samples_compared_bitwise", 0) + \
            len(impl.get("positions") or []) * case["cfg"]["nNodes"]


# ================================================================================================
# C09
# ================================================================================================
QUADS = [(1, 2, 2, 3), (2, 3, 6, 7), (1, 4, 8, 9), (4, 4, 7, 9), (2, 6, 9, 11), (6, 6, 7, 11), (3, 4, 12, 13),
         (2, 5, 14, 15), (2, 10, 11, 15), (0, 3, 4, 5), (0, 6, 8, 10), (0, 0, 6, 6), (1, 12, 12, 17), (8, 9, 12, 17),
         (4, 5, 20, 21), (6, 10, 15, 19)]
assert all(a * a + b * b + c * c == d * d for a, b, c, d in QUADS)

class SendPosRecorder(simimpl.Recorder):
    """the harness's own recording for C09: every node's position (public `get_node(i).position`) at
    the moment a send / broadcast request is issued, keyed by the index its trace entry will get"""

    def __init__(self, scn, behaviour=None):
        super().__init__(scn, behaviour)
        self.send_pos = []
        _LAST.setdefault("rec", self)     # the scenario's own recorder is made first; a shadow simulation's comes later

    def perform(self, proto, req):
        if req[0] in ("send", "broadcast") and self.sim is not None:
            n = self.scn["cfg"]["nNodes"]
            try:
                snap = [v3bits(self.sim.get_node(i).position) for i in range(n)]
            except Exception:
                snap = None
            self.send_pos.append([len(self.trace), snap])
        return super().perform(proto, req)


def run_with_send_positions(case, behaviour):
    res, rec = run_with_recorder(case, behaviour, SendPosRecorder)
    res["sendPos"] = rec.send_pos if rec is not None else []
    return res


def exact_sq(p, q):
    return sum((Fraction(q[c]) - Fraction(p[c])) ** 2 for c in range(3))


def walk_range(case, impl):
    """every copy of every accepted send / broadcast, with the exact margin dist^2 - range^2 at the
    send: list of dict(src, dst, msg, t, margin, lattice, judged, expect)"""
    cfg = case["cfg"]
    n = cfg["nNodes"]
    rng = [bitsf(cfg["defaultRange"])] * n
    snaps = {i: s for i, s in impl.get("sendPos", [])}
    copies, fails = [], []
    for c in parse(impl["trace"]):
        for req, ok, idx in c["reqs"]:
            if req[0] == "setRange":
                r = bitsf(req[1])
                if r < 0 and ok:
                    fails.append(("C09:negative-range-accepted", f"set_transmission_range({r}) by node {c['n']} did not raise"))
                if r >= 0 and not ok:
                    fails.append(("C09:valid-range-refused", f"set_transmission_range({r}) by node {c['n']} raised"))
                if ok and cfg["hasComm"]:
                    rng[c["n"]] = r
            elif req[0] in ("send", "broadcast") and ok and cfg["hasComm"]:
                if req[0] == "send":
                    d = req[2]
                    dsts = [d] if (d is not None and d != c["n"] and 0 <= d < n) else []
                else:
                    dsts = [d for d in range(n) if d != c["n"]]
                snap = snaps.get(idx)
                for d in dsts:
                    cp = {"src": c["n"], "dst": d, "msg": req[1], "t": c["t"], "kind": c["kind"], "judged": False,
                          "expect": None, "boundary": False, "range": rng[c["n"]]}
                    if snap is not None and math.isinf(rng[c["n"]]) and rng[c["n"]] > 0:
                        # an unlimited range: every receiver is in range wherever it is
                        cp.update(judged=True, expect=True, margin=float("-inf"), dist=0.0)
                    elif snap is not None and rng[c["n"]] >= 0:
                        ps, pd = bitsv3(snap[c["n"]]), bitsv3(snap[d])
                        margin = exact_sq(ps, pd) - Fraction(rng[c["n"]]) ** 2
                        lattice = all(float(x).is_integer() for x in ps + pd)
                        cp["margin"] = float(margin)
                        cp["dist"] = math.sqrt(float(exact_sq(ps, pd)))
                        if margin == 0 and lattice:
                            cp.update(judged=True, expect=True, boundary=True)
                        elif abs(margin) > 1e-12 * (float(rng[c["n"]]) ** 2 + 1.0):
                            # beyond every rounding error of the squared distance (about 1e-16 relative)
                            cp.update(judged=True, expect=(margin < 0))
                    copies.append(cp)
    return copies, fails


class C09(SimCheck):
    prop = "C09"
    level_text = ("Theorems: in range iff the Euclidean distance at the send is at most the sender's range (over the reals, "
                  "boundary included); the decision and the scheduled event depend only on the two positions, the sender's "
                  "range and the draw at the send (every scalar type); setRange changes only the caller's range; negative "
                  "ranges are refused. Tied to the code by differential execution on exact lattice geometry.")
    rule = ("2-5 nodes placed on the integer lattice at distances exactly on / one unit inside / one unit outside the range "
            "boundary (Pythagorean quadruples: squared distances exact), ranges changed at arbitrary times through the real "
            "CommunicationController (incl. 0 and negative), nodes moving during positive delays, loss-free medium; positions "
            "at each send sampled by the harness through get_node; a copy is judged when dist^2 - range^2 is exactly 0 on the "
            "lattice or beyond 1e-6; non-trivial = an asymmetric pair (a->b delivered, b->a not) and >= 1 on-boundary send")
    assumptions = ["0 <= range (the code squares the range; the controller refuses negatives)", "loss-free medium (C10 covers loss)",
                   "decisions within 1e-6 of the boundary at non-lattice positions are not judged"]
    force_cfg = {"hasComm": True, "hasTimer": True, "failRate": fbits(0.0)}
    profile = {"w": {"setTimer": 3, "cancelTimer": 0.3, "send": 5, "broadcast": 3, "goto": 0.8, "setSpeed": 0.3,
                     "setRange": 2.5, "gotoGeo": 0},
               "pBadDst": 0.05, "maxReq": 4, "budget": 80, "pTelemetry": 0.2, "speeds": [10.0, 32.0, 64.0, 4.0]}
    quick_n = 320
    thorough_n = 8000

    def tweak(self, r, scn):
        cfg = scn["cfg"]
        n = cfg["nNodes"]
        if n == 1:
            n = r.choice([2, 3, 4])
        a, b, c, R = r.choice(QUADS)
        base = [r.randint(-20, 20), r.randint(-20, 20), r.randint(0, 20)]

        def offset():
            v = [a, b, c]
            r.shuffle(v)
            v = [x * r.choice([-1, 1]) for x in v]
            kind = r.choice(["on", "on", "in", "out", "on"])
            if kind != "on":
                ax = max(range(3), key=lambda i: abs(v[i]))          # a non-zero coordinate
                s = 1 if v[ax] > 0 else -1
                v[ax] += s if kind == "out" else -s
            return v

        pts = [base]
        for i in range(1, n):
            anchor = pts[0] if (i == 1 or r.random() < 0.6) else r.choice(pts)
            if r.random() < 0.12:
                pts.append([r.randint(-40, 40), r.randint(-40, 40), r.randint(0, 20)])
            else:
                o = offset()
                pts.append([anchor[0] + o[0], anchor[1] + o[1], anchor[2] + o[2]])
        cfg["nNodes"] = n
        cfg["initPos"] = [[fbits(float(x)) for x in p] for p in pts]
        if r.random() < 0.35 and len(pts) > 1:
            # a hair inside / beyond the boundary: one node is shifted by a nanometre along one axis (far above
            # the rounding error of the squared distance, far below any tolerance somebody might slip in)
            k = r.randrange(1, len(pts))
            ax = r.randrange(3)
            q = [float(x) for x in pts[k]]
            q[ax] += r.choice([-1.0e-9, 1.0e-9, 3.0e-9])
            cfg["initPos"][k] = [fbits(x) for x in q]
        cfg["defaultRange"] = fbits(float(r.choice([R, R, R, R + 1, R - 1, 60])))
        cfg["delay"] = r.choice([0, 1, 512, 1024, 3072, 3072])
        cfg["maxIter"] = None
        if cfg["hasMob"] and r.random() < 0.35:
            simgen.set_handler(cfg, "mobility", False)
        if cfg["duration"] is None and cfg["hasMob"]:
            cfg["duration"] = r.choice([6144, 10240])
        if cfg["duration"] is not None and cfg["duration"] < 2048:
            cfg["duration"] = r.choice([4096, 6144, 10240])
        other = r.choice(QUADS)[3]
        scn["profile"]["ranges"] = [float(R), float(R), float(R), float(R + 1), float(R - 1), float(other), R + 0.5,
                                    0.0, -1.0, -0.25, 1000.0, float("inf")]
        return scn

    def run_impl(self, case):
        return run_with_send_positions(case, self.behaviour(case))

    def obs(self, case, res):
        cbs = parse(res["trace"])
        return {"deliveries": sorted([c["n"], c["key"], c["t"]] for c in cbs if c["kind"] == "packet"),
                "setRange": sorted([c["n"], c["t"], r[0][1], r[1]] for c in cbs for r in c["reqs"] if r[0][0] == "setRange")}

    def oracle(self, case, impl):
        cfg = case["cfg"]
        fails = self.crash_fail(impl)
        if impl.get("crash"):
            return fails
        copies, f = walk_range(case, impl)
        fails += f
        delay = max(cfg["delay"], 0)
        ex = afters(impl["trace"])
        last_time = ex[-1][1] if ex else 0
        got = defaultdict(list)
        for c in parse(impl["trace"]):
            if c["kind"] == "packet":
                got[(c["n"], c["key"])].append(c["t"])
        by_key = defaultdict(list)
        for cp in copies:
            by_key[(cp["dst"], cp["msg"])].append(cp)
        for key, cps in by_key.items():
            times = got.get(key, [])
            if len(cps) != 1:
                continue                      # payloads are unique per command; hand-made duplicates are not judged
            cp = cps[0]
            if not cp["judged"] or not is_int(cp["t"]) or cp["kind"] == "finish":
                continue
            due = cp["t"] + delay
            desc = (f"copy of {cp['msg']} from node {cp['src']} (range {cp['range']}) to node {cp['dst']} sent at {cp['t']}: "
                    f"distance {cp['dist']!r}, dist^2 - range^2 = {cp['margin']!r}")
            if cp["expect"]:
                if not times and must_be_handled(cfg, case, impl, due, last_time):
                    sig = "C09:boundary-not-delivered" if cp["boundary"] else "C09:in-range-not-delivered"
                    fails.append((sig, desc + " — never handled"))
                elif len(times) > 1:
                    fails.append(("C09:duplicate", desc + f" — handled {len(times)} times"))
                elif times and times[0] != due:
                    fails.append(("C09:wrong-time", desc + f" — handled at {times[0]}, due at {due}"))
            elif times:
                fails.append(("C09:out-of-range-delivered", desc + f" — handled at {times}"))
        for key, times in got.items():
            if key not in by_key:
                fails.append(("C09:wrong-addressee", f"node {key[0]} handled message {key[1]} that was never addressed to it"))
        return fails[:12]

    def nontrivial(self, case, impl):
        copies, _ = walk_range(case, impl)
        got = {(c["n"], c["key"]) for c in parse(impl["trace"]) if c["kind"] == "packet"}
        deliv, not_deliv, boundary = set(), set(), False
        for cp in copies:
            if not cp["judged"]:
                continue
            boundary = boundary or cp["boundary"]
            if (cp["dst"], cp["msg"]) in got:
                deliv.add((cp["src"], cp["dst"]))
            elif not cp["expect"]:
                not_deliv.add((cp["src"], cp["dst"]))
        return boundary and any((b, a) in not_deliv for a, b in deliv)

    def stats(self, case, impl, acc):
        super().stats(case, impl, acc)
        copies, _ = walk_range(case, impl)
        for cp in copies:
            k = "copies_on_boundary" if cp["boundary"] else ("copies_unjudged_near_boundary" if not cp["judged"] else
                                                            ("copies_in_range" if cp["expect"] else "copies_out_of_range"))
            acc[k] = acc.get(k, 0) + 1
        acc["copies_sent_while_off_lattice"] = acc.get("copies_sent_while_off_lattice", 0) + sum(
            1 for i, s in impl.get("sendPos", []) if s and any(not bitsf(x).is_integer() for p in s for x in p))


# ================================================================================================
# C10
# ================================================================================================
ALMOST_ONE = 1.0 - 2.0 ** -53


def clamp01(v):
    return min(max(v, 0.0), ALMOST_ONE)


def draw_pattern(r, mode, rate, k=3000):
    up = clamp01(math.nextafter(rate, 2.0))
    down = clamp01(math.nextafter(rate, -1.0))
    eq = clamp01(rate)
    if mode == "allpass":
        return [r.choice([up, ALMOST_ONE, clamp01((rate + 1) / 2)]) for _ in range(k)]
    if mode == "alldrop":
        return [r.choice([0.0, eq, down]) for _ in range(k)]
    if mode == "alternate":
        return [(up if i % 2 == 0 else eq) for i in range(k)]
    if mode == "equal":
        return [eq] * k
    return [r.choice([eq, up, down, 0.0, ALMOST_ONE, r.random()]) for _ in range(k)]      # "edge"


def walk_loss(case, impl):
    """the copies considered, in the order the code considers them: [dict(src,dst,msg,t,kind,draw,expect)]"""
    cfg = case["cfg"]
    n = cfg["nNodes"]
    rate = bitsf(cfg["failRate"])
    draws = [bitsf(b) for b in impl.get("draws", [])]
    copies = []
    k = 0
    rng = [bitsf(cfg["defaultRange"])] * n
    for c in parse(impl["trace"]):
        for req, ok, _ in c["reqs"]:
            if req[0] == "setRange" and ok and cfg["hasComm"]:
                rng[c["n"]] = bitsf(req[1])
            if req[0] not in ("send", "broadcast") or not ok or not cfg["hasComm"]:
                continue
            if req[0] == "send":
                d = req[2]
                dsts = [d] if (d is not None and d != c["n"] and 0 <= d < n) else []
            else:
                dsts = [d for d in range(n) if d != c["n"]]
            for d in dsts:
                cp = {"src": c["n"], "dst": d, "msg": req[1], "t": c["t"], "kind": c["kind"], "bc": req[0] == "broadcast",
                      "cmd": (c["i"], req[1])}
                if rate > 0:
                    cp["draw"] = draws[k] if k < len(draws) else None
                    cp["expect"] = None if cp["draw"] is None else (cp["draw"] > rate)
                    k += 1
                else:
                    cp["draw"] = None
                    cp["expect"] = True
                if rng[c["n"]] < 1.0e5 and rng[c["n"]] != bitsf(cfg["defaultRange"]):
                    # a sender that has shrunk its own range: its copy still consumes its draw, whether it
                    # arrives is C09's business and is not judged here
                    cp["expect"] = None
                copies.append(cp)
    return copies, k


class C10(SimCheck):
    prop = "C10"
    level_text = ("Theorems for every draw stream: with a positive rate each copy consumes exactly one draw and is scheduled iff "
                  "its draw exceeds the rate (and it is in range), a lost copy creates no event (and only accepted events ever "
                  "run); rate <= 0: nothing lost, no draw; rate >= 1: nothing delivered; the copies of a broadcast are decided "
                  "by their own draws; Lebesgue measure of the losing draws = rate. Tied to the code by differential execution "
                  "with the very draw stream the implementation consumed.")
    rule = ("2-5 nodes all in range, failure rate in (0,1) and the extremes 0 and 1, sends and broadcasts from every handler; "
            "draw streams from a seeded generator and prescribed adversarial streams (all-pass, all-drop, alternating, values "
            "exactly equal to the rate and one ulp beside it); observation = packet callbacks + number of draws consumed; "
            "non-trivial = a broadcast whose copies have mixed fates; thorough adds a frequency run (>= 2e5 copies at rates "
            "0.1/0.5/0.9, 6-sigma band) reported as supporting statistics")
    assumptions = ["all pairs in range (C09 covers the range gate)", "random.random() is replaced by a recording source; its "
                   "uniformity on [0,1) is assumed (T3), C10_frequency gives the measure of the losing draws"]
    force_cfg = {"hasComm": True, "hasTimer": True, "defaultRange": fbits(1.0e6)}
    unlimited_share = 0.15       # scenarios whose medium has an unlimited range (float("inf")): loss applies all the same
    profile = {"w": {"setTimer": 3, "cancelTimer": 0.4, "send": 4, "broadcast": 4, "goto": 0.4, "setSpeed": 0.1,
                     "setRange": 0, "gotoGeo": 0}, "pBadDst": 0.08, "maxReq": 4, "budget": 70}
    quick_n = 330
    thorough_n = 8000

    def tweak(self, r, scn):
        cfg = scn["cfg"]
        if cfg["nNodes"] < 3 and r.random() < 0.7:
            cfg["nNodes"] = r.choice([3, 4, 5])
            cfg["initPos"] = [[fbits(c) for c in simgen.lattice(r)] for _ in range(cfg["nNodes"])]
        rate = r.choice([0.25, 0.5, 0.75, 0.1, 0.9, 0.3, 0.5, 0.0, 1.0, round(r.random(), 3)])
        cfg["failRate"] = fbits(rate)
        if random.Random(stable_hash("unlimited", scn.get("seed", 0))).random() < self.unlimited_share:
            cfg["defaultRange"] = fbits(float("inf"))
        elif random.Random(stable_hash("tightrange", scn.get("seed", 0))).random() < 0.2:
            # a finite range that just covers the (static) fleet: every pair is in range, but only just - a slip in
            # the distance computation now loses copies the draws let pass
            simgen.set_handler(cfg, "mobility", False)
            pts = [bitsv3(q) for q in cfg["initPos"][:cfg["nNodes"]]]
            far = max([math.dist(a, b) for a in pts for b in pts] + [1.0])
            cfg["defaultRange"] = fbits(float(math.ceil(far)) + 1.0)
        elif random.Random(stable_hash("mixedranges", scn.get("seed", 0))).random() < 0.2:
            # some nodes shrink their OWN range to next to nothing: what the others transmit (range 1e6, everybody
            # in range) must be lost only as configured - a node's range governs what it transmits, not what it receives
            scn["profile"]["w"] = dict(scn["profile"]["w"], setRange=1.2)
            scn["profile"]["ranges"] = [0.25, 1.0e6, 0.25]
        if cfg["hasMob"] and cfg["duration"] is None:
            cfg["duration"] = 6144
        if cfg["maxIter"] is not None and r.random() < 0.7:
            cfg["maxIter"] = None
            if cfg["hasMob"] and cfg["duration"] is None:
                cfg["duration"] = 6144
        mode = r.choice(["seeded"] * 4 + ["allpass", "alldrop", "alternate", "equal", "edge", "edge"])
        scn["drawMode"] = mode
        if mode != "seeded":
            cfg["draws"] = [fbits(v) for v in draw_pattern(r, mode, rate)]
            scn["prescribedDraws"] = True
        return scn

    # -- thorough tier: frequency run ---------------------------------------------------------
    def freq_case(self, seed, rate, nodes=41, rounds=1700):
        cfg = {"nNodes": nodes, "hasTimer": True, "hasComm": True, "hasMob": False, "handlers": ["timer", "communication"],
               "duration": None, "maxIter": None, "delay": 1, "failRate": fbits(rate), "defaultRange": fbits(1.0e6),
               "dt": 1024, "dtS": fbits(1.0), "defaultSpeed": fbits(10.0), "refGeo": [fbits(0.0)] * 3,
               "initPos": [[fbits(float(i)), fbits(0.0), fbits(0.0)] for i in range(nodes)], "draws": []}
        return {"kind": "freq", "cfg": cfg, "table": [], "drive": {"mode": "start"}, "seed": seed, "rate": rate,
                "rounds": rounds, "label": f"freq/{rate}/{seed}", "profile": {}, "hardCap": 5_000_000}

    def generate(self, seed, tier):
        yield from super().generate(seed, tier)
        if tier == "thorough":
            for rate in (0.1, 0.5, 0.9):
                yield self.freq_case(stable_hash("C10freq", seed, rate), rate)

    def behaviour(self, case):
        if case.get("kind") == "freq":
            return FreqBehaviour(case["rounds"])
        return super().behaviour(case)

    def model_input(self, case, impl):
        if case.get("kind") == "freq":
            return None
        return super().model_input(case, impl)

    def obs(self, case, res):
        cbs = parse(res["trace"])
        return {"deliveries": sorted([c["n"], c["key"], c["t"]] for c in cbs if c["kind"] == "packet"),
                "drawsUsed": res.get("drawsUsed")}

    def oracle(self, case, impl):
        cfg = case["cfg"]
        fails = self.crash_fail(impl)
        if impl.get("crash"):
            return fails
        rate = bitsf(cfg["failRate"])
        delay = max(cfg["delay"], 0)
        copies, considered = walk_loss(case, impl)
        if impl.get("drawsUsed") != considered:
            fails.append(("C10:draw-count", f"{impl.get('drawsUsed')} draws consumed for {len(copies)} copies considered at "
                                            f"failure rate {rate} (expected {considered})"))
        ex = afters(impl["trace"])
        last_time = ex[-1][1] if ex else 0
        got = defaultdict(list)
        for c in parse(impl["trace"]):
            if c["kind"] == "packet":
                got[(c["n"], c["key"])].append(c["t"])
        by_key = defaultdict(list)
        for cp in copies:
            by_key[(cp["dst"], cp["msg"])].append(cp)
        for key, cps in by_key.items():
            times = sorted(got.get(key, []))
            live = [cp for cp in cps if cp["kind"] != "finish"]
            if any(cp["expect"] is None or not is_int(cp["t"]) for cp in cps):
                continue
            passed = sorted(cp["t"] + delay for cp in live if cp["expect"])
            desc = (f"message {key[1]} for node {key[0]}: copies " +
                    ", ".join(f"(sent {cp['t']}, draw {cp['draw']!r} vs rate {rate!r})" for cp in cps[:4]))
            if len(times) > len(passed):
                if not passed:
                    fails.append(("C10:lost-copy-delivered", desc + f" — all lost, yet handled at {times}"))
                else:
                    fails.append(("C10:duplicate", desc + f" — {len(passed)} passed, handled {len(times)} times at {times}"))
                continue
            for t in times:
                if t not in passed:
                    fails.append(("C10:wrong-time", desc + f" — handled at {t}, due at {passed}"))
            musts = [due for due in passed if must_be_handled(cfg, case, impl, due, last_time)]
            if len(times) < len(musts):
                fails.append(("C10:passed-copy-lost", desc + f" — due at {musts}, handled only at {times}"))
        for key, times in got.items():
            if key not in by_key:
                fails.append(("C10:wrong-addressee", f"node {key[0]} handled message {key[1]} that was never addressed to it"))
        if case.get("kind") == "freq":
            lost = sum(1 for cp in copies if cp["expect"] is False)
            N = len(copies)
            sigma = math.sqrt(rate * (1 - rate) / N) if N else 1.0
            if N < 60000 or abs(lost / N - rate) > 6 * sigma:
                fails.append(("C10:frequency-out-of-band", f"{lost} of {N} copies lost at rate {rate}: frequency {lost / max(N, 1)} "
                                                           f"outside rate ± 6 sigma ({6 * sigma})"))
        return fails[:12]

    def nontrivial(self, case, impl):
        copies, _ = walk_loss(case, impl)
        per = defaultdict(set)
        for cp in copies:
            if cp["bc"] and cp["draw"] is not None and cp["expect"] is not None:
                per[cp["cmd"]].add(cp["expect"])
        return any(len(v) == 2 for v in per.values())

    def key(self, case, impl):
        return str(self.obs(case, impl)) + str(case["cfg"]["failRate"])

    def sample(self, case, impl):
        s = super().sample(case, impl)
        s["drawMode"] = case.get("drawMode")
        return s

    def stats(self, case, impl, acc):
        if case.get("kind") == "freq":
            copies, _ = walk_loss(case, impl)
            lost = sum(1 for cp in copies if cp["expect"] is False)
            rate = case["rate"]
            N = max(len(copies), 1)
            acc.setdefault("frequency_runs", []).append({
                "rate": rate, "copies": len(copies), "lost": lost, "frequency": lost / N,
                "sigma": math.sqrt(rate * (1 - rate) / N), "deviation_in_sigma": (lost / N - rate) / math.sqrt(rate * (1 - rate) / N),
                "band": "6 sigma", "delivered_callbacks": sum(1 for e in impl["trace"] if e[0] == "cb" and e[2] == "packet")})
            acc["frequency_copies_total"] = acc.get("frequency_copies_total", 0) + len(copies)
            return
        super().stats(case, impl, acc)
        copies, considered = walk_loss(case, impl)
        acc["copies_considered"] = acc.get("copies_considered", 0) + len(copies)
        acc["draws_consumed"] = acc.get("draws_consumed", 0) + (impl.get("drawsUsed") or 0)
        acc["copies_lost_by_draw"] = acc.get("copies_lost_by_draw", 0) + sum(1 for cp in copies if cp["expect"] is False)
        rate = bitsf(case["cfg"]["failRate"])
        acc["draws_equal_to_rate"] = acc.get("draws_equal_to_rate", 0) + sum(1 for cp in copies if cp["draw"] == rate)
        m = "stream_" + str(case.get("drawMode"))
        acc[m] = acc.get(m, 0) + 1
        rk = "rate_0" if rate <= 0 else ("rate_1" if rate >= 1 else "rate_between")
        acc[rk] = acc.get(rk, 0) + 1

    def shrink(self, case, still_fails):
        if case.get("kind") == "freq":
            return case
        return super().shrink(case, still_fails)


class FreqBehaviour:
    """node 0 broadcasts once per tick for `rounds` ticks (frequency run)"""

    def __init__(self, rounds):
        self.rounds = rounds

    def react(self, n, kind, key, t):
        if n == 0 and kind in ("initialize", "timer") and is_int(t) and t < self.rounds:
            return [["broadcast", f"f{t}"], ["setTimer", "a", t + 1]]
        return []


CHECKS = {"C09": C09, "C10": C10, "C11": C11}


# ================================================================================================
# hand-written hot cases (written to corpus/Cxx/*.json by `python harness/props_motion.py --write-corpus`)
# ================================================================================================
def _cfg(n, pos, **kw):
    cfg = {"nNodes": n, "hasTimer": True, "hasComm": True, "hasMob": True,
           "handlers": ["timer", "communication", "mobility"], "duration": 8192, "maxIter": None, "delay": 0,
           "failRate": fbits(0.0), "defaultRange": fbits(60.0), "dt": 1024, "dtS": fbits(1.0),
           "defaultSpeed": fbits(10.0), "refGeo": [fbits(0.0)] * 3,
           "initPos": [[fbits(float(c)) for c in p] for p in pos], "draws": []}
    cfg.update(kw)
    cfg["dtS"] = fbits(cfg["dt"] / TICK)
    return cfg


def _row(n, cb, key, t, reqs):
    return {"n": n, "cb": cb, "key": key, "t": t, "reqs": reqs}


def _goto(p):
    return ["goto"] + v3bits([float(c) for c in p])


def hot_cases():
    out = {}
    # C11: distance 5 at speed 2, dt 1: 2, 4, 5 (clamped), then at rest; a second node retargeted mid-flight and
    # slowed down; a third node without target
    out[("C11", "clamp_rest_retarget")] = {
        "cfg": _cfg(3, [(0, 0, 0), (10, 0, 5), (-3, 7, 2)], duration=12 * 1024),
        "table": [_row(0, "initialize", "", 0, [["setSpeed", fbits(2.0)], _goto((5, 0, 0))]),
                  _row(1, "initialize", "", 0, [_goto((10, 40, 5)), ["setSpeed", fbits(4.0)]]),
                  _row(1, "telemetry", "", 3 * 1024, [_goto((10, -8, 5))]),
                  _row(1, "telemetry", "", 5 * 1024, [["setSpeed", fbits(8.0)]])],
        "drive": {"mode": "start"}, "seed": 1, "frozen": True, "wantPos": True, "regime": "exact", "profile": {}}
    # C11: a diagonal (3,4,12)/13 flight at a non-dyadic speed, target reached exactly, zero speed in between
    out[("C11", "diagonal_zero_speed")] = {
        "cfg": _cfg(1, [(1, 1, 1)], dt=512, duration=16 * 512),
        "table": [_row(0, "initialize", "", 0, [_goto((4, 5, 13)), ["setSpeed", fbits(3.3)]]),
                  _row(0, "telemetry", "", 2 * 512, [["setSpeed", fbits(0.0)]]),
                  _row(0, "telemetry", "", 4 * 512, [["setSpeed", fbits(7.1)]])],
        "drive": {"mode": "steps", "n": 40}, "seed": 2, "frozen": True, "wantPos": True, "regime": "general", "profile": {}}
    # C11: places given in both ways on one node: out to A (cartesian), detour to B (geographic, mid-flight), back to A
    # by the very same request, rest there; node 1 the other way round (geographic, cartesian, the same geographic again)
    geo_b = ["gotoGeo"] + v3bits([20 / 65536.0, -9 / 65536.0, 25.0])
    geo_g = ["gotoGeo"] + v3bits([-6 / 65536.0, 14 / 65536.0, 3.0])
    out[("C11", "both_goto_kinds_return")] = {
        "cfg": _cfg(2, [(0, 0, 10), (5, 5, 5)], duration=40 * 1024, defaultSpeed=fbits(4.0)),
        "table": [_row(0, "initialize", "", 0, [_goto((30, 0, 10))]),
                  _row(0, "telemetry", "", 3 * 1024, [list(geo_b)]),
                  _row(0, "telemetry", "", 8 * 1024, [_goto((30, 0, 10))]),
                  _row(1, "initialize", "", 0, [list(geo_g)]),
                  _row(1, "telemetry", "", 12 * 1024, [_goto((5, 5, 5))]),
                  _row(1, "telemetry", "", 14 * 1024, [list(geo_g)])],
        "drive": {"mode": "start"}, "seed": 6, "frozen": True, "wantPos": True, "regime": "route", "profile": {}}
    # C08: ranges lowered and raised again between transmissions, on exact lattice distances (5, 20, 50): node 0 first
    # reaches only its neighbour (exactly on the boundary), then widens to exactly the farthest node and broadcasts, narrows
    # (the copy for node 3 is out of range: not C08's business) and widens again; node 3 starts on the medium's range, goes
    # silent with range 0 and comes back
    out[("C08", "ranges_lowered_and_raised_between_sends")] = {
        "cfg": _cfg(4, [(0, 0, 0), (3, 4, 0), (0, 0, 50), (20, 0, 0)], hasMob=False, handlers=["timer", "communication"],
                    defaultRange=fbits(30.0), delay=1024, duration=None),
        "table": [_row(0, "initialize", "", 0, [["setRange", fbits(5.0)], ["send", "a", 1], ["setTimer", "a", 2048]]),
                  _row(0, "timer", "a", 2048, [["setRange", fbits(50.0)], ["broadcast", "b"], ["setRange", fbits(10.0)],
                                               ["send", "c", 3], ["send", "c1", 1], ["setTimer", "b", 4096]]),
                  _row(0, "timer", "b", 4096, [["setRange", fbits(1.0e6)], ["send", "d", 2]]),
                  _row(3, "initialize", "", 0, [["send", "e", 0], ["setRange", fbits(0.0)], ["send", "f", 0],
                                                 ["setTimer", "c", 3072]]),
                  _row(3, "timer", "c", 3072, [["setRange", fbits(25.0)], ["broadcast", "g"]]),
                  _row(2, "packet", "b", 3072, [["setRange", fbits(60.0)], ["send", "h", 0]])],
        "drive": {"mode": "start"}, "seed": 7, "frozen": True, "rangeChanges": True, "profile": {}}
    # C09: node 1 exactly on node 0's boundary (2,3,6 / 7); node 1 shrinks its own range to 6: 0->1 delivered,
    # 1->0 not; a negative range is refused; node 1 flies away during the 3 s delay and still receives
    out[("C09", "boundary_asymmetric_moving")] = {
        "cfg": _cfg(3, [(0, 0, 0), (2, 3, 6), (2, 3, 7)], defaultRange=fbits(7.0), delay=3072, duration=10240,
                    defaultSpeed=fbits(64.0)),
        "table": [_row(0, "initialize", "", 0, [["broadcast", "b0"], ["setRange", fbits(-1.0)], ["send", "u0", 1]]),
                  _row(1, "initialize", "", 0, [["setRange", fbits(6.0)], ["send", "u1", 0], _goto((40, 40, 6)),
                                                 ["setTimer", "a", 2048]]),
                  _row(1, "timer", "a", 2048, [["setRange", fbits(1000.0)], ["send", "v1", 0]]),
                  _row(2, "initialize", "", 0, [["send", "u2", 0], ["setRange", fbits(0.0)], ["send", "w2", 1]])],
        "drive": {"mode": "start"}, "seed": 3, "frozen": True, "profile": {}}
    # C10: rate 1/2, a broadcast to three receivers with draws 0.75 (passes), exactly 0.5 (lost), 0.25 (lost), then a
    # unicast with the draw one ulp above the rate (passes)
    rate = 0.5
    out[("C10", "mixed_fates_equal_rate")] = {
        "cfg": _cfg(4, [(0, 0, 0), (1, 0, 0), (2, 0, 0), (3, 0, 0)], hasMob=False, handlers=["communication", "timer"],
                    failRate=fbits(rate), delay=1024, duration=None,
                    draws=[fbits(v) for v in (0.75, rate, 0.25, math.nextafter(rate, 1.0), math.nextafter(rate, 0.0), 0.0, ALMOST_ONE)]),
        "table": [_row(0, "initialize", "", 0, [["broadcast", "b0"], ["send", "u0", 2]]),
                  _row(1, "packet", "b0", 1024, [["broadcast", "b1"]])],
        "drive": {"mode": "start"}, "seed": 4, "frozen": True, "prescribedDraws": True, "drawMode": "edge", "profile": {}}
    # C10: the extremes on one program: rate 1 (nothing delivered, one draw per copy), rate 0 (no draw at all)
    for nm, r_ in (("rate_one", 1.0), ("rate_zero", 0.0)):
        out[("C10", nm)] = {
            "cfg": _cfg(3, [(0, 0, 0), (1, 0, 0), (2, 0, 0)], hasMob=False, handlers=["timer", "communication"],
                        failRate=fbits(r_), delay=0, duration=None),
            "table": [_row(0, "initialize", "", 0, [["broadcast", "b0"], ["send", "u0", 1], ["setTimer", "a", 512]]),
                      _row(0, "timer", "a", 512, [["broadcast", "b1"]]),
                      _row(2, "finish", "", 512, [["broadcast", "late"]])],
            "drive": {"mode": "start"}, "seed": 5, "frozen": True, "drawMode": "seeded", "profile": {}}
    return out


if __name__ == "__main__":
    import json
    import sys
    from common import VERIF
    if "--write-corpus" in sys.argv:
        for (prop, name), scn in hot_cases().items():
            d = VERIF / "corpus" / prop
            d.mkdir(parents=True, exist_ok=True)
            scn["label"] = f"corpus/{name}.json"
            (d / f"{name}.json").write_text(json.dumps(scn, indent=1) + "\n")
            print("wrote", d / f"{name}.json")
