"""Seeded scenario and protocol-behaviour generators for the simulator-level properties.

Every random choice derives from the integer seed handed in. A behaviour's reaction to a trigger
(node, callback kind, payload key, time) is drawn from a PRNG keyed by a process-independent hash
of (seed, trigger), so runs stay comparable when the same-instant order differs.
"""
import random

from common import fbits, stable_hash, TICK

NAMES = ["a", "b", "c"]


def lattice(r, lo=-40, hi=40):
    return (float(r.randint(lo, hi)), float(r.randint(lo, hi)), float(r.randint(0, 20)))


class Behaviour:
    def __init__(self, seed, cfg, profile=None):
        self.seed = seed
        self.cfg = cfg
        p = {
            "horizon": 8 * 1024, "budget": 60, "maxReq": 3, "pTelemetry": 0.15, "maxHops": 3,
            "offsets": [0, 0, 1, 512, 1024, 1024, 2048, 3072, -512],
            "w": {"setTimer": 5, "cancelTimer": 2, "send": 3, "broadcast": 2, "goto": 1,
                  "setSpeed": 0.5, "setRange": 0.5, "gotoGeo": 0},
            "pBadDst": 0.12, "pGuarded": 0.15, "pFinish": 0.5, "names": NAMES,
            "speeds": [10.0, 4.0, 0.5, 64.0], "ranges": [60.0, 5.0, 0.0, 25.0, -1.0, float("inf")],
            # "base": ticks added to timers set from initialize: moves the whole timeline far from 0
            # (all times stay dyadic and far below 2^53/1024, so float arithmetic remains exact)
            "base": 0,
        }
        p.update(profile or {})
        self.p = p
        self.budget = p["budget"]
        self.uid = 0

    def react(self, n, kind, key, t):
        p = self.p
        if not isinstance(t, int) or t > p["base"] + p["horizon"] or self.budget <= 0:
            return []
        r = random.Random(stable_hash(self.seed, n, kind, key, t))
        if kind == "telemetry" and r.random() > p["pTelemetry"]:
            return []
        if kind == "finish" and r.random() > p["pFinish"]:
            return []
        k = r.randint(0, p["maxReq"]) if kind != "initialize" else r.randint(1, p["maxReq"])
        if k == 0:
            return []
        self.budget -= 1
        hops = 0
        if kind == "packet" and key == "":
            hops = p["maxHops"]          # an empty payload carries no hop count: it is never answered with a message
        if kind == "packet" and "h" in key:
            try:
                hops = int(key.rsplit("h", 1)[1])
            except ValueError:
                hops = 0
        kinds = list(p["w"].keys())
        weights = [p["w"][x] for x in kinds]
        out = []
        for _ in range(k):
            op = r.choices(kinds, weights)[0]
            req = self.make(r, op, n, kind, key, t, hops)
            if req is None:
                continue
            if r.random() < p["pGuarded"]:
                alt = self.make(r, "setTimer", n, "packet", key, t, hops)
                out.append(["onRefused", req, [alt] if alt else []])
            else:
                out.append(req)
        return out

    def make(self, r, op, n, kind, key, t, hops):
        p = self.p
        names = p["names"]
        if op == "setTimer":
            name = r.choice(names)
            off = r.choice(p["offsets"])
            if off == 0:
                # same-instant chains must be finite: a zero-offset timer set from a timer
                # callback moves strictly up the name alphabet; none from packet callbacks
                if kind == "timer":
                    rank = names.index(key) if key in names else len(names)
                    if rank + 1 >= len(names):
                        off = 1
                    else:
                        name = names[r.randint(rank + 1, len(names) - 1)]
                elif kind == "packet":
                    off = 1
            if kind == "initialize" and off >= 0:
                off += p["base"]
            return ["setTimer", name, t + off]
        if op == "cancelTimer":
            return ["cancelTimer", r.choice(names)]
        if op in ("send", "broadcast"):
            if hops >= p["maxHops"]:
                return None
            self.uid += 1
            msg = f"m{self.uid}h{hops + 1}"
            if p.get("pEmptyMsg") and r.random() < p["pEmptyMsg"]:
                msg = ""                 # an empty payload is a payload
            if op == "broadcast":
                return ["broadcast", msg]
            nn = self.cfg["nNodes"]
            if r.random() < p["pBadDst"]:
                dst = r.choice([n, None, nn, nn + 3, -1])
            else:
                dst = r.randrange(nn)
                if dst == n and nn > 1:
                    dst = (n + 1) % nn
            return ["send", msg, dst]
        if op == "goto":
            # with a waypoint alphabet the same target is revisited (goto T, goto U, goto T again)
            q = tuple(r.choice(p["waypoints"])) if p.get("waypoints") else lattice(r)
            return ["goto", fbits(q[0]), fbits(q[1]), fbits(q[2])]
        if op == "gotoHere":
            # "stop where you are": a goto to the node's own reported position (resolved by the
            # recorder from the telemetry payload; only meaningful in telemetry callbacks)
            return ["gotoHere"] if kind == "telemetry" else None
        if op == "gotoGeo":
            ref = p.get("geoRef", (0.0, 0.0, 0.0))
            lat = ref[0] + r.choice([-1, 1]) * r.randint(0, 40) / 65536.0
            lon = ref[1] + r.choice([-1, 1]) * r.randint(0, 40) / 65536.0
            return ["gotoGeo", fbits(lat), fbits(lon), fbits(float(r.randint(0, 30)))]
        if op == "setSpeed":
            return ["setSpeed", fbits(r.choice(p["speeds"]))]
        if op == "setRange":
            return ["setRange", fbits(r.choice(p["ranges"]))]
        return None


def gen_cfg(r, **force):
    n = r.choice([1, 2, 2, 3, 3, 4, 5])
    has_timer = force.get("hasTimer", r.random() < 0.93)
    has_comm = force.get("hasComm", r.random() < 0.9)
    has_mob = force.get("hasMob", r.random() < 0.75)
    labels = []
    if has_timer:
        labels.append("timer")
    if has_comm:
        labels.append("communication")
    if has_mob:
        labels.append("mobility")
    for g in range(r.choice([0, 0, 1, 1, 2, 3])):
        labels.append(f"h{g}")
    r.shuffle(labels)
    dt = r.choice([256, 512, 1024, 1024, 2048])
    geo_ref = r.choice([(0.0, 0.0, 0.0), (10.0, 20.0, 5.0), (-33.5, 151.25, 0.0)])
    cfg = {
        "nNodes": n, "hasTimer": has_timer, "hasComm": has_comm, "hasMob": has_mob,
        "handlers": labels,
        "duration": r.choice([None, None, 0, 1024, 2048, 3000, 4096, 6144, 10240]),
        "maxIter": r.choice([None, None, None, 0, 1, 5, 20, 60]),
        "delay": r.choice([0, 0, 1, 512, 1024, 3072]),
        "failRate": fbits(r.choice([0.0, 0.0, 0.0, 0.25, 0.5, 0.75, 1.0])),
        "defaultRange": fbits(r.choice([60.0, 60.0, 30.0, 1000.0, 10.0])),
        "dt": dt, "dtS": fbits(dt / TICK),
        "defaultSpeed": fbits(r.choice([10.0, 10.0, 4.0, 32.0])),
        "refGeo": [fbits(x) for x in geo_ref],
        "initPos": [[fbits(c) for c in lattice(r)] for _ in range(n)],
        "draws": [],
    }
    cfg.update(force)
    if "nNodes" in force or "initPos" not in force:
        cfg["initPos"] = [[fbits(c) for c in lattice(r)] for _ in range(cfg["nNodes"])]
    if "dt" in force:
        cfg["dtS"] = fbits(cfg["dt"] / TICK)
    return cfg, geo_ref


def make_fine(scn):
    """rescale a scenario to the fine regime: 2^40 ticks per second, every quantity multiplied by 2^30
    (so simulated seconds are unchanged) and offsets of a single tick (9e-13 s) added: requests one
    tick in the past must still be refused, events one tick after a bound must not run"""
    F = 2 ** 30
    cfg, prof = scn["cfg"], scn["profile"]
    scn["tick"] = 2.0 ** 40
    for k in ("delay", "dt"):
        cfg[k] = cfg[k] * F
    if cfg["duration"] is not None:
        cfg["duration"] = cfg["duration"] * F
    cfg["dtS"] = fbits(cfg["dt"] / scn["tick"])
    base = Behaviour(0, cfg).p
    offs = prof.get("offsets", base["offsets"])
    prof["offsets"] = [o * F for o in offs] + [-1, -1, 1, 1]
    prof["horizon"] = prof.get("horizon", base["horizon"]) * F
    prof["base"] = prof.get("base", 0) * F
    return scn


def make_decimal(scn):
    """the decimal regime: 10 ticks per second, so every time is a non-dyadic float k/10 (0.1, 0.7, 2.3 ...).
    The code may compare, store and report such times but a correct one never does arithmetic on them
    that is not exact: timers are absolute, a zero delay delivers at the current time. Hence no mobility
    (its update times are accumulated sums) and no positive delay in this regime."""
    cfg, prof = scn["cfg"], scn["profile"]
    set_handler(cfg, "mobility", False)
    scn["tick"] = 10.0
    cfg["delay"] = 0
    if cfg["duration"] is not None:
        cfg["duration"] = max(1, cfg["duration"] // 100)
    prof["offsets"] = [0, 0, 1, 3, 7, 9, 10, 13, 20, -3]
    prof["horizon"] = 80
    prof["base"] = 0
    scn.pop("shadow", None)
    return scn


def make_bigint(scn, r):
    """the integer regime: one tick per second, every time a Python int, the timeline beyond 2^53 (e.g.
    nanosecond epochs used as simulated time): neighbouring instants differ by 1 and no float can tell
    them apart. Stepped only: the blocking call's closing log line formats the simulated time as a
    `timedelta`, which cannot represent such magnitudes."""
    cfg, prof = scn["cfg"], scn["profile"]
    set_handler(cfg, "mobility", False)
    base = 2 ** r.choice([54, 60, 62])
    scn["tick"] = 1.0
    scn["intTime"] = True
    cfg["delay"] = r.choice([0, 1, 2])
    if cfg["duration"] is not None:
        cfg["duration"] = base + r.choice([0, 3, 7, 20])
    prof["offsets"] = [0, 0, 1, 1, 2, 3, 5, 8, -1, -1, -2]
    prof["horizon"] = 60
    prof["base"] = base
    scn["drive"] = {"mode": "steps", "n": r.choice([30, 120, 400])}
    scn.pop("shadow", None)
    scn.pop("between", None)
    return scn


def concat_twins(n):
    """pairs of distinct node ids (lo, hi) < n whose decimal numerals extend one another"""
    out = []
    for hi in range(n):
        for lo in range(n):
            a, b = str(lo), str(hi)
            if lo != hi and len(b) > len(a) and b.startswith(a):
                out.append(("pre", lo, hi, b[len(a):]))
            if lo != hi and len(b) > len(a) and b.endswith(a):
                out.append(("post", lo, hi, b[:len(b) - len(a)]))
    return out


def make_crowd(scn, r):
    """many nodes (two-digit identifiers) and a timer-name alphabet in which different (node, name) pairs
    are spelt with the same characters: ids lo and hi = lo.rest (or rest.lo), names N, rest.N, N.rest.
    A timer's identity is the pair (node, name), not its spelling."""
    cfg, prof = scn["cfg"], scn["profile"]
    n = r.choice([11, 11, 12, 13])
    cfg["initPos"] = (cfg["initPos"] + [[fbits(c) for c in lattice(r)] for _ in range(n)])[:n]
    cfg["nNodes"] = n
    base = r.choice(NAMES)
    kind, lo, hi, rest = r.choice(concat_twins(n))
    prof["names"] = [base, rest + base if kind == "pre" else base + rest, base + rest if kind == "pre" else rest + base]
    prof["budget"] = prof.get("budget", 60) + 4 * n
    if cfg["hasMob"] and cfg["duration"] is not None and cfg["duration"] > 4096:
        cfg["duration"] = 4096
    return scn


def gen_scenario(seed, force_cfg=None, profile=None, drive=None):
    r = random.Random(stable_hash("scn", seed))
    cfg, geo_ref = gen_cfg(r, **(force_cfg or {}))
    # an unbounded run must end by itself: the behaviour stops reacting after its horizon, but the
    # mobility tick re-arms forever, so runs with mobility always carry a bound
    if cfg["hasMob"] and cfg["duration"] is None and cfg["maxIter"] is None:
        if r.random() < 0.5:
            cfg["duration"] = r.choice([2048, 4096, 10240])
        else:
            cfg["maxIter"] = r.choice([10, 40, 120])
    prof = {"geoRef": geo_ref}
    prof.update(profile or {})
    if drive is None:
        if r.random() < 0.5:
            drive = {"mode": "start"}
        else:
            drive = {"mode": "steps", "n": r.choice([0, 1, 3, 10, 50, 400])}
    if drive["mode"] == "start" and r.random() < 0.25:
        drive["pre"] = r.choice([1, 2, 5, 30])          # mixed driving: manual steps, then blocking start
    scn = {"cfg": cfg, "table": [], "drive": drive, "seed": seed, "profile": prof}
    if r.random() < 0.15:
        # requests issued through the providers after build() and before the simulation starts
        beh0 = Behaviour(stable_hash("pre", seed), cfg, prof)
        rows = []
        for n in r.sample(range(cfg["nNodes"]), min(cfg["nNodes"], r.choice([1, 1, 2]))):
            # only request kinds the check's profile uses at all (a check that keeps every pair in range
            # issues no setRange here either)
            ops = [o for o in ["setTimer", "setTimer", "cancelTimer", "goto", "setSpeed", "send", "setRange"]
                   if beh0.p["w"].get(o, 0) > 0] or ["setTimer"]
            reqs = [q for q in (beh0.make(r, r.choice(ops), n, "initialize", "", 0, 0)
                                for _ in range(r.randint(1, 3))) if q]
            if reqs:
                rows.append({"n": n, "reqs": reqs})
        if rows:
            scn["prestart"] = rows
    # an external controller: requests issued through the providers BETWEEN two step_simulation calls
    # (modelled: `Reachable` is closed under externally issued request programs)
    if drive["mode"] == "steps" and drive["n"] > 0 and r.random() < 0.3:
        behx = Behaviour(stable_hash("ext", seed), cfg, prof)
        ops = [o for o in ["setTimer", "setTimer", "setTimer", "cancelTimer", "goto", "setSpeed", "send", "broadcast",
                           "setRange"] if behx.p["w"].get(o, 0) > 0] or ["setTimer"]
        rows = []
        for _ in range(r.choice([1, 2, 3, 5])):
            n = r.randrange(cfg["nNodes"])
            reqs = []
            for _ in range(r.randint(1, 3)):
                q = behx.make(r, r.choice(ops), n, "external", "", 0, 0)
                if not q:
                    continue
                if q[0] == "setTimer":
                    q = ["setTimerRel", q[1], q[2]]          # relative to the clock at the moment it is issued
                elif q[0] in ("send", "broadcast"):
                    q[1] = "x" + q[1]
                reqs.append(q)
            if reqs:
                rows.append({"at": r.randrange(0, min(drive["n"], 40) + 1), "n": n, "reqs": reqs})
        if rows:
            scn["between"] = sorted(rows, key=lambda row: row["at"])
    # another simulation alive in the same process, advanced in lock-step (only possible while this one is stepped)
    if (drive["mode"] == "steps" or drive.get("pre")) and r.random() < 0.3:
        ref = cfg["refGeo"]
        scn["shadow"] = {"mode": r.choice(["twin", "twin", "other"]), "lead": r.choice([0, 0, 1, 3]),
                         "refGeo": [fbits(1.0), fbits(2.0), ref[2]] if r.random() < 0.5 else None,
                         "defaultRange": fbits(r.choice([0.5, 3.0, 1.0e9])) if r.random() < 0.5 else None}
    # observation / usage options that must not matter: profiling on, command objects re-used
    if r.random() < 0.25:
        scn["simOptions"] = {"profile": True}
    if r.random() < 0.3:
        scn["reuseCommands"] = True
    if r.random() < 0.3:
        scn["lateMedium"] = True
    # further usage shapes that must not matter (own random stream: the scenarios above stay what they were)
    r2 = random.Random(stable_hash("usage", seed))
    if "names" not in prof and r2.random() < 0.2:
        # timer names are arbitrary strings: the empty name, names made of digits, names that extend each other
        prof["names"] = r2.choice([["", "a", "b"], ["1", "11", "a"], ["a", "ab", "b"], ["0", "", "10"], ["2", "12", "1"]])
    if "nNodes" not in (force_cfg or {}) and cfg["nNodes"] >= 2 and r2.random() < 0.06:
        # a crowd: node ids with two digits
        k = r2.choice([11, 12, 13])
        cfg["initPos"] = cfg["initPos"] + [[fbits(c) for c in lattice(r2)] for _ in range(k - cfg["nNodes"])]
        cfg["nNodes"] = k
    if r2.random() < 0.25:
        scn["lateConfig"] = r2.choice(["beforeBuild", "afterBuild"])
    if r2.random() < 0.25:
        scn["pollDone"] = True
    if r2.random() < 0.3:
        scn["intArgs"] = True
    if r2.random() < 0.3:
        scn["distinctProtos"] = True
    if r2.random() < 0.2:
        scn["rebuild"] = True
    if r2.random() < 0.15:
        # the documented defaults are used where a scenario does not care: range 60, speed 10, reference (0, 0, 0)
        scn["useDefaults"] = True
        if "defaultRange" not in (force_cfg or {}):
            cfg["defaultRange"] = fbits(60.0)
        cfg["defaultSpeed"] = fbits(10.0)
        if not prof["w"].get("gotoGeo") if "w" in prof else True:
            cfg["refGeo"] = [fbits(0.0), fbits(0.0), fbits(0.0)]
    if drive["mode"] == "steps" and r2.random() < 0.2:
        # a protocol that lets its k-th refused request escape from a timer / packet / telemetry callback, under a
        # stepped driver that catches the exception and keeps stepping (modelled: `Sim.stepRaised`)
        scn["escapeAt"] = r2.choice([1, 1, 2, 3])
        scn["tolerant"] = True
        prof["pBadDst"] = max(prof.get("pBadDst", 0.12), 0.3)
    if r2.random() < 0.15:
        prof["pEmptyMsg"] = 0.15
    if r2.random() < 0.2:
        scn["enumNames"] = True
    if r2.random() < 0.3:
        scn["keywordArgs"] = True
    if r2.random() < 0.3:
        scn["floatZeroDelay"] = True
    if r2.random() < 0.25:
        # "interrupt": the plugin's initialize / finish handlers answer INTERRUPT - the lifecycle chains are
        # documented as not interruptible, so the protocol's own initialize / finish still runs (seeded C05_L)
        scn["dispatcher"] = {"when": r2.choice(["initialize", "initialize", "timer", "telemetry"]),
                             "oneShot": r2.random() < 0.5, "interrupt": r2.random() < 0.5}
    if r2.random() < 0.2:
        scn["genericCommands"] = True
    if r2.random() < 0.15:
        # the simulation is configured with debug=True and execution logging on: every log statement of the
        # package is evaluated (the records go to a null handler); logging must not change behaviour (seeded C08_L)
        scn["verboseLogging"] = True
        so = dict(scn.get("simOptions") or {})
        so.update(debug=True, execution_logging=True)
        scn["simOptions"] = so
    return scn, Behaviour(stable_hash("beh", seed), cfg, prof)


def set_handler(cfg, label, present):
    """switch one of the real handlers on or off consistently (flag + registration list)"""
    flag = {"timer": "hasTimer", "communication": "hasComm", "mobility": "hasMob"}[label]
    cfg[flag] = present
    hs = [h for h in cfg["handlers"] if h != label]
    if present:
        hs.append(label)
    cfg["handlers"] = hs
