import GradysModel.Scalar
/-
  `Scalar Float`: IEEE doubles through the same libm CPython uses.
  `x ** 2` in CPython is `pow(x, 2.0)`; `math.radians(x)` is `x * (pi / 180.0)`;
  `math.acos` raises `ValueError` for arguments outside [-1, 1] (NaN passes through).
-/
instance : Scalar Float where
  ofInt := Float.ofInt
  add := (· + ·)
  sub := (· - ·)
  mul := (· * ·)
  div := (· / ·)
  neg := fun x => -x
  sq := fun x => Float.pow x 2.0
  sqrt := Float.sqrt
  sin := Float.sin
  cos := Float.cos
  acos? := fun x => if x < -1.0 || x > 1.0 then none else some (Float.acos x)
  atan2 := Float.atan2
  radians := fun x => x * (3.141592653589793 / 180.0)
  le := fun a b => decide (a ≤ b)
  lt := fun a b => decide (a < b)
