import Driver.Util
import GradysModel.Dispatcher
open Lean DU Disp

namespace DispatcherDriver

def kindOfStr : String → Except String Kind
  | "initialize" => pure .initialize
  | "timer" => pure .timer
  | "telemetry" => pure .telemetry
  | "packet" => pure .packet
  | "finish" => pure .finish
  | s => throw s!"unknown kind {s}"

def strOfKind : Kind → String
  | .initialize => "initialize"
  | .timer => "timer"
  | .telemetry => "telemetry"
  | .packet => "packet"
  | .finish => "finish"

def retOfStr : String → Except String Ret
  | "cont" => pure .cont
  | "interrupt" => pure .interrupt
  | "none" => pure .none
  | s => throw s!"unknown return {s}"

def strOfRet : Ret → String
  | .cont => "cont"
  | .interrupt => "interrupt"
  | .none => "none"

def strOfRes : Res → String
  | .ok => "ok"
  | .absent => "absent"
  | .nodispatcher => "nodispatcher"

def ropOfJson (j : Json) : Except String ROp := do
  let a ← j.getArr?
  let name ← a[0]!.getStr?
  let k ← kindOfStr (← a[1]!.getStr?)
  let h ← a[2]!.getNat?
  match name with
  | "reg" => pure (.reg k h)
  | "unreg" => pure (.unreg k h)
  | _ => throw s!"unknown re-entrant op {name}"

def jsonOfROp : ROp → Json
  | .reg k h => Json.arr #["reg", strOfKind k, toJson h]
  | .unreg k h => Json.arr #["unreg", strOfKind k, toJson h]

def calleeOfJson (j : Json) : Except String Callee := do
  let a ← j.getArr?
  match ← a[0]!.getStr? with
  | "h" => pure (.handler (← a[1]!.getNat?))
  | "own" => pure (.own (← a[1]!.getNat?) (← kindOfStr (← a[2]!.getStr?)))
  | s => throw s!"unknown callee {s}"

def scriptOfJson (j : Json) : Except String Script := do
  let ops ← (← (← field j "ops").getArr?).toList.mapM ropOfJson
  let ret ← retOfStr (← (← field j "ret").getStr?)
  pure ⟨ops, ret⟩

/-- behaviours: rows {callee, scripts: [{ops, ret}], default: ret}; a callee without a row, or
    invoked more often than it has scripts, does nothing and returns its default (CONTINUE) -/
def behOfJson (j : Json) : Except String Beh := do
  let rows ← (← j.getArr?).toList.mapM (fun row => do
    let c ← calleeOfJson (← field row "callee")
    let scripts ← (← (← field row "scripts").getArr?).toList.mapM scriptOfJson
    let d ← retOfStr (← (fieldD row "default" (Json.str "cont")).getStr?)
    pure (c, scripts, d))
  pure (fun c n =>
    match rows.find? (fun r => r.1 == c) with
    | some (_, scripts, d) => (scripts[n]?).getD ⟨[], d⟩
    | none => ⟨[], .cont⟩)

def opOfJson (j : Json) : Except String Op := do
  let a ← j.getArr?
  let name ← a[0]!.getStr?
  let p ← a[1]!.getNat?
  match name with
  | "create" => pure (.create p)
  | "register" => pure (.register p (← kindOfStr (← a[2]!.getStr?)) (← a[3]!.getNat?))
  | "unregister" => pure (.unregister p (← kindOfStr (← a[2]!.getStr?)) (← a[3]!.getNat?))
  | "dispatch" => pure (.dispatch p (← kindOfStr (← a[2]!.getStr?)))
  | _ => throw s!"unknown dispatcher op {name}"

def jsonOfEntry : Entry → Json
  | .h id => Json.arr #["h", toJson id]
  | .own => Json.str "own"

def jsonOfCall (c : Call CallInfo) : Json :=
  Json.arr #[jsonOfEntry c.entry, strOfRet c.ret, toJson c.info.n,
    Json.arr (c.info.rops.map (fun r => Json.arr #[jsonOfROp r.1, strOfRes r.2])).toArray]

def jsonOfOut : Out → Json
  | .created existed => Json.arr #["created", existed]
  | .res r => Json.str (strOfRes r)
  | .calls l => Json.arr (l.map jsonOfCall).toArray

/-- dispatcher histories: ops are ["create", p] | ["register", p, kind, h] | ["unregister", p, kind, h]
    | ["dispatch", p, kind] -/
def run (j : Json) : Except String Json := do
  let beh ← behOfJson (← field j "beh")
  let ops ← (← (← field j "ops").getArr?).toList.mapM opOfJson
  let r := Disp.run beh DState.init ops
  let chains := fun (p : Nat) =>
    Json.arr ([Kind.initialize, .timer, .telemetry, .packet, .finish].map (fun k =>
      Json.arr ((r.1.reg.chain p k).map jsonOfEntry).toArray)).toArray
  let insts := (ops.map Op.inst).eraseDups
  pure (Json.mkObj [("results", Json.arr (r.2.map jsonOfOut).toArray),
                    ("chains", Json.mkObj (insts.map (fun p => (toString p, chains p))))])

/-! ### extended histories: callees that call the protocol's methods themselves / ask for the dispatcher -/

def nopOfJson (j : Json) : Except String NOp := do
  let a ← j.getArr?
  match ← a[0]!.getStr? with
  | "create" => pure .create
  | "dispatch" => pure (.dispatch (← kindOfStr (← a[1]!.getStr?)))
  | _ => pure (.req (← ropOfJson j))

def nscriptOfJson (j : Json) : Except String NScript := do
  let ops ← (← (← field j "ops").getArr?).toList.mapM nopOfJson
  let ret ← retOfStr (← (← field j "ret").getStr?)
  pure ⟨ops, ret⟩

def nbehOfJson (j : Json) : Except String NBeh := do
  let rows ← (← j.getArr?).toList.mapM (fun row => do
    let c ← calleeOfJson (← field row "callee")
    let scripts ← (← (← field row "scripts").getArr?).toList.mapM nscriptOfJson
    let d ← retOfStr (← (fieldD row "default" (Json.str "cont")).getStr?)
    pure (c, scripts, d))
  pure (fun c n =>
    match rows.find? (fun r => r.1 == c) with
    | some (_, scripts, d) => (scripts[n]?).getD ⟨[], d⟩
    | none => ⟨[], .cont⟩)

def jsonOfEv : Ev → Json
  | .call e n => Json.arr #["call", jsonOfEntry e, toJson n]
  | .req o r => Json.arr #["req", jsonOfROp o, strOfRes r]
  | .created existed => Json.arr #["create", Json.arr #["created", existed]]
  | .beginD k => Json.arr #["begin", strOfKind k]
  | .endD k => Json.arr #["end", strOfKind k]
  | .ret e r => Json.arr #["ret", jsonOfEntry e, strOfRet r]
  | .outOfFuel k => Json.arr #["out-of-fuel", strOfKind k]

def jsonOfOutN : OutN → Json
  | .created existed => Json.arr #["created", existed]
  | .res r => Json.str (strOfRes r)
  | .events l => Json.arr (l.map jsonOfEv).toArray

/-- same ops; scripts may also hold ["create"] and ["dispatch", kind]; a dispatch answers with its flat trace;
    "fuel": bound on the nesting depth -/
def runNested (j : Json) : Except String Json := do
  let beh ← nbehOfJson (← field j "beh")
  let ops ← (← (← field j "ops").getArr?).toList.mapM opOfJson
  let fuel ← (fieldD j "fuel" (toJson (64 : Nat))).getNat?
  let r := Disp.runN beh fuel DState.init ops
  pure (Json.mkObj [("results", Json.arr (r.2.map jsonOfOutN).toArray)])

end DispatcherDriver
