import Driver.Util
import Driver.FloatScalar
import GradysModel.RandomTrip
open Lean DU RandomTrip

namespace RandomTripDriver

def pairOfJson (j : Json) : Except String (Float × Float) := do
  let a ← j.getArr?
  if a.size != 2 then err "range: need 2 entries" else
  pure (← floatOfBits a[0]!, ← floatOfBits a[1]!)

def cfgOfJson (j : Json) : Except String (Config Float) := do
  let x ← pairOfJson (← field j "x")
  let y ← pairOfJson (← field j "y")
  let z ← pairOfJson (← field j "z")
  let tol ← floatOfBits (← field j "tol")
  pure ⟨x.1, x.2, y.1, y.2, z.1, z.2, tol⟩

def opOfJson (j : Json) : Except String (Op Float) := do
  let a ← j.getArr?
  match ← a[0]!.getStr? with
  | "initiate" => pure .initiate
  | "finish" => pure .finish
  | "tel" => pure (.telemetry (← v3OfJson a[1]!))
  | "travel" => pure .travel
  | "ongoing" => pure .qOngoing
  | "target" => pure .qTarget
  | s => throw s!"unknown randomtrip op {s}"

def jsonOfVal : Val Float → Json
  | .unit => Json.null
  | .bool b => toJson b
  | .pos none => Json.null
  | .pos (some p) => jsonOfV3 p

/-- per op: return value, the goto commands the provider received during the op (oldest first),
    how often the protocol's own handle_telemetry ran during it, and the number of trip closures in
    the telemetry chain after it -/
def outputs (s : RT Float) : List (RT Float × Val Float) → List Json
  | [] => []
  | (s', v) :: rest =>
    let newCmds := (s'.cmds.take (s'.cmds.length - s.cmds.length)).reverse
    Json.mkObj [("ret", jsonOfVal v), ("cmds", Json.arr (newCmds.map jsonOfV3).toArray),
                ("own", toJson (s'.ownCalls - s.ownCalls)),
                ("h", toJson ((s'.chains .telemetry).length - 1))] :: outputs s' rest

/-- RandomMobilityPlugin histories: ops are ["initiate"] | ["finish"] | ["tel", pos] | ["travel"]
    | ["ongoing"] | ["target"]; `draws` is the stream `random.random()` will produce -/
def run (j : Json) : Except String Json := do
  let cfg ← cfgOfJson (← field j "cfg")
  let drawsA ← (← (← field j "draws").getArr?).mapM floatOfBits
  let ops ← (← (← field j "ops").getArr?).toList.mapM opOfJson
  let draws : Nat → Float := fun i => drawsA.getD i 0.0
  let r := RandomTrip.run cfg draws RT.init ops
  pure (Json.mkObj [("results", Json.arr (outputs RT.init r.2).toArray),
                    ("used", toJson r.1.used),
                    ("exhausted", toJson (decide (r.1.used > drawsA.size)))])

end RandomTripDriver
