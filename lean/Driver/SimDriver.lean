import Driver.Util
import Driver.FloatScalar
import GradysModel.Sim
import Std.Data.HashMap
open Lean DU

namespace SimDriver

inductive RSpec
  | plain (r : Request Float)
  | guarded (r : Request Float) (alt : List (Request Float))

def reqOfJson (j : Json) : Except String (Request Float) := do
  let a ← j.getArr?
  let name ← a[0]!.getStr?
  match name with
  | "setTimer" => pure (.setTimer (← a[1]!.getStr?) (← a[2]!.getInt?))
  | "cancelTimer" => pure (.cancelTimer (← a[1]!.getStr?))
  | "send" => pure (.send (← a[1]!.getStr?) (← optInt a[2]!))
  | "broadcast" => pure (.broadcast (← a[1]!.getStr?))
  | "goto" => pure (.goto ⟨← floatOfBits a[1]!, ← floatOfBits a[2]!, ← floatOfBits a[3]!⟩)
  | "gotoGeo" => pure (.gotoGeo ⟨← floatOfBits a[1]!, ← floatOfBits a[2]!, ← floatOfBits a[3]!⟩)
  | "setSpeed" => pure (.setSpeed (← floatOfBits a[1]!))
  | "setRange" => pure (.setRange (← floatOfBits a[1]!))
  | _ => throw s!"unknown request {name}"

def jsonOfReq : Request Float → Json
  | .setTimer n t => Json.arr #["setTimer", n, toJson t]
  | .cancelTimer n => Json.arr #["cancelTimer", n]
  | .send m d => Json.arr #["send", m, match d with | some d => toJson d | none => Json.null]
  | .broadcast m => Json.arr #["broadcast", m]
  | .goto p => Json.arr #["goto", bitsOfFloat p.x, bitsOfFloat p.y, bitsOfFloat p.z]
  | .gotoGeo p => Json.arr #["gotoGeo", bitsOfFloat p.x, bitsOfFloat p.y, bitsOfFloat p.z]
  | .setSpeed v => Json.arr #["setSpeed", bitsOfFloat v]
  | .setRange v => Json.arr #["setRange", bitsOfFloat v]

def rspecOfJson (j : Json) : Except String RSpec := do
  let a ← j.getArr?
  let name ← a[0]!.getStr?
  if name == "onRefused" then
    let r ← reqOfJson a[1]!
    let alt ← (← a[2]!.getArr?).toList.mapM reqOfJson
    pure (.guarded r alt)
  else pure (.plain (← reqOfJson j))

def progOf : List RSpec → Prog Float Unit
  | [] => .done ()
  | .plain r :: rs => .req r (fun _ => progOf rs)
  | .guarded r alt :: rs =>
    let rest := progOf rs
    .req r (fun ok => if ok then rest else
      alt.foldr (fun a k => Prog.req a (fun _ => k)) rest)

def cbKey : Callback Float → String × String
  | .initialize => ("initialize", "")
  | .timer n => ("timer", n)
  | .packet m => ("packet", m)
  | .telemetry _ => ("telemetry", "")
  | .finish => ("finish", "")

def trigKey (n : Nat) (kind key : String) (t : Int) : String := s!"{n}|{kind}|{t}|{key}"

abbrev Table := Std.HashMap String (List RSpec)

def tableOfJson (j : Json) : Except String Table := do
  let rows ← j.getArr?
  let mut t : Table := {}
  for row in rows do
    let n ← (← field row "n").getNat?
    let kind ← (← field row "cb").getStr?
    let key ← (← field row "key").getStr?
    let time ← (← field row "t").getInt?
    let reqs ← (← (← field row "reqs").getArr?).toList.mapM rspecOfJson
    t := t.insert (trigKey n kind key time) reqs
  pure t

def protoOfTable (t : Table) : NodeId → Proto Float Unit := fun _ =>
  { init := (),
    react := fun _ n time cb =>
      let (kind, key) := cbKey cb
      match t.get? (trigKey n kind key time) with
      | some reqs => progOf reqs
      | none => .done () }

def cfgOfJson (j : Json) : Except String (Config Float) := do
  let nNodes ← (← field j "nNodes").getNat?
  let initPos ← (← (← field j "initPos").getArr?).mapM v3OfJson
  let draws ← (← (← field j "draws").getArr?).mapM floatOfBits
  let maxIter ← optInt (← field j "maxIter")
  pure {
    nNodes := nNodes
    hasTimer := ← (← field j "hasTimer").getBool?
    hasComm := ← (← field j "hasComm").getBool?
    hasMob := ← (← field j "hasMob").getBool?
    handlers := ← (← (← field j "handlers").getArr?).toList.mapM (·.getStr?)
    duration := ← optInt (← field j "duration")
    maxIter := maxIter.map Int.toNat
    delay := ← (← field j "delay").getInt?
    failRate := ← floatOfBits (← field j "failRate")
    defaultRange := ← floatOfBits (← field j "defaultRange")
    dt := ← (← field j "dt").getInt?
    dtS := ← floatOfBits (← field j "dtS")
    defaultSpeed := ← floatOfBits (← field j "defaultSpeed")
    refGeo := ← v3OfJson (← field j "refGeo")
    initPos := fun n => initPos.getD n ⟨0, 0, 0⟩
    draws := fun i => draws.getD i 0 }

def jsonOfObs : Obs Float → Json
  | .handlerInit h => Json.arr #["hinit", h]
  | .callback n cb t =>
    let (kind, key) := cbKey cb
    match cb with
    | .telemetry p => Json.arr #["cb", toJson n, kind, key, toJson t, jsonOfV3 p]
    | _ => Json.arr #["cb", toJson n, kind, key, toJson t]
  | .request n r ok => Json.arr #["req", toJson n, jsonOfReq r, toJson ok]
  | .afterStep h i ts => Json.arr #["after", h, toJson i, toJson ts]
  | .handlerFinal h => Json.arr #["hfinal", h]

def positions (cfg : Config Float) (w : World Float Unit) : Json :=
  Json.arr ((List.range cfg.nNodes).map (fun n => jsonOfV3 (w.pos n))).toArray

/-- drive: {"mode":"start","fuel":N} or {"mode":"steps","n":N}; returns per-step return values -/
def run (j : Json) : Except String Json := do
  let cfg ← cfgOfJson (← field j "cfg")
  let table ← tableOfJson (← field j "table")
  let P := protoOfTable table
  let drive ← field j "drive"
  let mode ← (← field drive "mode").getStr?
  let n ← (← field drive "n").getNat?
  let wantPos := (fieldD j "wantPos" (Json.bool false)) == Json.bool true
  -- "pre": that many manual step_simulation calls before the blocking start_simulation (mixed driving)
  let pre := match (fieldD drive "pre" (Json.num 0)).getNat? with | .ok k => k | .error _ => 0
  -- "prestart": requests issued through the providers after build() and before the first step
  let mut before : Array (Nat × Prog Float Unit) := #[]
  for row in (← (fieldD j "prestart" (Json.arr #[])).getArr?) do
    let pn ← (← field row "n").getNat?
    let reqs ← (← (← field row "reqs").getArr?).toList.mapM rspecOfJson
    before := before.push (pn, progOf reqs)
  let mut w := Sim.initWith cfg P before.toList
  -- "between": requests an external controller issues through the providers right before the `at`-th
  -- step_simulation call (`Reachable` is closed under such programs: `Reachable.ext`)
  let mut betw : Array (Nat × Nat × Prog Float Unit) := #[]
  for row in (← (fieldD j "between" (Json.arr #[])).getArr?) do
    let at_ ← (← field row "at").getNat?
    let bn ← (← field row "n").getNat?
    let reqs ← (← (← field row "reqs").getArr?).toList.mapM rspecOfJson
    betw := betw.push (at_, bn, progOf reqs)
  -- "raisedAt": the step calls out of which an exception of the executed event's callback escaped
  let raisedAt : List Nat := match (fieldD j "raisedAt" (Json.arr #[])).getArr? with
    | .ok a => a.toList.filterMap (fun x => match x.getNat? with | .ok k => some k | .error _ => none)
    | .error _ => []
  let mut marks : Array (Nat × Nat × Int) := #[]      -- (trace length before, node, reported time)
  let mut rets : Array Json := #[]
  let mut poss : Array Json := #[]
  let mut exhausted := false
  for i in [0:n + pre] do
    for (at_, bn, prog) in betw do
      if at_ == i then
        marks := marks.push (w.rtrace.length, bn, Sim.reportedTime cfg w)
        w := (Sim.runProg cfg bn prog w).1
    let (w', r) := if raisedAt.contains i then (Sim.stepRaised cfg P w, true) else Sim.step cfg P w
    let executedOne := w'.iter > w.iter
    w := w'
    rets := rets.push (toJson r)
    if wantPos && executedOne then poss := poss.push (positions cfg w)
    if mode == "start" && i ≥ pre && !r then
      exhausted := true
      break
  let trace := w.trace
  let untabled := trace.filterMap (fun o => match o with
    | .callback n cb t =>
      let (kind, key) := cbKey cb
      if table.contains (trigKey n kind key t) then none else some (Json.str (trigKey n kind key t))
    | _ => none)
  -- the trace with a marker ["ext", node, time] where each externally issued program starts
  let mut tj : Array Json := #[]
  let mut idx := 0
  for o in trace do
    for (pos, bn, t) in marks do
      if pos == idx then tj := tj.push (Json.arr #["ext", toJson bn, toJson t])
    tj := tj.push (jsonOfObs o)
    idx := idx + 1
  for (pos, bn, t) in marks do
    if pos == idx then tj := tj.push (Json.arr #["ext", toJson bn, toJson t])
  pure (Json.mkObj [
    ("trace", Json.arr tj),
    ("rets", Json.arr rets),
    ("positions", Json.arr poss),
    ("finalPositions", positions cfg w),
    ("drawsUsed", toJson w.drawIdx),
    ("iter", toJson w.iter),
    ("now", toJson w.loop.now),
    ("queued", toJson w.loop.queue.length),
    ("finalized", toJson w.finalized),
    ("fuelExhausted", toJson (mode == "start" && !exhausted)),
    ("untabled", Json.arr untabled.toArray)])

end SimDriver
