import Driver.SimDriver
import GradysModel.Interop
open Lean DU Interop

/-
  kind "interop": one table-driven protocol run under the interop wrapper and under the python
  wrapper on the same callback sequence at the same times.
  input : id, steps [[t, kind, key] | [t, "telemetry", "", [x,y,z]]], table rows {n, cb, key, t, acts,
          uncaught}, ctypes {communication, mobility, timer, trackVariable} (numeric enum values read
          off the implementation), extRange (bits of the range given to set_transmission_range)
  acts  : a request of the sim driver | ["track", key, value] | ["ext", method] |
          ["onRefused", act, [alternatives]]
-/
namespace InteropDriver

inductive ASpec
  | plain (a : Act Float)
  | guarded (a : Act Float) (alt : List (Act Float))

def extOfName : String → Except String ExtCall
  | "camera.take_picture" => pure .cameraTakePicture
  | "camera.change_facing" => pure .cameraChangeFacing
  | "vis.paint_node" => pure .visPaintNode
  | "vis.paint_environment" => pure .visPaintEnvironment
  | "vis.resize_nodes" => pure .visResizeNodes
  | "vis.show_node_id" => pure .visShowNodeId
  | s => throw s!"unknown extension method {s}"

def nameOfExt : ExtCall → String
  | .cameraTakePicture => "camera.take_picture"
  | .cameraChangeFacing => "camera.change_facing"
  | .visPaintNode => "vis.paint_node"
  | .visPaintEnvironment => "vis.paint_environment"
  | .visResizeNodes => "vis.resize_nodes"
  | .visShowNodeId => "vis.show_node_id"

def allExt : List ExtCall :=
  [.cameraTakePicture, .cameraChangeFacing, .visPaintNode, .visPaintEnvironment, .visResizeNodes, .visShowNodeId]

def actOfJson (j : Json) : Except String (Act Float) := do
  let a ← j.getArr?
  let name ← a[0]!.getStr?
  match name with
  | "track" => pure (.track (← a[1]!.getStr?) (← a[2]!.getStr?))
  | "ext" => pure (.ext (← extOfName (← a[1]!.getStr?)))
  | _ => pure (.req (← SimDriver.reqOfJson j))

def jsonOfAct : Act Float → Json
  | .req r => SimDriver.jsonOfReq r
  | .track k v => Json.arr #["track", k, v]
  | .ext c => Json.arr #["ext", nameOfExt c]

def aspecOfJson (j : Json) : Except String ASpec := do
  let a ← j.getArr?
  let name ← a[0]!.getStr?
  if name == "onRefused" then
    let r ← actOfJson a[1]!
    let alt ← (← a[2]!.getArr?).toList.mapM actOfJson
    pure (.guarded r alt)
  else pure (.plain (← actOfJson j))

/-- `uncaught`: the protocol does not wrap its provider calls in try/except — a refusal escapes -/
def progOf (uncaught : Bool) : List ASpec → XProg Float Unit
  | [] => .done ()
  | .plain a :: rs =>
    let rest := progOf uncaught rs
    .act a (fun ok => if ok || !uncaught then rest else .raise ())
  | .guarded a alt :: rs =>
    let rest := progOf uncaught rs
    .act a (fun ok => if ok then rest else
      alt.foldr (fun b k => XProg.act b (fun ok' => if ok' || !uncaught then k else .raise ())) rest)

abbrev Table := Std.HashMap String (Bool × List ASpec)

def tableOfJson (j : Json) : Except String Table := do
  let rows ← j.getArr?
  let mut t : Table := {}
  for row in rows do
    let n ← (← field row "n").getNat?
    let kind ← (← field row "cb").getStr?
    let key ← (← field row "key").getStr?
    let time ← (← field row "t").getInt?
    let acts ← (← (← field row "acts").getArr?).toList.mapM aspecOfJson
    let unc := (fieldD row "uncaught" (Json.bool false)) == Json.bool true
    t := t.insert (SimDriver.trigKey n kind key time) (unc, acts)
  pure t

def protoOfTable (t : Table) : XProto Float Unit :=
  { init := (),
    react := fun _ n time cb =>
      let (kind, key) := SimDriver.cbKey cb
      match t.get? (SimDriver.trigKey n kind key time) with
      | some (unc, acts) => progOf unc acts
      | none => .done () }

def stepOfJson (j : Json) : Except String (Int × Callback Float) := do
  let a ← j.getArr?
  let t ← a[0]!.getInt?
  let kind ← a[1]!.getStr?
  let key ← a[2]!.getStr?
  match kind with
  | "initialize" => pure (t, .initialize)
  | "timer" => pure (t, .timer key)
  | "packet" => pure (t, .packet key)
  | "telemetry" => pure (t, .telemetry (← v3OfJson a[3]!))
  | "finish" => pure (t, .finish)
  | _ => throw s!"unknown callback {kind}"

/-- what the harness' stub handlers (and the real ones) refuse: a timer in the past, a message to
    oneself or to nobody, a negative transmission range -/
def pyAcc (p : PProv Float) : Act Float → Bool
  | .req (.setTimer _ at_) => !(at_ < p.now)
  | .req (.send _ dst) => match dst with
    | none => false
    | some d => d != (p.id : Int)
  | .req (.setRange r) => !(r < 0)
  | _ => true

def ctypeCode (codes : Json) : CType → Json
  | .communication => fieldD codes "communication" Json.null
  | .mobility => fieldD codes "mobility" Json.null
  | .timer => fieldD codes "timer" Json.null
  | .trackVariable => fieldD codes "trackVariable" Json.null

def jsonOfConsequence (codes : Json) (c : Consequence Float) : Json :=
  Json.arr #[ctypeCode codes c.type, jsonOfAct c.payload]

def jsonOfTranscript (tr : List (Act Float × Bool)) : Json :=
  Json.arr (tr.map (fun x => Json.arr #[jsonOfAct x.1, toJson x.2])).toArray

def handlerName : Handler → String
  | .timer => "timer"
  | .communication => "communication"
  | .mobility => "mobility"

def jsonOfResult (r : Ext.Result) : Json :=
  Json.mkObj [("ok", toJson r.ok), ("touchesHandler", toJson r.touchesHandler), ("neutral", toJson r.neutral)]

def run (j : Json) : Except String Json := do
  let id ← (← field j "id").getNat?
  let steps ← (← (← field j "steps").getArr?).toList.mapM stepOfJson
  let table ← tableOfJson (← field j "table")
  let codes ← field j "ctypes"
  let extRange ← floatOfBits (fieldD j "extRange" (Json.str "0"))
  let P := protoOfTable table
  let io := irun P (IW.init P id) steps
  let py := prun pyAcc P (PW.init P id) steps
  let ires := io.2.map (fun r => Json.mkObj [
    ("ret", match r.ret with
      | some L => Json.arr (L.map (jsonOfConsequence codes)).toArray
      | none => Json.null),
    ("transcript", jsonOfTranscript r.transcript)])
  let untabled := steps.filterMap (fun (t, cb) =>
    let (kind, key) := SimDriver.cbKey cb
    if table.contains (SimDriver.trigKey id kind key t) then none
    else some (Json.str (SimDriver.trigKey id kind key t)))
  -- the extension objects built directly on the interop-wrapped protocol
  let ext := allExt.map (fun c => Json.arr #[nameOfExt c, jsonOfResult (Ext.call .other c)])
    ++ [Json.arr #["comm.set_transmission_range", jsonOfResult (Ext.setRange Ext.Provider.other extRange)]]
  pure (Json.mkObj [
    ("interop", Json.arr ires.toArray),
    ("pending", toJson io.1.prov.consequences.length),
    ("pyLog", Json.arr (py.1.prov.log.map (fun x => Json.arr #[handlerName x.1, SimDriver.jsonOfReq x.2])).toArray),
    ("pyTranscripts", Json.arr (py.2.map jsonOfTranscript).toArray),
    ("ext", Json.arr ext.toArray),
    ("untabled", Json.arr untabled.toArray)])

end InteropDriver
