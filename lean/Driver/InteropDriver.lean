import Driver.SimDriver
import GradysModel.Interop
open Lean DU Interop

/-
  kind "interop": one table-driven protocol run under the interop wrapper and under the python
  wrapper on the same callback sequence at the same times.
  input : id, steps [[t, kind, key] | [t, "telemetry", "", [x,y,z]]], table rows {n, cb, key, t, acts,
          uncaught}, ctypes {communication, mobility, timer, trackVariable} (numeric enum values read
          off the implementation), extRange (bits of the range given to set_transmission_range)
  acts  : a request of the sim driver | ["track", key, value] | ["ext", method] |
          ["onRefused", act, [alternatives]] |
          ["trackInc", key] | ["sendTracked", key] | ["sendCount"] | ["picReport", how]   (see `RAct`)
  optional, a protocol that plugs handlers in front of its callbacks (`create_dispatcher`):
          plug {stages: p, at: "initialize" | "lazy"}; a table row then also has
          stages [[acts of handler 0], ..., [acts of handler p-1]] and stop (the handler that answers
          INTERRUPT, or null)
  optional, several wrapped instances of the one protocol class alive at once:
          ids [id of instance 0, 1, ...] (default [id]), who [instance index per step] (default all 0),
          legs {interop: [instances present], python: [...]} (default: all; the steps of an absent
          instance are not delivered in that leg)
-/
namespace InteropDriver

/-- what the table protocol remembers (protocol-local): how many callbacks this instance has
    received, and what this instance last wrote to `provider.tracked_variables` -/
structure PState where
  seen : Nat
  tv : List (String × String)
  /-- the instance's callback methods are wrapped by its dispatcher -/
  plugged : Bool := false
  /-- the picture lists this instance was handed and what it has made of them -/
  album : Ext.Album := []

def tvGet (tv : List (String × String)) (k : String) : Option String :=
  (tv.find? (fun x => x.1 == k)).map (·.2)

def tvSet (tv : List (String × String)) (k v : String) : List (String × String) :=
  (k, v) :: tv.filter (fun x => x.1 != k)

/-- an entry of a table row: a fixed action, or one whose content depends on what the instance has
    seen / written so far
      trackInc k    : `tv[k] = str(int(tv.get(k, "0")) + 1)`        (read-modify-write of a tracked variable)
      sendTracked k : `broadcast(f"{k}={tv.get(k, '-')}")`           (a tracked variable read back into a request)
      sendCount     : `broadcast(f"n={self.seen}")`                  (the instance counts its callbacks)
      picReport how : `pic = camera.take_picture(); <complete pic>; broadcast(f"pic={len(pic)}")`
                      the picture is EMPTY in both wrappers (interop: the camera is a no-op; python: the
                      harness' mobility handler knows no other node) and it is a list of its own, so the
                      report counts what this very statement added -/
inductive RAct
  | act (a : Act Float)
  | trackInc (k : String)
  | sendTracked (k : String)
  | sendCount
  | picReport (added : Nat)

def picAdded : String → Except String Nat
  | "read" => pure 0
  | "append" => pure 1
  | "extend" => pure 2
  | "insert" => pure 1
  | "iadd" => pure 1
  | s => throw s!"unknown picture use {s}"

inductive ASpec
  | plain (a : RAct)
  | guarded (a : RAct) (alt : List RAct)

def natOfValue (v : String) : Nat :=
  if v.length > 0 && v.all Char.isDigit then v.toNat?.getD 0 else 0

/-- the action actually performed, and the instance's memory after it: what the instance reads back
    from `tracked_variables` is what IT wrote last -/
def resolve (s : PState) : RAct → Act Float × PState
  | .act (.track k v) => (.track k v, { s with tv := tvSet s.tv k v })
  | .act a => (a, s)
  | .trackInc k =>
    let v := toString (natOfValue ((tvGet s.tv k).getD "0") + 1)
    (.track k v, { s with tv := tvSet s.tv k v })
  | .sendTracked k => (.req (.broadcast (k ++ "=" ++ (tvGet s.tv k).getD "-")), s)
  | .sendCount => (.req (.broadcast ("n=" ++ toString s.seen)), s)
  | .picReport k =>
    -- nobody else is to be seen in either wrapper (interop: no handler; python: the harness' mobility
    -- handler knows no other node), so the provider `.other` stands for both
    let r := Ext.takePicture Ext.Provider.other [] s.album
    let pic := r.2.getD r.1 [] ++ List.replicate k s.seen
    (.req (.broadcast ("pic=" ++ toString pic.length)), { s with album := r.2.set r.1 pic })

def extOfName : String → Except String ExtCall
  | "camera.take_picture" => pure .cameraTakePicture
  | "camera.change_facing" => pure .cameraChangeFacing
  | "vis.paint_node" => pure .visPaintNode
  | "vis.paint_environment" => pure .visPaintEnvironment
  | "vis.resize_nodes" => pure .visResizeNodes
  | "vis.show_node_id" => pure .visShowNodeId
  | s => throw s!"unknown extension method {s}"

def nameOfExt : ExtCall → String
  | .cameraTakePicture => "camera.take_picture"
  | .cameraChangeFacing => "camera.change_facing"
  | .visPaintNode => "vis.paint_node"
  | .visPaintEnvironment => "vis.paint_environment"
  | .visResizeNodes => "vis.resize_nodes"
  | .visShowNodeId => "vis.show_node_id"

def allExt : List ExtCall :=
  [.cameraTakePicture, .cameraChangeFacing, .visPaintNode, .visPaintEnvironment, .visResizeNodes, .visShowNodeId]

def actOfJson (j : Json) : Except String (Act Float) := do
  let a ← j.getArr?
  let name ← a[0]!.getStr?
  match name with
  | "track" => pure (.track (← a[1]!.getStr?) (← a[2]!.getStr?))
  | "ext" => pure (.ext (← extOfName (← a[1]!.getStr?)))
  | _ => pure (.req (← SimDriver.reqOfJson j))

def jsonOfAct : Act Float → Json
  | .req r => SimDriver.jsonOfReq r
  | .track k v => Json.arr #["track", k, v]
  | .ext c => Json.arr #["ext", nameOfExt c]

def ractOfJson (j : Json) : Except String RAct := do
  let a ← j.getArr?
  let name ← a[0]!.getStr?
  match name with
  | "trackInc" => pure (.trackInc (← a[1]!.getStr?))
  | "sendTracked" => pure (.sendTracked (← a[1]!.getStr?))
  | "sendCount" => pure .sendCount
  | "picReport" => pure (.picReport (← picAdded (← a[1]!.getStr?)))
  | _ => pure (.act (← actOfJson j))

def aspecOfJson (j : Json) : Except String ASpec := do
  let a ← j.getArr?
  let name ← a[0]!.getStr?
  if name == "onRefused" then
    let r ← ractOfJson a[1]!
    let alt ← (← a[2]!.getArr?).toList.mapM ractOfJson
    pure (.guarded r alt)
  else pure (.plain (← ractOfJson j))

/-- the alternatives of a guarded entry, then `k` -/
def altProg (uncaught : Bool) : PState → List RAct → (PState → XProg Float PState) → XProg Float PState
  | s, [], k => k s
  | s, b :: bs, k =>
    let r := resolve s b
    .act r.1 (fun ok => if ok || !uncaught then altProg uncaught r.2 bs k else .raise r.2)

/-- `uncaught`: the protocol does not wrap its provider calls in try/except — a refusal escapes -/
def progOf (uncaught : Bool) : PState → List ASpec → XProg Float PState
  | s, [] => .done s
  | s, .plain b :: rs =>
    let r := resolve s b
    .act r.1 (fun ok => if ok || !uncaught then progOf uncaught r.2 rs else .raise r.2)
  | s, .guarded b alt :: rs =>
    let r := resolve s b
    .act r.1 (fun ok => if ok then progOf uncaught r.2 rs else
      altProg uncaught r.2 alt (fun s' => progOf uncaught s' rs))

structure Row where
  uncaught : Bool
  acts : List ASpec
  /-- the action lists of the plugged handlers, by registration number -/
  stages : List (List ASpec)
  /-- the handler that answers INTERRUPT to this callback -/
  stop : Option Nat

abbrev Table := Std.HashMap String Row

def tableOfJson (j : Json) : Except String Table := do
  let rows ← j.getArr?
  let mut t : Table := {}
  for row in rows do
    let n ← (← field row "n").getNat?
    let kind ← (← field row "cb").getStr?
    let key ← (← field row "key").getStr?
    let time ← (← field row "t").getInt?
    let acts ← (← (← field row "acts").getArr?).toList.mapM aspecOfJson
    let unc := (fieldD row "uncaught" (Json.bool false)) == Json.bool true
    let stages ← match row.getObjVal? "stages" with
      | .ok (Json.arr a) => a.toList.mapM (fun st => do (← st.getArr?).toList.mapM aspecOfJson)
      | _ => pure []
    let stop := match row.getObjVal? "stop" with
      | .ok v => v.getNat?.toOption
      | .error _ => none
    t := t.insert (SimDriver.trigKey n kind key time) ⟨unc, acts, stages, stop⟩
  pure t

/-- the table protocol; `p` handlers plugged with the instance's dispatcher at `at_`:
    "initialize" — in its own `initialize()`; "lazy" — when its own method first sees an event -/
def protoOfTable (t : Table) (p : Nat) (at_ : String) : XProto Float PState :=
  let rowOf := fun (n : NodeId) (time : Int) (cb : Callback Float) =>
    let (kind, key) := SimDriver.cbKey cb
    t.get? (SimDriver.trigKey n kind key time)
  let plugsNow := fun (cb : Callback Float) =>
    p > 0 && ((at_ == "initialize" && (SimDriver.cbKey cb).1 == "initialize") || (at_ == "lazy" && interruptible cb))
  let own : XProto Float PState :=
    { init := { seen := 0, tv := [] },
      react := fun s n time cb =>
        let s1 : PState := if plugsNow cb then { s with plugged := true } else s
        match rowOf n time cb with
        | some r => progOf r.uncaught s1 r.acts
        | none => .done s1 }
  let stage := fun (k : Nat) => Stage.mk (S := Float) (σ := PState) (fun s n time cb =>
    match rowOf n time cb with
    | some r =>
      XProg.bind (progOf r.uncaught s (r.stages.getD k [])) (fun s' => .done (s', r.stop == some k)) (fun s' => (s', false))
    | none => .done (s, false))
  -- registered 0, 1, ..., p-1, each in front of the earlier ones
  let P := own.plugged (·.plugged) ((List.range p).reverse.map stage)
  { init := P.init, react := fun s n time cb => P.react { s with seen := s.seen + 1 } n time cb }

def stepOfJson (j : Json) : Except String (Int × Callback Float) := do
  let a ← j.getArr?
  let t ← a[0]!.getInt?
  let kind ← a[1]!.getStr?
  let key ← a[2]!.getStr?
  match kind with
  | "initialize" => pure (t, .initialize)
  | "timer" => pure (t, .timer key)
  | "packet" => pure (t, .packet key)
  | "telemetry" => pure (t, .telemetry (← v3OfJson a[3]!))
  | "finish" => pure (t, .finish)
  | _ => throw s!"unknown callback {kind}"

/-- what the harness' stub handlers (and the real ones) refuse: a timer in the past, a message to
    oneself or to nobody, a negative transmission range -/
def pyAcc (p : PProv Float) : Act Float → Bool
  | .req (.setTimer _ at_) => !(at_ < p.now)
  | .req (.send _ dst) => match dst with
    | none => false
    | some d => d != (p.id : Int)
  | .req (.setRange r) => !(r < 0)
  | _ => true

def ctypeCode (codes : Json) : CType → Json
  | .communication => fieldD codes "communication" Json.null
  | .mobility => fieldD codes "mobility" Json.null
  | .timer => fieldD codes "timer" Json.null
  | .trackVariable => fieldD codes "trackVariable" Json.null

def jsonOfConsequence (codes : Json) (c : Consequence Float) : Json :=
  Json.arr #[ctypeCode codes c.type, jsonOfAct c.payload]

def jsonOfTranscript (tr : List (Act Float × Bool)) : Json :=
  Json.arr (tr.map (fun x => Json.arr #[jsonOfAct x.1, toJson x.2])).toArray

def handlerName : Handler → String
  | .timer => "timer"
  | .communication => "communication"
  | .mobility => "mobility"

def jsonOfResult (r : Ext.Result) : Json :=
  Json.mkObj [("ok", toJson r.ok), ("touchesHandler", toJson r.touchesHandler), ("neutral", toJson r.neutral)]

def natsOfJson (j : Json) : Except String (List Nat) := do
  (← j.getArr?).toList.mapM (fun x => x.getNat?)

def run (j : Json) : Except String Json := do
  let id ← (fieldD j "id" (toJson (0 : Nat))).getNat?
  let steps ← (← (← field j "steps").getArr?).toList.mapM stepOfJson
  let ids ← match j.getObjVal? "ids" with
    | .ok v => natsOfJson v
    | .error _ => pure [id]
  let who ← match j.getObjVal? "who" with
    | .ok v => natsOfJson v
    | .error _ => pure (steps.map (fun _ => 0))
  if who.length != steps.length then throw "who: one entry per step" else
  let everyone := List.range ids.length
  let legs := fieldD j "legs" (Json.mkObj [])
  let inI ← match legs.getObjVal? "interop" with
    | .ok v => natsOfJson v
    | .error _ => pure everyone
  let inP ← match legs.getObjVal? "python" with
    | .ok v => natsOfJson v
    | .error _ => pure everyone
  let table ← tableOfJson (← field j "table")
  let codes ← field j "ctypes"
  let extRange ← floatOfBits (fieldD j "extRange" (Json.str "0"))
  let plug := fieldD j "plug" (Json.mkObj [])
  let nStages ← (fieldD plug "stages" (toJson (0 : Nat))).getNat?
  let plugAt ← (fieldD plug "at" (Json.str "initialize")).getStr?
  let P := protoOfTable table nStages plugAt
  let idOf (k : Nat) : NodeId := ids.getD k 0
  let addressed := who.zip steps
  let stepsI := addressed.filter (fun x => inI.contains x.1)
  let stepsP := addressed.filter (fun x => inP.contains x.1)
  -- every instance is created before the first callback, as OMNeT++ / SimulationBuilder do
  let io := irunMulti P (fun k => IW.init P (idOf k)) stepsI
  let py := prunMulti pyAcc P (fun k => PW.init P (idOf k)) stepsP
  let ires := io.2.map (fun (_, r) => Json.mkObj [
    ("ret", match r.ret with
      | some L => Json.arr (L.map (jsonOfConsequence codes)).toArray
      | none => Json.null),
    ("transcript", jsonOfTranscript r.transcript)])
  let untabled := (stepsI ++ stepsP).filterMap (fun (k, t, cb) =>
    let (kind, key) := SimDriver.cbKey cb
    if table.contains (SimDriver.trigKey (idOf k) kind key t) then none
    else some (Json.str (SimDriver.trigKey (idOf k) kind key t)))
  -- the extension objects built directly on the interop-wrapped protocol
  let ext := allExt.map (fun c => Json.arr #[nameOfExt c, jsonOfResult (Ext.call .other c)])
    ++ [Json.arr #["comm.set_transmission_range", jsonOfResult (Ext.setRange Ext.Provider.other extRange)]]
  let pending := (inI.map (fun k => (io.1 k).prov.consequences.length)).foldl (· + ·) 0
  -- what each python-wrapped instance forwarded to the handlers, per instance in order
  let pyLog := inP.map (fun k => Json.arr #[toJson k,
    Json.arr ((py.1 k).prov.log.map (fun x => Json.arr #[handlerName x.1, SimDriver.jsonOfReq x.2])).toArray])
  pure (Json.mkObj [
    ("interop", Json.arr ires.toArray),
    ("pending", toJson pending),
    ("pyLog", Json.arr pyLog.toArray),
    ("pyTranscripts", Json.arr (py.2.map (fun x => jsonOfTranscript x.2)).toArray),
    ("ext", Json.arr ext.toArray),
    ("untabled", Json.arr untabled.toArray)])

end InteropDriver
