import Driver.Util
import Driver.FloatScalar
import GradysModel.Camera
import GradysModel.Geo
open Lean DU

/-
  Numeric kinds at `Float` (C19, C20).

  "camera": {"kind":"camera","cfg":{"reach","theta","elevation","rotation","tol"} (float bits),
             "selfId":n,"self":[x,y,z],"nodes":[[id,[x,y,z]],…]}
        →   {"axis":[x,y,z],"verdicts":[[id,"detected"|"outOfReach"|"outOfAngle"|"error"],…]
             (every node other than selfId, registration order),
             "picture": null (acos would raise) | [[id,[x,y,z]],…]}
  "geo":    {"kind":"geo","ref":[lat,lon,alt],"targets":[[lat,lon,alt],…]}
        →   {"points":[[x,y,z],…],"ew":[bits,…],"ns":[bits,…]}  (converted points and the two
             haversine legs of each target)
-/
namespace NumDriver

def verdictName : Camera.Verdict → String
  | .detected => "detected"
  | .outOfReach => "outOfReach"
  | .outOfAngle => "outOfAngle"
  | .error => "error"

def nodeOfJson (j : Json) : Except String (Nat × V3 Float) := do
  let a ← j.getArr?
  if a.size != 2 then err "node: need [id, pos]" else
  pure (← a[0]!.getNat?, ← v3OfJson a[1]!)

def jsonOfNode (p : Nat × V3 Float) : Json := Json.arr #[toJson p.1, jsonOfV3 p.2]

def runCamera (j : Json) : Except String Json := do
  let cj ← field j "cfg"
  let c : Camera.Config Float :=
    { reach := ← floatOfBits (← field cj "reach"),
      thetaDeg := ← floatOfBits (← field cj "theta"),
      elevationDeg := ← floatOfBits (← field cj "elevation"),
      rotationDeg := ← floatOfBits (← field cj "rotation"),
      tol := ← floatOfBits (← field cj "tol") }
  let selfId ← (← field j "selfId").getNat?
  let self ← v3OfJson (← field j "self")
  let nodes ← (← (← field j "nodes").getArr?).toList.mapM nodeOfJson
  let others := nodes.filter (fun p => p.1 != selfId)
  let verdicts := others.map (fun p =>
    Json.arr #[toJson p.1, Json.str (verdictName (Camera.judge c self p.2))])
  let pic := match Camera.takePicture c selfId self nodes with
    | none => Json.null
    | some l => Json.arr (l.map jsonOfNode).toArray
  pure (Json.mkObj [("axis", jsonOfV3 (Camera.axis c)), ("verdicts", Json.arr verdicts.toArray),
    ("picture", pic)])

def runGeo (j : Json) : Except String Json := do
  let ref ← v3OfJson (← field j "ref")
  let tgts ← (← (← field j "targets").getArr?).toList.mapM v3OfJson
  let pts := tgts.map (fun t => jsonOfV3 (Geo.geoToCartesian ref t))
  let ew := tgts.map (fun t => bitsOfFloat (Geo.haversine ref.x ref.y ref.x t.y))
  let ns := tgts.map (fun t => bitsOfFloat (Geo.haversine ref.x ref.y t.x ref.y))
  pure (Json.mkObj [("points", Json.arr pts.toArray), ("ew", Json.arr ew.toArray),
    ("ns", Json.arr ns.toArray)])

def run (j : Json) : Except String Json := do
  match (← field j "kind") with
  | .str "camera" => runCamera j
  | .str "geo" => runGeo j
  | _ => err "NumDriver: unknown kind"

end NumDriver
