import Driver.Util
import Driver.FloatScalar
import GradysModel.Camera
import GradysModel.Geo
open Lean DU

/-
  Numeric kinds at `Float` (C19, C20).

  "camera": {"kind":"camera","cfg":{"reach","theta","elevation","rotation","tol"} (float bits),
             "selfId":n,"self":[x,y,z],"nodes":[[id,[x,y,z]],…]}
        →   {"axis":[x,y,z],"verdicts":[[id,"detected"|"outOfReach"|"outOfAngle"|"error"],…]
             (every node other than selfId, registration order),
             "picture": null (acos would raise) | [[id,[x,y,z]],…]}
             optional "fleet": {"confs":[cfg,…],"cams":[{"node":id,"conf":k},…],
                                "ops":[["face",cam,elevBits,rotBits] | ["shot",cam],…]}
             (`Camera.Fleet`: all cameras constructed in order, then the operations; `tol` of "cfg")
        →   additionally "fleet":[null | [[id,[x,y,z]],…],…]  one picture per "shot"
  "geo":    {"kind":"geo","ref":[lat,lon,alt],"targets":[[lat,lon,alt],…]}
        →   {"points":[[x,y,z],…],"ew":[bits,…],"ns":[bits,…]}  (converted points and the two
             haversine legs of each target)
             optional "sites":[[lat,lon,alt],…] → additionally "sites":[[[x,y,z],…],…]: the same
             targets converted relative to each further reference
-/
namespace NumDriver

def verdictName : Camera.Verdict → String
  | .detected => "detected"
  | .outOfReach => "outOfReach"
  | .outOfAngle => "outOfAngle"
  | .error => "error"

def nodeOfJson (j : Json) : Except String (Nat × V3 Float) := do
  let a ← j.getArr?
  if a.size != 2 then err "node: need [id, pos]" else
  pure (← a[0]!.getNat?, ← v3OfJson a[1]!)

def jsonOfNode (p : Nat × V3 Float) : Json := Json.arr #[toJson p.1, jsonOfV3 p.2]

def cfgOfJson (cj : Json) (tol : Float) : Except String (Camera.Config Float) := do
  pure { reach := ← floatOfBits (← field cj "reach"),
         thetaDeg := ← floatOfBits (← field cj "theta"),
         elevationDeg := ← floatOfBits (← field cj "elevation"),
         rotationDeg := ← floatOfBits (← field cj "rotation"),
         tol := tol }

def jsonOfPicture : Option (List (Nat × V3 Float)) → Json
  | none => Json.null
  | some l => Json.arr (l.map jsonOfNode).toArray

/-- the fleet leg: construct the cameras in order, then run the operations; one picture per shot -/
def runFleet (fj : Json) (tol : Float) (nodes : List (Nat × V3 Float)) : Except String Json := do
  let confs ← (← (← field fj "confs").getArr?).toList.mapM (fun cj => cfgOfJson cj tol)
  let mut f : Camera.Fleet Float := { confs := confs, cams := [] }
  for cj in (← (← field fj "cams").getArr?) do
    f := f.construct (← (← field cj "node").getNat?) (← (← field cj "conf").getNat?)
  let mut pics : Array Json := #[]
  for op in (← (← field fj "ops").getArr?) do
    let a ← op.getArr?
    if a.size < 2 then throw "fleet op: need [name, cam, …]"
    let cam ← a[1]!.getNat?
    match a[0]! with
    | .str "face" =>
      if a.size != 4 then throw "fleet op face: need [\"face\", cam, elev, rot]"
      f := f.changeFacing cam (← floatOfBits a[2]!) (← floatOfBits a[3]!)
    | .str "shot" =>
      match f.view cam with
      | none => throw "fleet op shot: no such camera"
      | some (selfId, _) =>
        match nodes.find? (fun p => p.1 == selfId) with
        | none => throw "fleet op shot: the camera's node is not in the scene"
        | some p => pics := pics.push (jsonOfPicture (f.takePicture cam p.2 nodes))
    | _ => throw "fleet op: unknown operation"
  pure (Json.arr pics)

def runCamera (j : Json) : Except String Json := do
  let cj ← field j "cfg"
  let c ← cfgOfJson cj (← floatOfBits (← field cj "tol"))
  let selfId ← (← field j "selfId").getNat?
  let self ← v3OfJson (← field j "self")
  let nodes ← (← (← field j "nodes").getArr?).toList.mapM nodeOfJson
  let others := nodes.filter (fun p => p.1 != selfId)
  let verdicts := others.map (fun p =>
    Json.arr #[toJson p.1, Json.str (verdictName (Camera.judge c self p.2))])
  let pic := jsonOfPicture (Camera.takePicture c selfId self nodes)
  let fleet ← match fieldD j "fleet" Json.null with
    | .null => pure Json.null
    | fj => runFleet fj c.tol nodes
  pure (Json.mkObj [("axis", jsonOfV3 (Camera.axis c)), ("verdicts", Json.arr verdicts.toArray),
    ("picture", pic), ("fleet", fleet)])

def runGeo (j : Json) : Except String Json := do
  let ref ← v3OfJson (← field j "ref")
  let tgts ← (← (← field j "targets").getArr?).toList.mapM v3OfJson
  let pts := tgts.map (fun t => jsonOfV3 (Geo.geoToCartesian ref t))
  let ew := tgts.map (fun t => bitsOfFloat (Geo.haversine ref.x ref.y ref.x t.y))
  let ns := tgts.map (fun t => bitsOfFloat (Geo.haversine ref.x ref.y t.x ref.y))
  let sites ← match fieldD j "sites" Json.null with
    | .null => pure []
    | sj => (← sj.getArr?).toList.mapM v3OfJson
  let sitePts := sites.map (fun r => Json.arr (tgts.map (fun t => jsonOfV3 (Geo.geoToCartesian r t))).toArray)
  pure (Json.mkObj [("points", Json.arr pts.toArray), ("ew", Json.arr ew.toArray),
    ("ns", Json.arr ns.toArray), ("sites", Json.arr sitePts.toArray)])

def run (j : Json) : Except String Json := do
  match (← field j "kind") with
  | .str "camera" => runCamera j
  | .str "geo" => runGeo j
  | _ => err "NumDriver: unknown kind"

end NumDriver
