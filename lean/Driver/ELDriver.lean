import Driver.Util
import GradysModel.Queue
open Lean DU

/-- bare `EventLoop` histories: ops are ["schedule", ts, id] | ["pop"] | ["peek"] | ["clear"] | ["len"] | ["now"] -/
def runEL (j : Json) : Except String Json := do
  let ops ← (← field j "ops").getArr?
  let mut l : EL Nat := EL.empty
  let mut out : Array Json := #[]
  for op in ops do
    let a ← op.getArr?
    let name ← a[0]!.getStr?
    match name with
    | "schedule" =>
      let ts ← a[1]!.getInt?
      let id ← a[2]!.getNat?
      match l.schedule ts id with
      | .ok l' => l := l'; out := out.push (Json.str "ok")
      | .error _ => out := out.push (Json.str "past")
    | "pop" =>
      match l.pop with
      | .ok (e, l') => l := l'; out := out.push (Json.arr #[toJson e.kind, toJson e.ts])
      | .error _ => out := out.push (Json.str "empty")
    | "peek" =>
      match l.peek with
      | some e => out := out.push (Json.arr #[toJson e.kind, toJson e.ts])
      | none => out := out.push Json.null
    | "clear" => l := l.clear; out := out.push (Json.str "ok")
    | "len" => out := out.push (toJson l.len)
    | "now" => out := out.push (toJson l.now)
    | _ => throw s!"unknown EL op {name}"
  pure (Json.mkObj [("results", Json.arr out)])
