import Driver.Util
import GradysModel.Queue
open Lean DU

def elOpOfJson (op : Json) : Except String (ELOp Nat) := do
  let a ← op.getArr?
  let name ← a[0]!.getStr?
  match name with
  | "schedule" => pure (.schedule (← a[1]!.getInt?) (← a[2]!.getNat?))
  | "pop" => pure .pop
  | "peek" => pure .peek
  | "clear" => pure .clear
  | "len" => pure .len
  | "now" => pure .now
  | _ => throw s!"unknown EL op {name}"

def jsonOfELOut : ELOp Nat → ELOut Nat → Json
  | _, .ok => Json.str "ok"
  | _, .err .past => Json.str "past"
  | _, .err .empty => Json.str "empty"
  | _, .ev (some e) => Json.arr #[toJson e.kind, toJson e.ts]
  | _, .ev none => Json.null
  | _, .num n => toJson n

/-- bare `EventLoop` histories: ops are ["schedule", ts, id] | ["pop"] | ["peek"] | ["clear"] | ["len"] | ["now"] -/
def runEL (j : Json) : Except String Json := do
  let ops ← (← (← field j "ops").getArr?).toList.mapM elOpOfJson
  let r := (EL.empty : EL Nat).run ops
  pure (Json.mkObj [("results", Json.arr ((ops.zip r.2).map (fun p => jsonOfELOut p.1 p.2)).toArray)])
