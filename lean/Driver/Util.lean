import Lean.Data.Json
import GradysModel.Scalar
open Lean

namespace DU

def err {α} (msg : String) : Except String α := .error msg

/-- floats cross the line protocol as decimal renderings of their 64-bit pattern -/
def floatOfBits (j : Json) : Except String Float := do
  let s ← j.getStr?
  match s.toNat? with
  | some n => pure (Float.ofBits (UInt64.ofNat n))
  | none => err s!"bad float bits {s}"

def bitsOfFloat (f : Float) : Json := Json.str (toString f.toBits.toNat)

def v3OfJson (j : Json) : Except String (V3 Float) := do
  let a ← j.getArr?
  if a.size != 3 then err "v3: need 3 entries" else
  pure ⟨← floatOfBits a[0]!, ← floatOfBits a[1]!, ← floatOfBits a[2]!⟩

def jsonOfV3 (p : V3 Float) : Json := Json.arr #[bitsOfFloat p.x, bitsOfFloat p.y, bitsOfFloat p.z]

def optInt (j : Json) : Except String (Option Int) :=
  match j with
  | .null => pure none
  | _ => do pure (some (← j.getInt?))

def field (j : Json) (k : String) : Except String Json := j.getObjVal? k

def fieldD (j : Json) (k : String) (d : Json) : Json :=
  match j.getObjVal? k with
  | .ok v => v
  | .error _ => d

end DU
