import Driver.Util
import Driver.FloatScalar
import GradysModel.Mission
open Lean DU Mission

namespace MissionDriver

def loopOfJson (j : Json) : Except String LoopMode := do
  match (← j.getStr?) with
  | "NO" => pure .no
  | "RESTART" => pure .restart
  | "REVERSE" => pure .reverse
  | s => err s!"unknown loop mode {s}"

def opOfJson (op : Json) : Except String (Op Float) := do
  let a ← op.getArr?
  let name ← a[0]!.getStr?
  match name with
  | "start" => pure (.start (← (← a[1]!.getArr?).toList.mapM v3OfJson))
  | "startFile" =>    -- start_mission_with_waypoint_file: a[1] = the numbers on the lines of the file
    pure (.start (readWaypoints (← (← a[1]!.getArr?).toList.mapM v3OfJson)))
  | "stop" => pure .stop
  | "setWaypoint" => pure (.setWaypoint (← a[1]!.getInt?))
  | "setReversed" => pure (.setReversed (← a[1]!.getBool?))
  | "telemetry" => pure (.telemetry (← v3OfJson a[1]!))
  | _ => err s!"unknown mission op {name}"

def jsonOfCmd : Cmd Float → Json
  | .goto p => Json.arr #[Json.str "goto", jsonOfV3 p]
  | .setSpeed v => Json.arr #[Json.str "setSpeed", bitsOfFloat v]

def jsonOfOut : Out → Json
  | .ok => Json.str "ok"
  | .refused => Json.str "refused"
  | .crash => Json.str "crash"

/-- observation after one call: how it ended, the three status properties, the commands it issued -/
def obs (before after : State Float) (o : Out) : Json :=
  let fresh := (after.log.take (after.log.length - before.log.length)).reverse
  Json.mkObj [
    ("out", jsonOfOut o),
    ("wp", match after.wp with | some i => toJson i | none => Json.null),
    ("reversed", Json.bool after.reversed),
    ("idle", Json.bool after.idle),
    ("cmds", Json.arr (fresh.map jsonOfCmd).toArray)]

/-- mission histories: `loop` NO|RESTART|REVERSE, `speed`/`tol` as float bits, ops
    ["start", [p…]] | ["startFile", [p…], …] | ["stop"] | ["setWaypoint", i] | ["setReversed", b] | ["telemetry", p] -/
def run (j : Json) : Except String Json := do
  let cfg : Config Float := {
    speed := ← floatOfBits (← field j "speed"),
    loop := ← loopOfJson (← field j "loop"),
    tol := ← floatOfBits (← field j "tol") }
  let ops ← (← (← field j "ops").getArr?).toList.mapM opOfJson
  let mut s : State Float := Mission.init
  let mut res : Array Json := #[]
  for op in ops do
    let r := Mission.apply cfg s op
    res := res.push (obs s r.1 r.2)
    s := r.1
  pure (Json.mkObj [("results", Json.arr res)])

def cfgOfJson (j : Json) : Except String (Config Float) := do
  pure { speed := ← floatOfBits (← field j "speed"),
         loop := ← loopOfJson (← field j "loop"),
         tol := ← floatOfBits (← field j "tol") }

/-- fleets: `members` [{loop, speed, tol}…], ops [who, op] - the observation after each call is the one of
    the member that was called (the others cannot change: `C16_fleet_others_untouched`) -/
def runFleet (j : Json) : Except String Json := do
  let cfgs ← (← (← field j "members").getArr?).toList.mapM cfgOfJson
  let mut f : List (Member Float) := Mission.fleetInit cfgs
  let mut res : Array Json := #[]
  for o in (← (← field j "ops").getArr?) do
    let a ← o.getArr?
    let who ← a[0]!.getNat?
    let op ← opOfJson a[1]!
    match f[who]? with
    | none => throw s!"no member {who}"
    | some before =>
      let r := Mission.applyAt f who op
      match r.1[who]? with
      | none => throw s!"no member {who}"
      | some after => res := res.push (obs before.st after.st r.2)
      f := r.1
  pure (Json.mkObj [("results", Json.arr res)])

end MissionDriver
