import Driver.Util
import GradysModel.Assertion
open Lean DU Assertion

/-
  kind "assertion": one AssertionHandler over a run of N events.
  input : n, ptypes [class of node 0's protocol, …], sub [[c, T], …] (optional: class c derives from T), N, eager (true = repaired bookkeeping, patches/F18.patch),
          specs [{kind: alwaysProto|eventuallyProto, T, pred: [[value per node] per iteration]} |
                 {kind: alwaysSim|eventuallySim, pred: [value per iteration]}]
  output: executed, verdict ("passed" | "failedAtEnd" | ["failedAfter", i])
  A batch of simulations that are handed the same decorated assertions (each AssertionHandler instantiates
  its own test cases, `Spec.init`, so the runs do not influence each other whatever the order in which they
  are built, stepped and finished): input {runs: [<input as above>, …]}, output {runs: [<output>, …]}.
-/
namespace AssertionDriver

def boolRow (j : Json) : Except String (Array Bool) := do
  (← j.getArr?).mapM (·.getBool?)

def specOfJson (j : Json) : Except String Spec := do
  let kind ← (← field j "kind").getStr?
  match kind with
  | "alwaysProto" | "eventuallyProto" =>
    let T ← (← field j "T").getNat?
    let rows ← (← (← field j "pred").getArr?).mapM boolRow
    let pred : Nat → NodeId → Bool := fun i node => (rows.getD i #[]).getD node false
    pure (if kind == "alwaysProto" then .alwaysProto T pred else .eventuallyProto T pred)
  | "alwaysSim" | "eventuallySim" =>
    let row ← boolRow (← field j "pred")
    let pred : Nat → Bool := fun i => row.getD i false
    pure (if kind == "alwaysSim" then .alwaysSim pred else .eventuallySim pred)
  | _ => throw s!"unknown assertion kind {kind}"

def runOne (j : Json) : Except String Json := do
  let n ← (← field j "n").getNat?
  let ptypes ← (← (← field j "ptypes").getArr?).mapM (·.getNat?)
  let N ← (← field j "N").getNat?
  let eager ← (← field j "eager").getBool?
  let specs ← (← (← field j "specs").getArr?).toList.mapM specOfJson
  -- optional "sub": [[c, T], …] = class c derives from class T (given transitively closed)
  let sub : Array (Nat × Nat) ← match j.getObjVal? "sub" with
    | .ok a => (← a.getArr?).mapM (fun p => do
        let xs ← p.getArr?
        pure ((← (xs.getD 0 Json.null).getNat?), (← (xs.getD 1 Json.null).getNat?)))
    | .error _ => pure #[]
  let ns : Nodes := Nodes.ofClasses n (fun node => ptypes.getD node 0) (fun c T => sub.contains (c, T))
  let res := Assertion.run ns eager specs N
  let verdict := match res.verdict with
    | .passed => Json.str "passed"
    | .failedAtEnd => Json.str "failedAtEnd"
    | .failedAfter i => Json.arr #["failedAfter", toJson i]
  pure (Json.mkObj [("executed", toJson res.executed), ("verdict", verdict)])

def run (j : Json) : Except String Json :=
  match j.getObjVal? "runs" with
  | .ok rs => do
    let outs ← (← rs.getArr?).mapM runOne
    pure (Json.mkObj [("runs", Json.arr outs)])
  | .error _ => runOne j

end AssertionDriver
