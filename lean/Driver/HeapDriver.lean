import Driver.Util
import GradysModel.Heap
open Lean DU

/-- the heapq port against CPython's heapq: ops ["push", ts, id] | ["pop"]; "order" = "ts" (timestamp
    only: the heap's shape decides ties) or "key" ((ts, id)); returns the popped ids (null on empty)
    and the final array layout -/
def runHeap (j : Json) : Except String Json := do
  let ops ← (← field j "ops").getArr?
  let order ← (← field j "order").getStr?
  let lt := if order == "ts" then Heap.ltTs else Heap.ltKey
  let mut h : Array Heap.E := #[]
  let mut out : Array Json := #[]
  for op in ops do
    let a ← op.getArr?
    let name ← a[0]!.getStr?
    if name == "push" then
      h := Heap.heappush lt h ⟨← a[1]!.getNat?, ← a[2]!.getNat?⟩
      out := out.push (Json.str "ok")
    else
      match Heap.heappop lt h with
      | some (e, h') => h := h'; out := out.push (toJson e.id)
      | none => out := out.push Json.null
  pure (Json.mkObj [("results", Json.arr out), ("layout", Json.arr (h.map (fun e => toJson e.id)))])
