import Driver.ELDriver
import Driver.SimDriver
import Driver.HeapDriver
import Driver.InteropDriver
import Driver.AssertionDriver
import Driver.NumDriver
import Driver.DispatcherDriver
import Driver.RandomTripDriver
import Driver.MissionDriver
open Lean

def handle (line : String) : String :=
  match Json.parse line with
  | .error e => (Json.mkObj [("error", Json.str s!"parse: {e}")]).compress
  | .ok j =>
    let kind := match j.getObjVal? "kind" with
      | .ok (.str s) => s
      | _ => ""
    let r : Except String Json :=
      match kind with
      | "el" => runEL j
      | "sim" => SimDriver.run j
      | "heapq" => runHeap j
      | "interop" => InteropDriver.run j
      | "assertion" => AssertionDriver.run j
      | "camera" => NumDriver.run j
      | "geo" => NumDriver.run j
      | "dispatcher" => DispatcherDriver.run j
      | "dispatcher-nested" => DispatcherDriver.runNested j
      | "randomtrip" => RandomTripDriver.run j
      | "mission" => MissionDriver.run j
      | "missionFleet" => MissionDriver.runFleet j
      | _ => .error s!"unknown kind {kind}"
    match r with
    | .ok v => v.compress
    | .error e => (Json.mkObj [("error", Json.str e)]).compress

partial def loop (h : IO.FS.Stream) (out : IO.FS.Stream) : IO Unit := do
  let line ← h.getLine
  if line.isEmpty then return ()
  let t := line.trimAscii.toString
  if !t.isEmpty then
    out.putStrLn (handle t)
    out.flush
  loop h out

def main : IO Unit := do loop (← IO.getStdin) (← IO.getStdout)
