import GradysProofs.Properties.C02
#print axioms C02.C02_history_perm
#print axioms C02.C02_len_conservation
#print axioms C02.C02_refused_is_noop
#print axioms C02.C02_peek_nondestructive
#print axioms C02.C02_pop_perm
#print axioms C02.C02_exec_exactly_once
#print axioms C02.C02_no_duplicates
#print axioms C02.C02_queue_count
#print axioms C02.C02_exhaustion
