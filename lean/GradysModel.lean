import GradysModel.Scalar
import GradysModel.Queue
import GradysModel.Mobility
import GradysModel.Geo
import GradysModel.Camera
import GradysModel.Sim
import GradysModel.Heap
import GradysModel.Mission
