import GradysModel.Sim
/-
  Model of gradysim/simulator/handler/assertion.py (the four decorators, their TestCase classes,
  AssertionHandler) together with the part of gradysim/simulator/simulation.py that calls it:
  `after_simulation_step` after every executed event (step_simulation), `finalize` once the run is
  done (_finalize_simulation); a FailedAssertionException raised by the after-step hook leaves
  `step_simulation` / `start_simulation` at once: no further event, no finalisation.

  The simulation itself is abstracted to what the handler can see of it: the run would execute the
  events of iterations 0 … N-1 (N arbitrary), and the value each predicate takes when it is
  evaluated after the event of iteration `i` is an ARBITRARY function of `i` (and of the node) —
  whatever protocol program, configuration and handlers produce it.

  `eager` selects how the per-node dictionary of the protocol-scoped eventually-assertion is filled:
    eager = false : as in the pinned code — lazily, inside `test_iteration` (finding F18: with zero
                    executed events the dictionary is empty and `finalize` passes);
    eager = true  : REPAIRED (patches/F18.patch) — every node of the asserted type is entered with
                    False when it is registered with the handler.
-/

namespace Assertion

/-- protocol classes, as tags -/
abbrev PType := Nat

/-- the registered nodes: ids 0 … n-1 in registration order, and which protocol types each node's protocol
    is an instance of: `isA node T` = `isinstance(node.protocol_encapsulator.protocol, T)` - true for the
    protocol's own class and for every class it derives from (a common base protocol, `IProtocol` itself) -/
structure Nodes where
  n : Nat
  isA : NodeId → PType → Bool

/-- nodes given by the class of each node's protocol and the subclass relation among the classes
    (`sub c T` = class `c` derives from `T`; a class is always an instance of itself) -/
def Nodes.ofClasses (n : Nat) (cls : NodeId → PType) (sub : PType → PType → Bool) : Nodes :=
  ⟨n, fun node T => cls node == T || sub (cls node) T⟩

/-- a decorated assertion: its kind and the timeline of its predicate's values -/
inductive Spec
  /-- `assert_always_true_for_protocol(T, …)`; `pred i node` = value after the event of iteration `i` -/
  | alwaysProto (T : PType) (pred : Nat → NodeId → Bool)
  /-- `assert_eventually_true_for_protocol(T, …)` -/
  | eventuallyProto (T : PType) (pred : Nat → NodeId → Bool)
  /-- `assert_always_true_for_simulation(…)` -/
  | alwaysSim (pred : Nat → Bool)
  /-- `assert_eventually_true_for_simulation(…)` -/
  | eventuallySim (pred : Nat → Bool)

/-- the state of a TestCase instance -/
inductive TState
  | stateless
  /-- `has_been_true: Dict[int, bool]` (which node comes first in it is never observable) -/
  | perNode (d : NodeId → Option Bool)
  /-- `has_been_true: bool` -/
  | flag (b : Bool)

/-- `TestCase._register_node`, for each node in registration order (repaired code only) -/
def registerAll (ns : Nodes) (T : PType) (d : NodeId → Option Bool) : NodeId → Option Bool :=
  (List.range ns.n).foldl (fun d node => if ns.isA node T then Sim.upd d node (some false) else d) d

/-- `assertion()` in `AssertionHandler.__init__`, then `register_node` for every node -/
def Spec.init (ns : Nodes) (eager : Bool) : Spec → TState
  | .alwaysProto _ _ => .stateless
  | .eventuallyProto T _ => .perNode (if eager then registerAll ns T (fun _ => none) else fun _ => none)
  | .alwaysSim _ => .stateless
  | .eventuallySim _ => .flag false

/-- the loop of the eventually-for-protocol `test_iteration`: the node's entry becomes True when the predicate
    holds (`if func(node): … = True`), else False when it was absent (`if node.id not in …: … = False`), else
    stays; the other entries stay.  Written as ONE lookup function per round that consults the previous
    dictionary once per lookup: the compiled driver evaluates such a function body at every lookup, and a round
    that consults the previous dictionary twice (test for absence, then the fall-through) doubles the work per
    round - 2^(rounds) for a single `finalize`. -/
def noteAll (ns : Nodes) (T : PType) (pred : NodeId → Bool) (d : NodeId → Option Bool) : NodeId → Option Bool :=
  (List.range ns.n).foldl (fun d node =>
    if ns.isA node T then
      fun m =>
        if m = node then
          let cur := d node
          if pred node then some true else if cur.isNone then some false else cur
        else d m
    else d) d

/-- `TestCase.test_iteration(nodes, iteration, timestamp)`; `none` = FailedAssertionException -/
def testIteration (ns : Nodes) (s : Spec) (st : TState) (it : Nat) : Option TState :=
  match s, st with
  | .alwaysProto T pred, st =>
    if (List.range ns.n).all (fun node => !(ns.isA node T) || pred it node) then some st else none
  | .eventuallyProto T pred, .perNode d => some (.perNode (noteAll ns T (pred it) d))
  | .alwaysSim pred, st => if pred it then some st else none
  | .eventuallySim pred, .flag b => some (.flag (if pred it then true else b))
  | _, st => some st          -- not reachable: a test case keeps the state shape of its kind

/-- `TestCase.finalize()`; `false` = FailedAssertionException -/
def finalize (ns : Nodes) (s : Spec) (st : TState) : Bool :=
  match s, st with
  | .eventuallyProto _ _, .perNode d => (List.range ns.n).all (fun node => d node != some false)
  | .eventuallySim _, .flag b => b
  | _, _ => true

/-- `AssertionHandler.after_simulation_step`: the assertions in list order, the first failure raises -/
def afterStep (ns : Nodes) (it : Nat) : List (Spec × TState) → Option (List (Spec × TState))
  | [] => some []
  | (s, st) :: rest =>
    match testIteration ns s st it with
    | none => none
    | some st' =>
      match afterStep ns it rest with
      | none => none
      | some rest' => some ((s, st') :: rest')

/-- `AssertionHandler.finalize` -/
def finalizeAll (ns : Nodes) (sts : List (Spec × TState)) : Bool :=
  sts.all (fun x => finalize ns x.1 x.2)

inductive Verdict
  /-- FailedAssertionException out of the after-step hook of this iteration -/
  | failedAfter (iteration : Nat)
  /-- FailedAssertionException out of the finalisation -/
  | failedAtEnd
  | passed
deriving Repr, DecidableEq

structure Result where
  /-- how many events the run executed -/
  executed : Nat
  verdict : Verdict
deriving Repr, DecidableEq

/-- the run from iteration `it` on, with `remaining` events still to come:
    execute the event, run the hook; when no event is left, finalise. -/
def runLoop (ns : Nodes) : (remaining : Nat) → (it : Nat) → List (Spec × TState) → Result
  | 0, it, sts => ⟨it, if finalizeAll ns sts then .passed else .failedAtEnd⟩
  | r + 1, it, sts =>
    match afterStep ns it sts with
    | none => ⟨it + 1, .failedAfter it⟩
    | some sts' => runLoop ns r (it + 1) sts'

/-- a whole run (`start_simulation`, or `step_simulation` until it returns False / raises) that
    would execute `N` events -/
def run (ns : Nodes) (eager : Bool) (specs : List Spec) (N : Nat) : Result :=
  runLoop ns N 0 (specs.map (fun s => (s, s.init ns eager)))

end Assertion
