import GradysModel.Scalar
/-
  Model of `gradysim/protocol/position.py`: `_haversine_distance` and `geo_to_cartesian`
  (the repaired axis assignment: x = east–west leg signed by longitude, y = north–south leg signed
  by latitude), generic in the scalar, same operation order as the source.
-/
namespace Geo
variable {S : Type} [Scalar S]

/-- `_haversine_distance((lat1, lon1), (lat2, lon2))`, degrees in, metres out. `R = 6371000`. -/
def haversine (lat1d lon1d lat2d lon2d : S) : S :=
  let R : S := Scalar.ofInt 6371000
  let lat1 := Scalar.radians lat1d
  let lon1 := Scalar.radians lon1d
  let lat2 := Scalar.radians lat2d
  let lon2 := Scalar.radians lon2d
  let dlat := Scalar.sub lat2 lat1
  let dlon := Scalar.sub lon2 lon1
  let two : S := Scalar.ofInt 2
  let a := Scalar.add (Scalar.sq (Scalar.sin (Scalar.div dlat two)))
            (Scalar.mul (Scalar.mul (Scalar.cos lat1) (Scalar.cos lat2))
              (Scalar.sq (Scalar.sin (Scalar.div dlon two))))
  let c := Scalar.mul two (Scalar.atan2 (Scalar.sqrt a) (Scalar.sqrt (Scalar.sub (Scalar.ofInt 1) a)))
  Scalar.mul R c

/-- `geo_to_cartesian(ref, target)`; `ref`/`target` = (lat, lon, alt). -/
def geoToCartesian (ref tgt : V3 S) : V3 S :=
  let dx := haversine ref.x ref.y ref.x tgt.y
  let dy := haversine ref.x ref.y tgt.x ref.y
  let x := if Scalar.ge tgt.y ref.y then dx else Scalar.neg dx
  let y := if Scalar.ge tgt.x ref.x then dy else Scalar.neg dy
  let z := Scalar.sub tgt.z ref.z
  ⟨x, y, z⟩

end Geo
