import GradysModel.Scalar
/-
  Model of the per-node body of `MobilityHandler._update_movement`
  (gradysim/simulator/handler/mobility.py:85-113), generic in the scalar, same operation order.
-/
namespace Mobility
variable {S : Type} [Scalar S]

/-- `dtS` is `configuration.update_rate` as a scalar. Returns the node's new position. -/
def step (dtS : S) (cur : V3 S) (target : Option (V3 S)) (speed : S) : V3 S :=
  match target with
  | none => cur
  | some tgt =>
    let tv : V3 S := ⟨Scalar.sub tgt.x cur.x, Scalar.sub tgt.y cur.y, Scalar.sub tgt.z cur.z⟩
    let mm := Scalar.mul speed dtS
    let d := Scalar.sqrt (Scalar.add (Scalar.add (Scalar.sq tv.x) (Scalar.sq tv.y)) (Scalar.sq tv.z))
    if Scalar.ge mm d then ⟨tgt.x, tgt.y, tgt.z⟩
    else
      let m := Scalar.div mm d
      ⟨Scalar.add cur.x (Scalar.mul tv.x m), Scalar.add cur.y (Scalar.mul tv.y m),
       Scalar.add cur.z (Scalar.mul tv.z m)⟩

end Mobility
