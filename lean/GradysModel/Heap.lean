import GradysModel.Queue
/-
  Faithful port of CPython's `heapq.py` (`heappush`, `heappop`, `_siftdown`, `_siftup`) on arrays,
  generic in the element type and parameterised by the `<` used (`Event.__lt__`).

  * Every comparison of `heapq.py` is made, in the same order and with the same operands (this is
    what decides the behaviour on ties).
  * List reads use proof-carrying indexing; a read that would raise `IndexError` in Python takes
    the fall-through branch that just stores `newitem` (never taken from `heappush`/`heappop`:
    `GradysProofs/Lemmas/HeapRefine.lean`).  Writes use `setIfInBounds`.
  * The `while` loops are structural recursions on a fuel argument; the callers pass the array
    size, which always suffices (`siftdown_fuel_irrelevant`, `siftupLoop_fuel_irrelevant`).

  Used (1) to document finding F03: with the pinned, timestamp-only order equal-time events do not
  pop FIFO; with the repaired (ts, seq) order they do; (2) by `C03_heapq_refines_sorted_queue`:
  for the (ts, seq) order the heap-based event loop `HEL` below and the sorted-list loop `EL` of
  `Queue.lean` are observationally equal.
-/
namespace Heap

variable {α : Type}

/-- `_siftdown(heap, startpos, pos)`; `newitem = heap[pos]` is passed explicitly.
    ```
    while pos > startpos:
        parentpos = (pos - 1) >> 1
        parent = heap[parentpos]
        if newitem < parent:
            heap[pos] = parent; pos = parentpos; continue
        break
    heap[pos] = newitem
    ``` -/
def siftdown (lt : α → α → Bool) (h : Array α) (startpos pos : Nat) (newitem : α) : Nat → Array α
  | 0 => h.setIfInBounds pos newitem
  | fuel+1 =>
    if pos > startpos then
      let parentpos := (pos - 1) / 2
      if hp : parentpos < h.size then
        let parent := h[parentpos]
        if lt newitem parent then siftdown lt (h.setIfInBounds pos parent) startpos parentpos newitem fuel
        else h.setIfInBounds pos newitem
      else h.setIfInBounds pos newitem
    else h.setIfInBounds pos newitem

/-- `heappush(heap, item)`: `heap.append(item); _siftdown(heap, 0, len(heap)-1)` -/
def heappush (lt : α → α → Bool) (h : Array α) (x : α) : Array α :=
  let h := h.push x
  siftdown lt h 0 (h.size - 1) x h.size

/-- `if rightpos < endpos and not heap[childpos] < heap[rightpos]: childpos = rightpos` -/
def pickChild (lt : α → α → Bool) (h : Array α) (childpos : Nat) (hc : childpos < h.size) :
    Fin h.size :=
  if hr : childpos + 1 < h.size then
    if lt h[childpos] h[childpos + 1] then ⟨childpos, hc⟩ else ⟨childpos + 1, hr⟩
  else ⟨childpos, hc⟩

/-- the loop of `_siftup(heap, pos)`: bubble the smaller child up until a leaf is hit
    ```
    childpos = 2*pos + 1
    while childpos < endpos:
        rightpos = childpos + 1
        if rightpos < endpos and not heap[childpos] < heap[rightpos]: childpos = rightpos
        heap[pos] = heap[childpos]; pos = childpos; childpos = 2*pos + 1
    ``` -/
def siftupLoop (lt : α → α → Bool) (h : Array α) (pos : Nat) : Nat → Array α × Nat
  | 0 => (h, pos)
  | fuel+1 =>
    if hc : 2*pos + 1 < h.size then
      let c := pickChild lt h (2*pos + 1) hc
      siftupLoop lt (h.setIfInBounds pos h[c.val]) c.val fuel
    else (h, pos)

/-- `heappop(heap)`; `none` is Python's `IndexError` on the empty list.
    ```
    lastelt = heap.pop()
    if heap:
        returnitem = heap[0]; heap[0] = lastelt; _siftup(heap, 0); return returnitem
    return lastelt
    ```
    where `_siftup(heap, 0)` is the loop above, then `heap[pos] = newitem; _siftdown(heap, 0, pos)`. -/
def heappop (lt : α → α → Bool) (h : Array α) : Option (α × Array α) :=
  if hs : h.size = 0 then none else
  let lastelt := h[h.size - 1]
  let h := h.pop
  if hs' : h.size = 0 then some (lastelt, h) else
  let ret := h[0]
  let newitem := lastelt
  let r := siftupLoop lt (h.setIfInBounds 0 newitem) 0 h.size
  some (ret, siftdown lt (r.1.setIfInBounds r.2 newitem) 0 r.2 newitem h.size)

/-! ### the two `Event.__lt__` on a minimal event record (finding F03) -/

structure E where
  ts : Nat
  id : Nat
deriving Repr, DecidableEq, Inhabited

/-- pinned `Event.__lt__`: timestamp only -/
def ltTs (a b : E) : Bool := a.ts < b.ts
/-- repaired `Event.__lt__`: (timestamp, sequence) -/
def ltKey (a b : E) : Bool := a.ts < b.ts || (a.ts == b.ts && a.id < b.id)

def drain (lt : E → E → Bool) (h : Array E) : Nat → List Nat
  | 0 => []
  | fuel+1 => match heappop lt h with
    | none => []
    | some (e, h') => e.id :: drain lt h' fuel

/-- push `n` events with the same timestamp, ids in request order -/
def pushAll (lt : E → E → Bool) (n : Nat) : Array E :=
  (List.range n).foldl (fun h i => heappush lt h ⟨1, i⟩) #[]

/-! ### the event loop of `event.py` on the real heap -/

/-- repaired `Event.__lt__` on the events of `Queue.lean`: (timestamp, sequence) -/
def keyLtb {K : Type} (a b : Ev K) : Bool := a.ts < b.ts || (a.ts == b.ts && a.seq < b.seq)

end Heap

/-- `EventLoop` with `_event_heap` the `heapq` array (compare `EL`, whose queue is the sorted list) -/
structure HEL (K : Type) where
  now : Int
  heap : Array (Ev K)
  nextSeq : Nat

namespace HEL
variable {K : Type}
open Heap

def empty : HEL K := { now := 0, heap := #[], nextSeq := 0 }

/-- `EventLoop.schedule_event(timestamp, callback)` -/
def schedule (l : HEL K) (ts : Int) (k : K) : Except ELErr (HEL K) :=
  if ts < l.now then .error .past
  else .ok { l with heap := heappush keyLtb l.heap ⟨ts, l.nextSeq, k⟩, nextSeq := l.nextSeq + 1 }

/-- `EventLoop.pop_event()` -/
def pop (l : HEL K) : Except ELErr (Ev K × HEL K) :=
  match heappop keyLtb l.heap with
  | none => .error .empty
  | some (e, h') => .ok (e, { l with heap := h', now := e.ts })

/-- `EventLoop.peek_event()`: `self._event_heap[0]` or `None` -/
def peek (l : HEL K) : Option (Ev K) := l.heap[0]?

/-- `EventLoop.clear()` -/
def clear (l : HEL K) : HEL K := { l with heap := #[] }

/-- `len(event_loop)` -/
def len (l : HEL K) : Nat := l.heap.size

/-- apply one API call (same conventions as `EL.apply`) -/
def apply (l : HEL K) : ELOp K → HEL K × ELOut K
  | .schedule ts k =>
    match l.schedule ts k with
    | .ok l' => (l', .ok)
    | .error e => (l, .err e)
  | .pop =>
    match l.pop with
    | .ok (e, l') => (l', .ev (some e))
    | .error e => (l, .err e)
  | .peek => (l, .ev l.peek)
  | .clear => (l.clear, .ok)
  | .len => (l, .num l.len)
  | .now => (l, .num l.now)

/-- a whole history; outputs in call order -/
def run (l : HEL K) : List (ELOp K) → HEL K × List (ELOut K)
  | [] => (l, [])
  | op :: ops =>
    let r := l.apply op
    let rs := run r.1 ops
    (rs.1, r.2 :: rs.2)

end HEL
