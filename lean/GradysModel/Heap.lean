/-
  Faithful port of CPython's `heapq.py` (`heappush`, `heappop`, `_siftdown`, `_siftup`) on arrays,
  parameterised by the `<` used (`Event.__lt__`).  Used to document finding F03: with the pinned,
  timestamp-only order equal-time events do not pop FIFO; with the repaired (ts, seq) order they do.
-/
namespace Heap

structure E where
  ts : Nat
  id : Nat
deriving Repr, DecidableEq, Inhabited

/-- pinned `Event.__lt__`: timestamp only -/
def ltTs (a b : E) : Bool := a.ts < b.ts
/-- repaired `Event.__lt__`: (timestamp, sequence) -/
def ltKey (a b : E) : Bool := a.ts < b.ts || (a.ts == b.ts && a.id < b.id)

/-- `_siftdown(heap, startpos, pos)` -/
def siftdown (lt : E → E → Bool) (h : Array E) (startpos pos : Nat) (newitem : E) : Nat → Array E
  | 0 => h.setIfInBounds pos newitem
  | fuel+1 =>
    if pos > startpos then
      let parentpos := (pos - 1) / 2
      let parent := h[parentpos]!
      if lt newitem parent then siftdown lt (h.setIfInBounds pos parent) startpos parentpos newitem fuel
      else h.setIfInBounds pos newitem
    else h.setIfInBounds pos newitem

def heappush (lt : E → E → Bool) (h : Array E) (x : E) : Array E :=
  let h := h.push x
  siftdown lt h 0 (h.size - 1) x h.size

/-- the loop of `_siftup(heap, pos)`: bubble the smaller child up until a leaf is hit -/
def siftupLoop (lt : E → E → Bool) (h : Array E) (pos : Nat) : Nat → Array E × Nat
  | 0 => (h, pos)
  | fuel+1 =>
    let endpos := h.size
    let childpos := 2*pos + 1
    if childpos < endpos then
      let rightpos := childpos + 1
      let childpos := if rightpos < endpos && !(lt h[childpos]! h[rightpos]!) then rightpos else childpos
      siftupLoop lt (h.setIfInBounds pos h[childpos]!) childpos fuel
    else (h, pos)

def heappop (lt : E → E → Bool) (h : Array E) : Option (E × Array E) :=
  if h.size = 0 then none else
  let lastelt := h[h.size - 1]!
  let h := h.pop
  if h.size = 0 then some (lastelt, h) else
  let ret := h[0]!
  let newitem := lastelt
  let (h1, pos) := siftupLoop lt (h.setIfInBounds 0 newitem) 0 h.size
  some (ret, siftdown lt (h1.setIfInBounds pos newitem) 0 pos newitem h.size)

def drain (lt : E → E → Bool) (h : Array E) : Nat → List Nat
  | 0 => []
  | fuel+1 => match heappop lt h with
    | none => []
    | some (e, h') => e.id :: drain lt h' fuel

/-- push `n` events with the same timestamp, ids in request order -/
def pushAll (lt : E → E → Bool) (n : Nat) : Array E :=
  (List.range n).foldl (fun h i => heappush lt h ⟨1, i⟩) #[]

end Heap
