import GradysModel.Scalar
/-
  Model of `gradysim/protocol/plugin/mission_mobility.py` (MissionMobilityPlugin), the REPAIRED code
  (finding F16: `max(len(mission) - 2, 0)` when bouncing at the last waypoint).

  The plugin is a state machine driven by five operations of its public surface
    start_mission(m) · stop_mission() · set_current_waypoint(i) · set_reversed(b) ·
    telemetry(pos)   (the handler the plugin registers on the protocol's `handle_telemetry` chain)
  (`start_mission_with_waypoint_file(path)` is `start_mission` of what `readWaypoints` parsed)
  and observed through `current_waypoint`, `is_reversed`, `is_idle` and the mobility commands it
  hands to `provider.send_mobility_command`.  Every definition below follows the Python method of
  the same name statement by statement.  Only `reached` looks inside a scalar.

  Waypoint indices are Python ints (`Int`): the pinned code can make them negative, and Python
  indexing accepts negative indices (`pyGet`).
-/

namespace Mission

/-- `LoopMission` -/
inductive LoopMode
  | no
  | restart
  | reverse
deriving DecidableEq, Repr

/-- `MissionMobilityConfiguration` -/
structure Config (S : Type) where
  speed : S
  loop : LoopMode
  tol : S

/-- what the plugin hands to `provider.send_mobility_command` -/
inductive Cmd (S : Type)
  | goto (p : V3 S)
  | setSpeed (v : S)
deriving Repr, DecidableEq

/-- the plugin's fields (`_current_mission`, `_current_waypoint`, `_is_reversed`, `_is_idle`) and,
    as ghost history, every mobility command issued so far, **newest first** -/
structure State (S : Type) where
  mission : Option (List (V3 S))
  wp : Option Int
  reversed : Bool
  idle : Bool
  log : List (Cmd S)

/-- class-level defaults of the plugin -/
def init {S : Type} : State S := ⟨none, none, false, true, []⟩

/-- how a public call ends -/
inductive Out
  /-- returned normally -/
  | ok
  /-- raised `MissionMobilityPluginException` -/
  | refused
  /-- raised something else (`IndexError` of `start_mission([])`; not reachable otherwise) -/
  | crash
deriving DecidableEq, Repr

inductive Op (S : Type)
  | start (m : List (V3 S))
  | stop
  | setWaypoint (i : Int)
  | setReversed (b : Bool)
  | telemetry (pos : V3 S)
deriving Repr

/-- domain guard of C16: missions are non-empty -/
def Op.valid {S : Type} : Op S → Prop
  | .start m => m ≠ []
  | _ => True

/-- Python `lst[i]` for an int `i`: negative indices count from the end; `none` = `IndexError` -/
def pyGet {α : Type} (l : List α) (i : Int) : Option α :=
  if 0 ≤ i then l[i.toNat]?
  else if 0 ≤ i + l.length then l[(i + l.length).toNat]?
  else none

/-- the target of the most recent `goto` in a newest-first command log -/
def lastGoto {S : Type} : List (Cmd S) → Option (V3 S)
  | [] => none
  | .goto p :: _ => some p
  | .setSpeed _ :: r => lastGoto r

section
variable {S : Type}

/-- `stop_mission` -/
def stopMission (s : State S) : State S :=
  { s with mission := none, reversed := false, idle := true, wp := none }

/-- `_has_overran_bounds` -/
def hasOverran (s : State S) : Bool :=
  match s.mission with
  | none => false
  | some m =>
    match s.wp with
    | none => false        -- Python would raise TypeError; never reached (wp is set whenever a mission is)
    | some i => if s.reversed then decide (i < 0) else decide ((m.length : Int) ≤ i)

/-- `_progress_current_waypoint`; `bounce len` is the index chosen when the forward direction runs
    past the last waypoint in REVERSE mode (repaired code: `max(len - 2, 0)`) -/
def progressWith (bounce : Int → Int) (cfg : Config S) (s : State S) : State S :=
  match s.mission with
  | none => s
  | some m =>
    let s1 : State S := { s with wp := s.wp.map (fun i => if s.reversed then i - 1 else i + 1) }
    if hasOverran s1 then
      match cfg.loop with
      | .no => stopMission s1
      | .restart => { s1 with wp := some 0 }
      | .reverse =>
        if s1.reversed then { s1 with wp := some 0, reversed := false }
        else { s1 with wp := some (bounce m.length), reversed := true }
    else s1

/-- repaired: `max(len(self._current_mission) - 2, 0)` -/
def bounceFloored (n : Int) : Int := max (n - 2) 0

/-- pinned code (finding F16): `len(self._current_mission) - 2` -/
def bouncePinned (n : Int) : Int := n - 2

def progress (cfg : Config S) (s : State S) : State S := progressWith bounceFloored cfg s

/-- `_travel_to_current_waypoint`; the flag is `false` when the indexing raises -/
def travel (s : State S) : State S × Bool :=
  match s.wp with
  | none => (s, true)
  | some i =>
    match s.mission.bind (fun m => pyGet m i) with
    | some p => ({ s with log := .goto p :: s.log }, true)
    | none => (s, false)

def outOf (r : State S × Bool) : State S × Out := (r.1, if r.2 then .ok else .crash)

/-- `start_mission(mission)`: fields, goto the first waypoint, then the speed command.
    With `mission = []` the indexing raises after the fields were changed (domain guard of C16). -/
def start (cfg : Config S) (s : State S) (m : List (V3 S)) : State S × Out :=
  let s1 : State S := { s with mission := some m, reversed := false, idle := false, wp := some 0 }
  match travel s1 with
  | (s2, true) => ({ s2 with log := .setSpeed cfg.speed :: s2.log }, .ok)
  | (s2, false) => (s2, .crash)

/-- the parsing loop of `start_mission_with_waypoint_file(path)` on a readable, well-formed file whose
    lines are given as the three numbers `float` read on each of them: `mission = []` - a NEW list in
    every call, nothing is carried over from an earlier load -, then `mission.append((x, y, z))` line
    by line -/
def readWaypoints (lines : List (V3 S)) : List (V3 S) :=
  lines.foldl (fun mission p => mission ++ [p]) []

/-- `start_mission_with_waypoint_file(path)`: parse, then `self.start_mission(mission=mission)` -/
def startFile (cfg : Config S) (s : State S) (lines : List (V3 S)) : State S × Out :=
  start cfg s (readWaypoints lines)

/-- `set_current_waypoint(waypoint)` -/
def setWaypoint (s : State S) (i : Int) : State S × Out :=
  match s.mission with
  | none => (s, .refused)
  | some m =>
    if i < 0 ∨ (m.length : Int) ≤ i then (s, .refused)
    else outOf (travel { s with wp := some i })

/-- `set_reversed(reversed)`; progresses at once when the value changes -/
def setReversedWith (bounce : Int → Int) (cfg : Config S) (s : State S) (b : Bool) : State S × Out :=
  match s.mission with
  | none => (s, .refused)
  | some _ =>
    if cfg.loop ≠ .reverse then (s, .refused)
    else
      let old := s.reversed
      let s1 : State S := { s with reversed := b }
      if old != b then outOf (travel (progressWith bounce cfg s1)) else (s1, .ok)

def setReversed (cfg : Config S) (s : State S) (b : Bool) : State S × Out :=
  setReversedWith bounceFloored cfg s b

/-- the registered `telemetry_handler`, given the outcome `r` of `_has_reached_target` -/
def telemetryWith (bounce : Int → Int) (cfg : Config S) (s : State S) (r : Bool) : State S × Out :=
  match s.mission with
  | none => (s, .ok)
  | some _ => if r then outOf (travel (progressWith bounce cfg s)) else (s, .ok)

def telemetryB (cfg : Config S) (s : State S) (r : Bool) : State S × Out :=
  telemetryWith bounceFloored cfg s r

end

section
variable {S : Type} [Scalar S]

/-- `_has_reached_target(current_position)`:
    `squared_distance(current_position, target) <= tolerance ** 2` -/
def reached (cfg : Config S) (s : State S) (pos : V3 S) : Bool :=
  match s.wp with
  | none => false
  | some i =>
    match s.mission.bind (fun m => pyGet m i) with
    | some t => Scalar.le (V3.sqdist pos t) (Scalar.sq cfg.tol)
    | none => false

/-- one public call -/
def apply (cfg : Config S) (s : State S) : Op S → State S × Out
  | .start m => start cfg s m
  | .stop => (stopMission s, .ok)
  | .setWaypoint i => setWaypoint s i
  | .setReversed b => setReversed cfg s b
  | .telemetry pos => telemetryB cfg s (reached cfg s pos)

/-- a whole history -/
def run (cfg : Config S) (s : State S) (ops : List (Op S)) : State S :=
  ops.foldl (fun s op => (apply cfg s op).1) s

/-! Several plugins alive in one process (the nodes of one simulation): every `MissionMobilityPlugin`
    has its own protocol instance, configuration and fields; the class body only holds immutable
    defaults that `self.… =` shadows per instance.  A call on one member touches that member only. -/

/-- one plugin of a fleet: its configuration and its fields -/
structure Member (S : Type) where
  cfg : Config S
  st : State S

/-- freshly constructed plugins, one per configuration -/
def fleetInit (cfgs : List (Config S)) : List (Member S) := cfgs.map (fun c => ⟨c, init⟩)

/-- one public call on member `who` (no such member: nothing happens, reported as `crash`) -/
def applyAt (f : List (Member S)) (who : Nat) (op : Op S) : List (Member S) × Out :=
  match f[who]? with
  | none => (f, .crash)
  | some m => let r := apply m.cfg m.st op; (f.set who { m with st := r.1 }, r.2)

/-- an interleaved history of calls on the members of a fleet -/
def runFleet (f : List (Member S)) (ops : List (Nat × Op S)) : List (Member S) :=
  ops.foldl (fun f o => (applyAt f o.1 o.2).1) f

/-- the calls of an interleaved history that were made on member `i`, in order -/
def callsOn (i : Nat) (ops : List (Nat × Op S)) : List (Op S) :=
  (ops.filter (fun o => o.1 == i)).map (·.2)

end

end Mission
