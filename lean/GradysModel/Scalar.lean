/-
  Scalar: the numeric operations the Python sources use, as a class, so that every numeric
  model function is written ONCE, in the operation order of the source, and instantiated
  * at `Float` (driver; IEEE doubles, the same libm as CPython), and
  * at `ℝ`     (GradysProofs/RealScalar.lean; where the theorems live).
  Discrete theorems that never look inside a scalar hold for every `S`.
-/

class Scalar (S : Type) where
  ofInt : Int → S
  add : S → S → S
  sub : S → S → S
  mul : S → S → S
  div : S → S → S
  neg : S → S
  /-- Python `x ** 2` (CPython: `pow(x, 2.0)`) -/
  sq : S → S
  sqrt : S → S
  sin : S → S
  cos : S → S
  /-- `math.acos`: raises `ValueError` outside [-1, 1] → `none` -/
  acos? : S → Option S
  atan2 : S → S → S
  /-- `math.radians` -/
  radians : S → S
  le : S → S → Bool
  lt : S → S → Bool

namespace Scalar
variable {S : Type} [Scalar S]

instance : Add S := ⟨Scalar.add⟩
instance : Sub S := ⟨Scalar.sub⟩
instance : Mul S := ⟨Scalar.mul⟩
instance : Div S := ⟨Scalar.div⟩
instance : Neg S := ⟨Scalar.neg⟩

/-- Python `a >= b` -/
@[inline] def ge (a b : S) : Bool := Scalar.le b a
/-- Python `a > b` -/
@[inline] def gt (a b : S) : Bool := Scalar.lt b a
/-- Python `max(a, b)`: returns `a` unless `b > a` -/
@[inline] def max (a b : S) : S := if Scalar.lt a b then b else a
/-- Python `min(a, b)`: returns `a` unless `b < a` -/
@[inline] def min (a b : S) : S := if Scalar.lt b a then b else a

end Scalar

/-- A 3-D position / vector (Python: a 3-tuple of floats). -/
structure V3 (S : Type) where
  x : S
  y : S
  z : S
deriving Repr, BEq, DecidableEq

namespace V3
variable {S : Type} [Scalar S]

/-- `gradysim.protocol.position.squared_distance(start, end)`, same operation order. -/
def sqdist (a b : V3 S) : S :=
  Scalar.add (Scalar.add (Scalar.sq (Scalar.sub b.x a.x)) (Scalar.sq (Scalar.sub b.y a.y)))
    (Scalar.sq (Scalar.sub b.z a.z))

end V3
