import GradysModel.Queue
import GradysModel.Mobility
import GradysModel.Geo
/-
  Model of the python simulator core:
    gradysim/simulator/simulation.py      (Simulator.step_simulation / start_simulation / is_simulation_done,
                                           _initialize_simulation / _finalize_simulation, SimulationBuilder ids)
    gradysim/simulator/handler/timer.py   (set_timer / cancel_timer / fire_timer)
    gradysim/simulator/handler/communication.py (handle_command / can_transmit / _transmit_message)
    gradysim/simulator/handler/mobility.py (inject / _update_movement / handle_command)
    gradysim/encapsulator/python.py       (PythonProvider forwarding, current_time)
    gradysim/simulator/extension/communication_controller.py (set_transmission_range)

  Closures are defunctionalised into `EvKind`.  A protocol is an arbitrary interaction tree
  (`Prog`): every Sim-level theorem is quantified over all of them.
-/

abbrev NodeId := Nat

/-- What a protocol can ask of its provider (`IProvider`) or of the communication controller. -/
inductive Request (S : Type)
  | setTimer (name : String) (at_ : Int)
  | cancelTimer (name : String)
  | send (msg : String) (dst : Option Int)
  | broadcast (msg : String)
  | goto (p : V3 S)
  | gotoGeo (p : V3 S)           -- (lat, lon, alt)
  | setSpeed (v : S)
  | setRange (r : S)
deriving Repr

/-- The five `IProtocol` callbacks with their payloads. -/
inductive Callback (S : Type)
  | initialize
  | timer (name : String)
  | packet (msg : String)
  | telemetry (pos : V3 S)
  | finish
deriving Repr

/-- What one callback does: issue requests, continuing on accepted (`true`) / refused (`false`,
    the provider call raised and the protocol caught it), finally return with a new local state. -/
inductive Prog (S σ : Type)
  | done (s : σ)
  | req (r : Request S) (k : Bool → Prog S σ)

structure Proto (S σ : Type) where
  init : σ
  /-- inputs: local state, own id (`get_id()`), `current_time()`, the callback and its payload -/
  react : σ → NodeId → Int → Callback S → Prog S σ

/-- a program that issues the listed requests whatever happens -/
def Prog.ofList {S σ : Type} (s : σ) : List (Request S) → Prog S σ
  | [] => .done s
  | r :: rs => .req r (fun _ => Prog.ofList s rs)

inductive EvKind (S : Type)
  | timerFire (n : NodeId) (name : String) (id : Nat)
  | deliver (dst src : NodeId) (msg : String)
  | mobTick
  | telemetry (n : NodeId) (pos : V3 S)
deriving Repr

inductive Obs (S : Type)
  | handlerInit (h : String)
  | callback (n : NodeId) (cb : Callback S) (t : Int)
  | request (n : NodeId) (r : Request S) (ok : Bool)
  | afterStep (h : String) (iter : Nat) (ts : Int)
  | handlerFinal (h : String)
deriving Repr

structure Config (S : Type) where
  nNodes : Nat
  hasTimer : Bool
  hasComm : Bool
  hasMob : Bool
  /-- labels of all handlers in registration order (`Simulator._handlers`) -/
  handlers : List String
  duration : Option Int
  maxIter : Option Nat
  /-- CommunicationMedium.delay (ticks) -/
  delay : Int
  failRate : S
  defaultRange : S
  /-- MobilityConfiguration.update_rate, in ticks and as the scalar the step multiplies by -/
  dt : Int
  dtS : S
  defaultSpeed : S
  refGeo : V3 S
  initPos : NodeId → V3 S
  /-- the values successive `random.random()` calls return -/
  draws : Nat → S

structure World (S σ : Type) where
  loop : EL (EvKind S)
  iter : Nat
  initialized : Bool
  finalized : Bool
  /-- TimerHandler._pending_timers as a list of (node, name, id) -/
  pending : List (NodeId × String × Nat)
  /-- timer identifiers are allocated per node (injective, never observable) -/
  nextTimer : NodeId → Nat
  range : NodeId → S
  pos : NodeId → V3 S
  target : NodeId → Option (V3 S)
  speed : NodeId → S
  drawIdx : Nat
  pstate : NodeId → σ
  /-- observations, newest first -/
  rtrace : List (Obs S)
  /-- ghost: every accepted scheduling request, newest first -/
  raccepted : List (Ev (EvKind S))
  /-- ghost: every executed event, newest first -/
  rexecuted : List (Ev (EvKind S))

namespace World
variable {S σ : Type}
def now (w : World S σ) : Int := w.loop.now
def trace (w : World S σ) : List (Obs S) := w.rtrace.reverse
def executed (w : World S σ) : List (Ev (EvKind S)) := w.rexecuted.reverse
def accepted (w : World S σ) : List (Ev (EvKind S)) := w.raccepted.reverse
end World

namespace Sim
variable {S σ : Type} [Scalar S]

def upd {α : Type} (f : NodeId → α) (n : NodeId) (a : α) : NodeId → α :=
  fun m => if m = n then a else f m

def log (o : Obs S) (w : World S σ) : World S σ := { w with rtrace := o :: w.rtrace }

/-- accepted `EventLoop.schedule_event` issued by a handler -/
def sched (ts : Int) (k : EvKind S) (w : World S σ) : World S σ :=
  { w with loop := w.loop.push ts k, raccepted := ⟨ts, w.loop.nextSeq, k⟩ :: w.raccepted }

/-- the loss draw of `can_transmit`: one `random.random()` per copy iff `failure_rate > 0` -/
def consumeDraw (cfg : Config S) (w : World S σ) : Bool × World S σ :=
  if Scalar.gt cfg.failRate (Scalar.ofInt 0) then
    (Scalar.gt (cfg.draws w.drawIdx) cfg.failRate, { w with drawIdx := w.drawIdx + 1 })
  else (true, w)

/-- delivery time: `current_time` if `delay <= 0` else `current_time + delay` -/
def deliverTime (cfg : Config S) (w : World S σ) : Int :=
  if cfg.delay ≤ 0 then w.loop.now else w.loop.now + cfg.delay

/-- range test of `can_transmit`: squared distance against the SENDER's squared range -/
def inRange (w : World S σ) (src dst : NodeId) : Bool :=
  Scalar.le (V3.sqdist (w.pos src) (w.pos dst)) (Scalar.sq (w.range src))

/-- `CommunicationHandler._transmit_message` + `can_transmit` -/
def transmit (cfg : Config S) (src dst : NodeId) (msg : String) (w : World S σ) : World S σ :=
  let ir := inRange w src dst
  let d := consumeDraw cfg w
  if d.1 && ir then sched (deliverTime cfg d.2) (.deliver dst src msg) d.2 else d.2

def broadcastTo (cfg : Config S) (src : NodeId) (msg : String) (dsts : List NodeId) (w : World S σ) :
    World S σ :=
  dsts.foldl (fun w d => if d = src then w else transmit cfg src d msg w) w

/-- one provider / controller request by node `n`; returns the new world and whether the call
    returned normally (`true`) or raised (`false`). -/
def execReq (cfg : Config S) (n : NodeId) (r : Request S) (w : World S σ) : World S σ × Bool :=
  match r with
  | .setTimer name at_ =>
    if !cfg.hasTimer then (w, true)
    else if at_ < w.loop.now then (w, false)
    else
      let id := w.nextTimer n
      let w := sched at_ (.timerFire n name id) w
      ({ w with pending := (n, name, id) :: w.pending, nextTimer := upd w.nextTimer n (id + 1) }, true)
  | .cancelTimer name =>
    if !cfg.hasTimer then (w, true)
    else ({ w with pending := w.pending.filter (fun p => !(p.1 == n && p.2.1 == name)) }, true)
  | .send msg dst =>
    if !cfg.hasComm then (w, true)
    else match dst with
      | none => (w, false)
      | some d =>
        if d = (n : Int) then (w, false)
        else if d < 0 ∨ d ≥ (cfg.nNodes : Int) then (w, false)
        else (transmit cfg n d.toNat msg w, true)
  | .broadcast msg =>
    if !cfg.hasComm then (w, true)
    else (broadcastTo cfg n msg (List.range cfg.nNodes) w, true)
  | .goto p =>
    if !cfg.hasMob then (w, true) else ({ w with target := upd w.target n (some p) }, true)
  | .gotoGeo p =>
    if !cfg.hasMob then (w, true)
    else ({ w with target := upd w.target n (some (Geo.geoToCartesian cfg.refGeo p)) }, true)
  | .setSpeed v =>
    if !cfg.hasMob then (w, true) else ({ w with speed := upd w.speed n v }, true)
  | .setRange r =>
    if Scalar.lt r (Scalar.ofInt 0) then (w, false)
    else if !cfg.hasComm then (w, true)
    else ({ w with range := upd w.range n r }, true)

def runProg (cfg : Config S) (n : NodeId) : Prog S σ → World S σ → World S σ × σ
  | .done s, w => (w, s)
  | .req r k, w =>
    let res := execReq cfg n r w
    runProg cfg n (k res.2) (log (.request n r res.2) res.1)

/-- `PythonProvider.current_time()` -/
def reportedTime (cfg : Config S) (w : World S σ) : Int := if cfg.hasTimer then w.loop.now else 0

/-- one protocol callback on node `n` -/
def callback (cfg : Config S) (P : NodeId → Proto S σ) (n : NodeId) (cb : Callback S)
    (w : World S σ) : World S σ :=
  let t := reportedTime cfg w
  let w0 := log (.callback n cb t) w
  let res := runProg cfg n ((P n).react (w0.pstate n) n t cb) w0
  { res.1 with pstate := upd res.1.pstate n res.2 }

/-- `MobilityHandler._update_movement` -/
def mobTick (cfg : Config S) (w : World S σ) : World S σ :=
  let w := (List.range cfg.nNodes).foldl (fun w n =>
      let p := Mobility.step cfg.dtS (w.pos n) (w.target n) (w.speed n)
      sched w.loop.now (.telemetry n p) { w with pos := upd w.pos n p }) w
  sched (w.loop.now + cfg.dt) .mobTick w

def execEv (cfg : Config S) (P : NodeId → Proto S σ) (e : Ev (EvKind S)) (w : World S σ) : World S σ :=
  match e.kind with
  | .timerFire n name id =>
    if w.pending.contains (n, name, id) then
      callback cfg P n (.timer name) { w with pending := w.pending.erase (n, name, id) }
    else w
  | .deliver dst _ msg => callback cfg P dst (.packet msg) w
  | .mobTick => mobTick cfg w
  | .telemetry n p => callback cfg P n (.telemetry p) w

/-- `Simulator.is_simulation_done` (repaired: looks at the NEXT event's time) -/
def isDone (cfg : Config S) (w : World S σ) : Bool :=
  match w.loop.queue with
  | [] => true
  | e :: _ =>
    (match cfg.duration with | some D => decide (D < e.ts) | none => false) ||
    (match cfg.maxIter with | some N => decide (N ≤ w.iter) | none => false)

def logAll (f : String → Obs S) (hs : List String) (w : World S σ) : World S σ :=
  hs.foldl (fun w h => log (f h) w) w

def callbackAll (cfg : Config S) (P : NodeId → Proto S σ) (cb : Callback S) (ns : List NodeId)
    (w : World S σ) : World S σ :=
  ns.foldl (fun w n => callback cfg P n cb w) w

/-- `Simulator._initialize_simulation` -/
def initialise (cfg : Config S) (P : NodeId → Proto S σ) (w : World S σ) : World S σ :=
  let w := { w with initialized := true }
  let w := logAll .handlerInit cfg.handlers w
  callbackAll cfg P .initialize (List.range cfg.nNodes) w

/-- `Simulator._finalize_simulation` -/
def finalise (cfg : Config S) (P : NodeId → Proto S σ) (w : World S σ) : World S σ :=
  if w.finalized then w
  else
    let w := callbackAll cfg P .finish (List.range cfg.nNodes) w
    let w := logAll .handlerFinal cfg.handlers w
    { w with finalized := true }

/-- the state right after `SimulationBuilder.build()` -/
def init (cfg : Config S) (P : NodeId → Proto S σ) : World S σ :=
  let w0 : World S σ :=
    { loop := EL.empty, iter := 0, initialized := false, finalized := false, pending := [],
      nextTimer := fun _ => 0, range := fun _ => cfg.defaultRange, pos := cfg.initPos,
      target := fun _ => none, speed := fun _ => cfg.defaultSpeed, drawIdx := 0,
      pstate := fun n => (P n).init, rtrace := [], raccepted := [], rexecuted := [] }
  if cfg.hasMob then sched cfg.dt .mobTick w0 else w0

/-- the state after `build()` followed by requests issued through the nodes' providers before the first
    step (`pre`: node and the requests it issues, in the order issued). The requests go through the very
    handlers a callback's requests go through; the protocol state they return is dropped (no callback ran). -/
def initWith (cfg : Config S) (P : NodeId → Proto S σ) (pre : List (NodeId × Prog S σ)) : World S σ :=
  pre.foldl (fun w np => (runProg cfg np.1 np.2 w).1) (init cfg P)

/-- the part of a step that pops and executes one event -/
def execStep (cfg : Config S) (P : NodeId → Proto S σ) (e : Ev (EvKind S)) (rest : List (Ev (EvKind S)))
    (w : World S σ) : World S σ :=
  let w := { w with loop := { w.loop with queue := rest, now := e.ts }, rexecuted := e :: w.rexecuted }
  let w := execEv cfg P e w
  let w := logAll (fun h => .afterStep h w.iter e.ts) cfg.handlers w
  { w with iter := w.iter + 1 }

/-- `Simulator.step_simulation` (repaired: a finalised simulation does nothing). Returns the
    new world and the method's return value. -/
def step (cfg : Config S) (P : NodeId → Proto S σ) (w : World S σ) : World S σ × Bool :=
  if w.finalized then (w, false)
  else
    let w := if w.initialized then w else initialise cfg P w
    if isDone cfg w then (finalise cfg P w, false)
    else match w.loop.queue with
      | [] => (w, false)
      | e :: rest =>
        let w := execStep cfg P e rest w
        if isDone cfg w then (finalise cfg P w, false) else (w, true)

/-- `step_simulation` when the callback of the executed event lets an exception escape: the event is
    consumed and its callback ran as far as it got (the protocol's program IS what it did before raising),
    but the after-step hooks, the iteration counter and the completion check of that call are skipped - the
    caller gets the exception. (The lifecycle callbacks are assumed not to raise.) -/
def stepRaised (cfg : Config S) (P : NodeId → Proto S σ) (w : World S σ) : World S σ :=
  if w.finalized then w
  else
    let w := if w.initialized then w else initialise cfg P w
    if isDone cfg w then finalise cfg P w
    else match w.loop.queue with
      | [] => w
      | e :: rest =>
        execEv cfg P e { w with loop := { w.loop with queue := rest, now := e.ts }, rexecuted := e :: w.rexecuted }

/-- `n` manual calls of `step_simulation` (return values discarded) -/
def steps (cfg : Config S) (P : NodeId → Proto S σ) : Nat → World S σ → World S σ
  | 0, w => w
  | n + 1, w => steps cfg P n (step cfg P w).1

/-- `Simulator.start_simulation`: step until `false`, with fuel -/
def start (cfg : Config S) (P : NodeId → Proto S σ) : Nat → World S σ → World S σ
  | 0, w => w
  | n + 1, w =>
    let (w', running) := step cfg P w
    if running then start cfg P n w' else w'

end Sim
