import GradysModel.Scalar
import GradysModel.Dispatcher
/-
  Model of `gradysim/protocol/plugin/random_mobility.py` (RandomMobilityPlugin), REPAIRED
  semantics (findings F17a / F17b), on top of the dispatcher model:

  * the three fields `_current_target`, `_patched_handle_telemetry`, `_trip_ongoing` exist from the
    start (`None`, `None`, `False`);
  * `initiate_random_trip` on an ongoing trip first unregisters the previous telemetry closure;
  * a closure that is not the plugin's current one does nothing when called.

  Every `initiate_random_trip` creates a new closure `patched_handle_telemetry`; closures are
  numbered 0, 1, 2, ... in creation order and live in the telemetry chain of the plugin's protocol
  instance (`Disp.Chains`).  `random.uniform(a, b)` is `a + (b - a) * random()`; the draws come from
  an oracle stream `draws : Nat → S`, consumed in the order x, y, z.  Generic in the scalar.
-/

namespace RandomTrip
open Disp
variable {S : Type} [Scalar S]

/-- `RandomMobilityConfig` -/
structure Config (S : Type) where
  xlo : S
  xhi : S
  ylo : S
  yhi : S
  zlo : S
  zhi : S
  tol : S

/-- `random.uniform(lo, hi)` for the draw `u = random()` -/
def uniform (lo hi u : S) : S := Scalar.add lo (Scalar.mul (Scalar.sub hi lo) u)

structure RT (S : Type) where
  /-- the wrapper of the protocol instance the plugin is attached to -/
  chains : Chains
  /-- `_trip_ongoing` -/
  ongoing : Bool
  /-- `_current_target` -/
  target : Option (V3 S)
  /-- `_patched_handle_telemetry`: number of the current closure -/
  handler : Option Nat
  /-- closures created so far -/
  nextH : Nat
  /-- draws consumed so far -/
  used : Nat
  /-- GOTO_COORDS commands received by the provider, newest first -/
  cmds : List (V3 S)
  /-- calls of the protocol's own `handle_telemetry` -/
  ownCalls : Nat

/-- `RandomMobilityPlugin.__init__` on a fresh protocol instance -/
def RT.init : RT S :=
  { chains := Chains.fresh, ongoing := false, target := none, handler := none, nextH := 0, used := 0,
    cmds := [], ownCalls := 0 }

/-- the waypoint the next three draws produce -/
def waypoint (cfg : Config S) (draws : Nat → S) (used : Nat) : V3 S :=
  ⟨uniform cfg.xlo cfg.xhi (draws used), uniform cfg.ylo cfg.yhi (draws (used + 1)),
   uniform cfg.zlo cfg.zhi (draws (used + 2))⟩

/-- `travel_to_random_waypoint()`: draw, send the goto, return the waypoint -/
def travel (cfg : Config S) (draws : Nat → S) (s : RT S) : RT S × V3 S :=
  let wp := waypoint cfg draws s.used
  ({ s with used := s.used + 3, cmds := wp :: s.cmds }, wp)

/-- `self._dispatcher.unregister_handle_telemetry(self._patched_handle_telemetry)` -/
def dropHandler (s : RT S) : RT S :=
  match s.handler with
  | none => s
  | some h =>
    match s.chains.unregister .telemetry h with
    | some c => { s with chains := c }
    | none => s

/-- `initiate_random_trip()` -/
def initiate (cfg : Config S) (draws : Nat → S) (s : RT S) : RT S :=
  let s1 := if s.ongoing then dropHandler s else s
  let r := travel cfg draws s1
  let n := r.1.nextH
  { r.1 with target := some r.2, handler := some n, nextH := n + 1,
             chains := r.1.chains.register .telemetry n, ongoing := true }

/-- `finish_random_trip()` -/
def finish (s : RT S) : RT S :=
  if s.ongoing then { dropHandler s with handler := none, ongoing := false } else s

/-- does `pos` count as having reached `t`?  `squared_distance(pos, t) <= tolerance * tolerance` -/
def arrived (cfg : Config S) (pos t : V3 S) : Bool :=
  Scalar.le (V3.sqdist pos t) (Scalar.mul cfg.tol cfg.tol)

/-- what one element of the telemetry chain does with a telemetry at `pos` -/
def onTelemetry (cfg : Config S) (draws : Nat → S) (pos : V3 S) (e : Entry) (s : RT S) :
    RT S × Ret × Unit :=
  match e with
  | .own => ({ s with ownCalls := s.ownCalls + 1 }, .none, ())
  | .h n =>
    if s.handler = some n then
      match s.target with
      | some t =>
        if arrived cfg pos t then
          let r := travel cfg draws s
          ({ r.1 with target := some r.2 }, .cont, ())
        else (s, .cont, ())
      | none => (s, .cont, ())
    else (s, .cont, ())          -- a closure that is not the current one does nothing

/-- `protocol.handle_telemetry(Telemetry(pos))` through the dispatcher -/
def telemetry (cfg : Config S) (draws : Nat → S) (s : RT S) (pos : V3 S) : RT S :=
  (walk (onTelemetry cfg draws pos) true (s.chains .telemetry) s).1

inductive Op (S : Type)
  | initiate
  | finish
  | telemetry (pos : V3 S)
  | travel
  | qOngoing
  | qTarget

inductive Val (S : Type)
  | unit
  | bool (b : Bool)
  | pos (p : Option (V3 S))

def step (cfg : Config S) (draws : Nat → S) (s : RT S) : Op S → RT S × Val S
  | .initiate => (initiate cfg draws s, .unit)
  | .finish => (finish s, .unit)
  | .telemetry pos => (telemetry cfg draws s pos, .unit)
  | .travel => let r := travel cfg draws s; (r.1, .pos (some r.2))
  | .qOngoing => (s, .bool s.ongoing)
  | .qTarget => (s, .pos s.target)

/-- a whole history; per operation its return value, and the state after it -/
def run (cfg : Config S) (draws : Nat → S) (s : RT S) : List (Op S) → RT S × List (RT S × Val S)
  | [] => (s, [])
  | op :: ops =>
    let r := step cfg draws s op
    let rs := run cfg draws r.1 ops
    (rs.1, r :: rs.2)

/-- the final state of a history -/
def exec (cfg : Config S) (draws : Nat → S) (s : RT S) (ops : List (Op S)) : RT S :=
  ops.foldl (fun s op => (step cfg draws s op).1) s

end RandomTrip
