import GradysModel.Scalar
/-
  Model of `gradysim/simulator/extension/camera.py` (`_camera_direction_unit_vector`,
  `take_picture`, and — section "several cameras" — the constructor and `change_facing` with the
  configuration object held by reference), generic in the scalar, same operation order, with the
  repaired clamp of the cosine.  `acos?` is partial exactly as `math.acos` is, so "never fails" is a theorem about the
  model, not an artefact of totalisation.
-/
namespace Camera
variable {S : Type} [Scalar S]

structure Config (S : Type) where
  reach : S
  thetaDeg : S
  elevationDeg : S
  rotationDeg : S
  /-- the literal `1e-6` of the source, read from the implementation at run time -/
  tol : S

def axis (c : Config S) : V3 S :=
  let incl := Scalar.radians c.elevationDeg
  let rot := Scalar.radians c.rotationDeg
  ⟨Scalar.mul (Scalar.sin incl) (Scalar.cos rot),
   Scalar.mul (Scalar.sin incl) (Scalar.sin rot),
   Scalar.cos incl⟩

inductive Verdict | detected | outOfReach | outOfAngle | error
deriving Repr, DecidableEq

/-- the decision for one other node at position `other`, camera at `self`. -/
def judge (c : Config S) (self other : V3 S) : Verdict :=
  let cv := axis c
  let theta := Scalar.radians c.thetaDeg
  let rel : V3 S := ⟨Scalar.sub other.x self.x, Scalar.sub other.y self.y, Scalar.sub other.z self.z⟩
  let distance := Scalar.sqrt (Scalar.add (Scalar.add (Scalar.sq rel.x) (Scalar.sq rel.y)) (Scalar.sq rel.z))
  if Scalar.gt distance c.reach then .outOfReach
  else if Scalar.gt distance (Scalar.ofInt 0) then
    let n : V3 S := ⟨Scalar.div rel.x distance, Scalar.div rel.y distance, Scalar.div rel.z distance⟩
    let dot := Scalar.add (Scalar.add (Scalar.mul cv.x n.x) (Scalar.mul cv.y n.y)) (Scalar.mul cv.z n.z)
    let clamped := Scalar.max (Scalar.neg (Scalar.ofInt 1)) (Scalar.min (Scalar.ofInt 1) dot)
    match Scalar.acos? clamped with
    | none => .error
    | some ac =>
      let angle := Scalar.sub ac c.tol
      if Scalar.gt angle theta then .outOfAngle else .detected
  else .detected

/-- `take_picture()`: `nodes` = the mobility handler's nodes in registration order as (id, position);
    returns the reported positions, or `none` if `math.acos` would raise. -/
def takePicture (c : Config S) (selfId : Nat) (self : V3 S) (nodes : List (Nat × V3 S)) :
    Option (List (Nat × V3 S)) :=
  let others := nodes.filter (fun p => p.1 != selfId)
  others.foldlM (fun acc p =>
    match judge c self p.2 with
    | .detected => some (acc ++ [p])
    | .error => none
    | _ => some acc) []

/-! ### several cameras: configuration objects held by reference, `change_facing`

`CameraHardware.__init__` stores the caller's `CameraConfiguration` OBJECT (`self._configuration =
configuration`), computes `_camera_vector` from its two facing angles and `_camera_theta` from its
cone angle, once.  `change_facing` writes the two new angles INTO THAT OBJECT — which other cameras
may hold too — and recomputes `_camera_vector` of this camera only.  `take_picture` reads the reach
from the object at picture time, the axis and the cone angle from the camera's own cached state. -/

/-- one `CameraHardware` instance: the node it is mounted on, WHICH configuration object it holds,
    and its own cached state — `_camera_vector`, represented by the two angles it was last computed
    from (`axis` is a function of them), and `_camera_theta` (degrees before `radians`). -/
structure Cam (S : Type) where
  selfId : Nat
  conf : Nat
  elevationDeg : S
  rotationDeg : S
  thetaDeg : S

/-- the configuration objects (a heap, addressed by index) and the cameras built so far -/
structure Fleet (S : Type) where
  confs : List (Config S)
  cams : List (Cam S)

/-- `CameraHardware(protocol_of(selfId), confs[k])`; the new camera is the last one -/
def Fleet.construct (f : Fleet S) (selfId k : Nat) : Fleet S :=
  match f.confs[k]? with
  | none => f
  | some c => { f with cams := f.cams ++ [⟨selfId, k, c.elevationDeg, c.rotationDeg, c.thetaDeg⟩] }

/-- `cams[i].change_facing(elev, rot)` -/
def Fleet.changeFacing (f : Fleet S) (i : Nat) (elev rot : S) : Fleet S :=
  match f.cams[i]? with
  | none => f
  | some cam =>
    { confs := f.confs.modify cam.conf (fun c => { c with elevationDeg := elev, rotationDeg := rot }),
      cams := f.cams.modify i (fun c => { c with elevationDeg := elev, rotationDeg := rot }) }

/-- what `cams[i].take_picture()` works with: its node, and reach (and the literal tolerance) of the
    configuration object as it is NOW, axis and cone angle of the camera's own cached state. -/
def Fleet.view (f : Fleet S) (i : Nat) : Option (Nat × Config S) :=
  match f.cams[i]? with
  | none => none
  | some cam =>
    match f.confs[cam.conf]? with
    | none => none
    | some c => some (cam.selfId, { reach := c.reach, thetaDeg := cam.thetaDeg,
                                    elevationDeg := cam.elevationDeg, rotationDeg := cam.rotationDeg,
                                    tol := c.tol })

/-- `cams[i].take_picture()`; `self` = current position of the camera's node.  `none`: no such
    camera, or `math.acos` would raise. -/
def Fleet.takePicture (f : Fleet S) (i : Nat) (self : V3 S) (nodes : List (Nat × V3 S)) :
    Option (List (Nat × V3 S)) :=
  match f.view i with
  | none => none
  | some (selfId, c) => Camera.takePicture c selfId self nodes

end Camera
