import GradysModel.Scalar
/-
  Model of `gradysim/simulator/extension/camera.py` (`_camera_direction_unit_vector`,
  `take_picture`), generic in the scalar, same operation order, with the repaired clamp of the
  cosine.  `acos?` is partial exactly as `math.acos` is, so "never fails" is a theorem about the
  model, not an artefact of totalisation.
-/
namespace Camera
variable {S : Type} [Scalar S]

structure Config (S : Type) where
  reach : S
  thetaDeg : S
  elevationDeg : S
  rotationDeg : S
  /-- the literal `1e-6` of the source, read from the implementation at run time -/
  tol : S

def axis (c : Config S) : V3 S :=
  let incl := Scalar.radians c.elevationDeg
  let rot := Scalar.radians c.rotationDeg
  ⟨Scalar.mul (Scalar.sin incl) (Scalar.cos rot),
   Scalar.mul (Scalar.sin incl) (Scalar.sin rot),
   Scalar.cos incl⟩

inductive Verdict | detected | outOfReach | outOfAngle | error
deriving Repr, DecidableEq

/-- the decision for one other node at position `other`, camera at `self`. -/
def judge (c : Config S) (self other : V3 S) : Verdict :=
  let cv := axis c
  let theta := Scalar.radians c.thetaDeg
  let rel : V3 S := ⟨Scalar.sub other.x self.x, Scalar.sub other.y self.y, Scalar.sub other.z self.z⟩
  let distance := Scalar.sqrt (Scalar.add (Scalar.add (Scalar.sq rel.x) (Scalar.sq rel.y)) (Scalar.sq rel.z))
  if Scalar.gt distance c.reach then .outOfReach
  else if Scalar.gt distance (Scalar.ofInt 0) then
    let n : V3 S := ⟨Scalar.div rel.x distance, Scalar.div rel.y distance, Scalar.div rel.z distance⟩
    let dot := Scalar.add (Scalar.add (Scalar.mul cv.x n.x) (Scalar.mul cv.y n.y)) (Scalar.mul cv.z n.z)
    let clamped := Scalar.max (Scalar.neg (Scalar.ofInt 1)) (Scalar.min (Scalar.ofInt 1) dot)
    match Scalar.acos? clamped with
    | none => .error
    | some ac =>
      let angle := Scalar.sub ac c.tol
      if Scalar.gt angle theta then .outOfAngle else .detected
  else .detected

/-- `take_picture()`: `nodes` = the mobility handler's nodes in registration order as (id, position);
    returns the reported positions, or `none` if `math.acos` would raise. -/
def takePicture (c : Config S) (selfId : Nat) (self : V3 S) (nodes : List (Nat × V3 S)) :
    Option (List (Nat × V3 S)) :=
  let others := nodes.filter (fun p => p.1 != selfId)
  others.foldlM (fun acc p =>
    match judge c self p.2 with
    | .detected => some (acc ++ [p])
    | .error => none
    | _ => some acc) []

end Camera
