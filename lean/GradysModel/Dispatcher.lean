/-
  Model of `gradysim/protocol/plugin/dispatcher.py` (REPAIRED semantics, findings F15a / F15b):

  * `_protocol_wrappers` is a registry  protocol instance ↦ wrapper; a wrapper is five call chains
    (initialize, timer, telemetry, packet, finish), each ending with the protocol's own method;
  * `register_*` inserts at the front, `unregister_*` is `list.remove` (first occurrence, raises
    `ValueError` when absent, nothing changed);
  * the wrapped method iterates a SNAPSHOT of the chain taken when the dispatch begins
    (`for handler in list(queue)`), and honours `DispatchReturn.INTERRUPT` for timer / telemetry /
    packet only (`interruptible=False` for initialize / finish);
  * `create_dispatcher` returns the existing wrapper of an already wrapped instance.

  Handlers are arbitrary Python callables; in the model a callee is a *behaviour*: on its k-th
  invocation it performs a scripted list of (un)registrations on the instance it runs for
  (re-entrancy) and returns CONTINUE / INTERRUPT / None.  Theorems quantify over all behaviours.
  Core Lean only.
-/

namespace Disp

/-- the five wrapped methods of `IProtocol` -/
inductive Kind
  | initialize | timer | telemetry | packet | finish
deriving DecidableEq, Repr

/-- `interruptible` flag passed to `_wrap_functionality` -/
def Kind.interruptible : Kind → Bool
  | .timer => true
  | .telemetry => true
  | .packet => true
  | .initialize => false
  | .finish => false

/-- what a callee returns: `DispatchReturn.CONTINUE`, `DispatchReturn.INTERRUPT`, or `None` -/
inductive Ret
  | cont | interrupt | none
deriving DecidableEq, Repr

/-- an element of a call chain: a registered handler (identified by a number) or the protocol's
    own method (`getattr(protocol, functionality).__func__`) -/
inductive Entry
  | h (id : Nat)
  | own
deriving DecidableEq, Repr

/-- the five chains of one `ProtocolWrapper` (`_handle_initialize_chain`, ..., `_finish_queue_chain`) -/
structure Chains where
  initC : List Entry
  timerC : List Entry
  telemetryC : List Entry
  packetC : List Entry
  finishC : List Entry
deriving Repr

namespace Chains

/-- the chain of kind `k`; `c k` is notation for `c.get k` -/
def get (c : Chains) : Kind → List Entry
  | .initialize => c.initC
  | .timer => c.timerC
  | .telemetry => c.telemetryC
  | .packet => c.packetC
  | .finish => c.finishC

instance : CoeFun Chains (fun _ => Kind → List Entry) := ⟨Chains.get⟩

/-- `ProtocolWrapper.__init__`: every chain holds just the protocol's own method -/
def fresh : Chains := ⟨[.own], [.own], [.own], [.own], [.own]⟩

def set (c : Chains) (k : Kind) (l : List Entry) : Chains :=
  match k with
  | .initialize => { c with initC := l }
  | .timer => { c with timerC := l }
  | .telemetry => { c with telemetryC := l }
  | .packet => { c with packetC := l }
  | .finish => { c with finishC := l }

/-- `register_<kind>(handler)`: `chain.insert(0, handler)` -/
def register (c : Chains) (k : Kind) (h : Nat) : Chains := c.set k (.h h :: c k)

/-- `unregister_<kind>(handler)`: `chain.remove(handler)`; `none` = `ValueError` -/
def unregister (c : Chains) (k : Kind) (h : Nat) : Option Chains :=
  if Entry.h h ∈ c k then some (c.set k ((c k).erase (.h h))) else none

end Chains

/-- one invocation made by a dispatch, with whatever the callee's semantics wants to record -/
structure Call (β : Type) where
  entry : Entry
  ret : Ret
  info : β
deriving Repr

/-- `wrapped_functionality`: walk down a chain (already a snapshot: a value, not a reference),
    threading the state through the callees, stopping after the first INTERRUPT when the kind is
    interruptible.  Generic in the state and in the callee semantics `f`, so that plugins built
    on the dispatcher (RandomTrip) reuse it. -/
def walk {σ β : Type} (f : Entry → σ → σ × Ret × β) (intr : Bool) :
    List Entry → σ → σ × List (Call β)
  | [], s => (s, [])
  | e :: es, s =>
    let r := f e s
    if intr && r.2.1 == Ret.interrupt then (r.1, [⟨e, r.2.1, r.2.2⟩])
    else
      let w := walk f intr es r.1
      (w.1, ⟨e, r.2.1, r.2.2⟩ :: w.2)

/-- `_protocol_wrappers`: protocol instance (a number) ↦ its wrapper -/
abbrev Registry := Nat → Option Chains

/-- result of a (un)registration request -/
inductive Res
  | ok
  | absent         -- `ValueError` from `list.remove`
  | nodispatcher   -- no wrapper exists for that instance (nothing to call)
deriving DecidableEq, Repr

namespace Registry

def empty : Registry := fun _ => none

def upd (r : Registry) (p : Nat) (c : Chains) : Registry := fun q => if q = p then some c else r q

/-- `create_dispatcher(protocol)` -/
def create (r : Registry) (p : Nat) : Registry :=
  match r p with
  | some _ => r
  | none => r.upd p Chains.fresh

def register (r : Registry) (p : Nat) (k : Kind) (h : Nat) : Registry × Res :=
  match r p with
  | none => (r, .nodispatcher)
  | some c => (r.upd p (c.register k h), .ok)

def unregister (r : Registry) (p : Nat) (k : Kind) (h : Nat) : Registry × Res :=
  match r p with
  | none => (r, .nodispatcher)
  | some c =>
    match c.unregister k h with
    | none => (r, .absent)
    | some c' => (r.upd p c', .ok)

/-- the chain a call of method `k` on instance `p` walks: the wrapper's chain, or just the
    protocol's own (unwrapped) method -/
def chain (r : Registry) (p : Nat) (k : Kind) : List Entry :=
  match r p with
  | some c => c k
  | none => [.own]

end Registry

/-- a (un)registration performed from inside a running callee, on the instance it runs for -/
inductive ROp
  | reg (k : Kind) (h : Nat)
  | unreg (k : Kind) (h : Nat)
deriving DecidableEq, Repr

def Registry.applyROp (r : Registry) (p : Nat) : ROp → Registry × Res
  | .reg k h => r.register p k h
  | .unreg k h => r.unregister p k h

/-- the registry after a list of re-entrant requests (results dropped) -/
def Registry.after (r : Registry) (p : Nat) : List ROp → Registry
  | [] => r
  | o :: os => Registry.after (r.applyROp p o).1 p os

/-- who is being invoked: a handler closure, or the own method `k` of instance `p` -/
inductive Callee
  | handler (h : Nat)
  | own (p : Nat) (k : Kind)
deriving DecidableEq, Repr

structure Script where
  ops : List ROp
  ret : Ret
deriving Repr

/-- behaviour of every callee: what it does on its n-th invocation (n = 0, 1, ...) -/
abbrev Beh := Callee → Nat → Script

/-- dispatcher world: the registry, the invocation counters of the callees, and a ghost log of
    every successful registration `(instance, kind, handler)`, newest first -/
structure DState where
  reg : Registry
  calls : Callee → Nat
  regLog : List (Nat × Kind × Nat)

namespace DState

def init : DState := { reg := Registry.empty, calls := fun _ => 0, regLog := [] }

/-- `create_dispatcher(protocol)`; the registry component is `Registry.create` (lemma
    `DState.create_reg`).  Written with the lookup outside the registry function so that the compiled
    driver evaluates it once (a function-valued `Registry.create` would redo it on every lookup). -/
def create (s : DState) (p : Nat) : DState :=
  match s.reg p with
  | some _ => s
  | none => { s with reg := s.reg.upd p Chains.fresh }

def register (s : DState) (p : Nat) (k : Kind) (h : Nat) : DState × Res :=
  let r := s.reg.register p k h
  ({ s with reg := r.1, regLog := if r.2 = .ok then (p, k, h) :: s.regLog else s.regLog }, r.2)

def unregister (s : DState) (p : Nat) (k : Kind) (h : Nat) : DState × Res :=
  let r := s.reg.unregister p k h
  ({ s with reg := r.1 }, r.2)

def applyROp (s : DState) (p : Nat) : ROp → DState × Res
  | .reg k h => s.register p k h
  | .unreg k h => s.unregister p k h

/-- run a callee's scripted requests in order, each in its own `try/except`; results recorded -/
def applyROps (p : Nat) : DState → List ROp → DState × List (ROp × Res)
  | s, [] => (s, [])
  | s, o :: os =>
    let r := s.applyROp p o
    let rs := applyROps p r.1 os
    (rs.1, (o, r.2) :: rs.2)

def bump (s : DState) (c : Callee) : DState :=
  { s with calls := fun c' => if c' = c then s.calls c + 1 else s.calls c' }

end DState

def calleeOf (p : Nat) (k : Kind) : Entry → Callee
  | .h id => .handler id
  | .own => .own p k

/-- per-call record of the dispatcher: invocation number and the re-entrant requests with results -/
structure CallInfo where
  n : Nat
  rops : List (ROp × Res)
deriving Repr

/-- one callee invocation during a dispatch of kind `k` on instance `p` -/
def invoke (beh : Beh) (p : Nat) (k : Kind) (e : Entry) (s : DState) : DState × Ret × CallInfo :=
  let c := calleeOf p k e
  let n := s.calls c
  let sc := beh c n
  let r := (s.bump c).applyROps p sc.ops
  (r.1, sc.ret, ⟨n, r.2⟩)

/-- calling method `k` of protocol instance `p` -/
def dispatch (beh : Beh) (s : DState) (p : Nat) (k : Kind) : DState × List (Call CallInfo) :=
  walk (invoke beh p k) k.interruptible (s.reg.chain p k) s

/-- the re-entrant requests performed during a dispatch, in order -/
def performed (calls : List (Call CallInfo)) : List ROp :=
  calls.flatMap (fun c => c.info.rops.map (·.1))

/-- one operation of a history -/
inductive Op
  | create (p : Nat)
  | register (p : Nat) (k : Kind) (h : Nat)
  | unregister (p : Nat) (k : Kind) (h : Nat)
  | dispatch (p : Nat) (k : Kind)
deriving Repr

def Op.inst : Op → Nat
  | .create p => p
  | .register p _ _ => p
  | .unregister p _ _ => p
  | .dispatch p _ => p

inductive Out
  | created (existed : Bool)
  | res (r : Res)
  | calls (l : List (Call CallInfo))
deriving Repr

def step (beh : Beh) (s : DState) : Op → DState × Out
  | .create p => (s.create p, .created (s.reg p).isSome)
  | .register p k h => let r := s.register p k h; (r.1, .res r.2)
  | .unregister p k h => let r := s.unregister p k h; (r.1, .res r.2)
  | .dispatch p k => let r := dispatch beh s p k; (r.1, .calls r.2)

/-- a whole history; outputs in call order -/
def run (beh : Beh) (s : DState) : List Op → DState × List Out
  | [] => (s, [])
  | op :: ops =>
    let r := step beh s op
    let rs := run beh r.1 ops
    (rs.1, r.2 :: rs.2)


/-!
  ### callees that call the protocol's methods themselves (nested dispatch)

  A handler may call `instance.handle_timer(...)` / `handle_packet(...)` / ... again while a dispatch
  is running (a watchdog raising a synthetic timer, an envelope handler re-delivering its payload), and
  a protocol may ask for its dispatcher for the first time from inside a callback.  The nested call goes
  through the same wrapped method: it takes its OWN snapshot of the chain as it stands then, walks it,
  and returns to the caller, whose own walk goes on over the snapshot it took when it began.

  The callee semantics handed to the generic `walk` is now itself defined with `walk` one nesting
  level down; `fuel` bounds the nesting depth (a model artefact: behaviours are arbitrary functions,
  so a callee could re-dispatch forever; `Ev.outOfFuel` marks where the bound was hit).
-/

/-- what a callee may do before it returns -/
inductive NOp
  | req (o : ROp)             -- a (un)registration on the instance it runs for
  | create                    -- `create_dispatcher(instance)` from inside the callback
  | dispatch (k : Kind)       -- call method `k` of the instance it runs for
deriving DecidableEq, Repr

structure NScript where
  ops : List NOp
  ret : Ret
deriving Repr

abbrev NBeh := Callee → Nat → NScript

/-- the trace of a call of a protocol method, nested calls included, in order of occurrence -/
inductive Ev
  | call (e : Entry) (n : Nat)
  | req (o : ROp) (r : Res)
  | created (existed : Bool)
  | beginD (k : Kind)
  | endD (k : Kind)
  | ret (e : Entry) (r : Ret)
  | outOfFuel (k : Kind)
deriving DecidableEq, Repr

/-- dispatcher world plus the trace so far (newest first) -/
structure NState where
  d : DState
  log : List Ev

/-- the scripted actions of one invocation, in order; `nested s k` = "call method `k` of this instance" -/
def runNOps (nested : NState → Kind → NState) (p : Nat) : NState → List NOp → NState
  | s, [] => s
  | s, .req o :: os =>
    let r := s.d.applyROp p o
    runNOps nested p ⟨r.1, .req o r.2 :: s.log⟩ os
  | s, .create :: os =>
    runNOps nested p ⟨s.d.create p, .created (s.d.reg p).isSome :: s.log⟩ os
  | s, .dispatch k :: os =>
    let s1 := nested ⟨s.d, .beginD k :: s.log⟩ k
    runNOps nested p ⟨s1.d, .endD k :: s1.log⟩ os

/-- one callee invocation during a call of method `k` on instance `p` -/
def invokeN (beh : NBeh) (nested : NState → Kind → NState) (p : Nat) (k : Kind) (e : Entry) (s : NState) :
    NState × Ret × Unit :=
  let c := calleeOf p k e
  let n := s.d.calls c
  let sc := beh c n
  let s1 := runNOps nested p ⟨s.d.bump c, .call e n :: s.log⟩ sc.ops
  (⟨s1.d, .ret e sc.ret :: s1.log⟩, sc.ret, ())

/-- calling method `k` of protocol instance `p`, callees allowed `fuel - 1` further levels of nesting:
    the chain is read ONCE, when the call begins (`s.d.reg.chain p k` is a value), and walked -/
def dispatchN (beh : NBeh) : Nat → NState → Nat → Kind → NState × List (Call Unit)
  | 0, s, _, k => (⟨s.d, .outOfFuel k :: s.log⟩, [])
  | fuel + 1, s, p, k =>
    walk (invokeN beh (fun s' k' => (dispatchN beh fuel s' p k').1) p k) k.interruptible (s.d.reg.chain p k) s

inductive OutN
  | created (existed : Bool)
  | res (r : Res)
  | events (l : List Ev)
deriving Repr

def stepN (beh : NBeh) (fuel : Nat) (s : DState) : Op → DState × OutN
  | .create p => (s.create p, .created (s.reg p).isSome)
  | .register p k h => let r := s.register p k h; (r.1, .res r.2)
  | .unregister p k h => let r := s.unregister p k h; (r.1, .res r.2)
  | .dispatch p k => let r := dispatchN beh fuel ⟨s, []⟩ p k; (r.1.d, .events r.1.log.reverse)

def runN (beh : NBeh) (fuel : Nat) (s : DState) : List Op → DState × List OutN
  | [] => (s, [])
  | op :: ops =>
    let r := stepN beh fuel s op
    let rs := runN beh fuel r.1 ops
    (rs.1, r.2 :: rs.2)

/-- a behaviour of the first model as one of this model: the same requests, nothing else -/
def Beh.lift (beh : Beh) : NBeh := fun c n => ⟨(beh c n).ops.map NOp.req, (beh c n).ret⟩

end Disp
