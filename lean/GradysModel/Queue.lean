/-
  Model of `gradysim/simulator/event.py` (Event, EventLoop).

  Simulated time is `Int` ticks (see DESIGN 2.2: the harness only generates dyadic float times,
  for which float `+`/`<` are exact, so the float clock and the tick clock are the same function).

  The heap is modelled by what `heapq` computes for the strict total order
  `(timestamp, sequence)`: a list kept sorted with *stable* insertion (a new event goes after
  every queued event whose timestamp is `≤` its own) and `pop` = head.  `seq` is the scheduling
  order (the repaired `Event.sequence`); it is never compared by the correspondence.
  `GradysModel/Heap.lean` contains the faithful port of `heapq.py` and the event loop `HEL` on it;
  `C03_heapq_refines_sorted_queue` proves that `HEL` and the `EL` below give the same outputs on
  every history of API calls (so the sorted list is not an assumption about `heapq`).
-/

structure Ev (K : Type) where
  ts : Int
  seq : Nat
  kind : K
deriving Repr

/-- stable insertion: after all events with `ts ≤ e.ts` -/
def insertEv {K : Type} (e : Ev K) : List (Ev K) → List (Ev K)
  | [] => [e]
  | x :: xs => if x.ts ≤ e.ts then x :: insertEv e xs else e :: x :: xs

/-- `EventLoop`: `_current_time`, `_event_heap`, and the sequence counter. -/
structure EL (K : Type) where
  now : Int
  queue : List (Ev K)
  nextSeq : Nat
deriving Repr

inductive ELErr
  | past    -- EventLoopException: tried to schedule earlier than the current time
  | empty   -- EventLoopException: pop on an empty queue
deriving Repr, DecidableEq

namespace EL
variable {K : Type}

def empty : EL K := { now := 0, queue := [], nextSeq := 0 }

/-- `EventLoop.schedule_event(timestamp, callback)` -/
def schedule (l : EL K) (ts : Int) (k : K) : Except ELErr (EL K) :=
  if ts < l.now then .error .past
  else .ok { l with queue := insertEv ⟨ts, l.nextSeq, k⟩ l.queue, nextSeq := l.nextSeq + 1 }

/-- total variant used by the simulator model where the guard is known (`ts ≥ now`) or checked
    by the caller; identical to `schedule` on accepted requests. -/
def push (l : EL K) (ts : Int) (k : K) : EL K :=
  { l with queue := insertEv ⟨ts, l.nextSeq, k⟩ l.queue, nextSeq := l.nextSeq + 1 }

/-- `EventLoop.pop_event()` -/
def pop (l : EL K) : Except ELErr (Ev K × EL K) :=
  match l.queue with
  | [] => .error .empty
  | e :: rest => .ok (e, { l with queue := rest, now := e.ts })

/-- `EventLoop.peek_event()` -/
def peek (l : EL K) : Option (Ev K) := l.queue.head?

/-- `EventLoop.clear()` -/
def clear (l : EL K) : EL K := { l with queue := [] }

/-- `len(event_loop)` -/
def len (l : EL K) : Nat := l.queue.length

end EL

/-- one operation of the public `EventLoop` API -/
inductive ELOp (K : Type)
  | schedule (ts : Int) (k : K)
  | pop
  | peek
  | clear
  | len
  | now
deriving Repr

inductive ELOut (K : Type)
  | ok
  | err (e : ELErr)
  | ev (e : Option (Ev K))
  | num (n : Int)
deriving Repr

namespace EL
variable {K : Type}

/-- apply one API call; a refused call returns the unchanged loop beside the error -/
def apply (l : EL K) : ELOp K → EL K × ELOut K
  | .schedule ts k =>
    match l.schedule ts k with
    | .ok l' => (l', .ok)
    | .error e => (l, .err e)
  | .pop =>
    match l.pop with
    | .ok (e, l') => (l', .ev (some e))
    | .error e => (l, .err e)
  | .peek => (l, .ev l.peek)
  | .clear => (l.clear, .ok)
  | .len => (l, .num l.len)
  | .now => (l, .num l.now)

/-- a whole history; outputs in call order -/
def run (l : EL K) : List (ELOp K) → EL K × List (ELOut K)
  | [] => (l, [])
  | op :: ops =>
    let r := l.apply op
    let rs := run r.1 ops
    (rs.1, r.2 :: rs.2)

end EL
