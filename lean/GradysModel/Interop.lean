import GradysModel.Sim
/-
  Model of the two environment wrappers and of the simulator-only extensions:
    gradysim/encapsulator/interop.py   (InteropProvider, InteropEncapsulator, ConsequenceType)
    gradysim/encapsulator/python.py    (PythonProvider forwarding, PythonEncapsulator)
    gradysim/simulator/extension/extension.py            (Extension.__init__: non-python provider -> None)
    gradysim/simulator/extension/camera.py               (the no-op decision only; geometry is Camera.lean)
    gradysim/simulator/extension/communication_controller.py
    gradysim/simulator/extension/visualization_controller.py

  ONE program (an interaction tree, as in Sim.lean) is run against TWO environments; an environment
  is just "what a provider call does to the wrapper's state and whether it returns or raises".
  The extension constructors are modelled REPAIRED (handler attribute defaults to None; F14a).
  `cancel_timer` under interop raises NotImplementedError: a refused request that appends nothing;
  a protocol that does not catch it lets the exception escape (`XProg.raise`), which is the model of
  the real behaviour behind finding F14b.
-/

deriving instance DecidableEq for Request
deriving instance DecidableEq for Callback

namespace Interop

/-- the public methods of the three extensions (payloads do not matter for the no-op decision;
    `CommunicationController.set_transmission_range` is `Request.setRange`) -/
inductive ExtCall
  | cameraTakePicture
  | cameraChangeFacing
  | visPaintNode
  | visPaintEnvironment
  | visResizeNodes
  | visShowNodeId
deriving Repr, DecidableEq

/-- everything a protocol can do to its environment inside a callback -/
inductive Act (S : Type)
  /-- an `IProvider` request (or `set_transmission_range`) -/
  | req (r : Request S)
  /-- `provider.tracked_variables[key] = value` -/
  | track (key value : String)
  /-- a method of a camera / visualization extension object -/
  | ext (c : ExtCall)
deriving Repr, DecidableEq

/-- what one callback does.  `Prog` of Sim.lean plus tracked-variable writes, extension calls and
    `raise`: an exception escapes the callback (protocol-local state as left behind). -/
inductive XProg (S σ : Type)
  | done (s : σ)
  | act (a : Act S) (k : Bool → XProg S σ)
  | raise (s : σ)

structure XProto (S σ : Type) where
  init : σ
  react : σ → NodeId → Int → Callback S → XProg S σ

/-- every `Prog` of Sim.lean is such a program (it catches every refusal, never raises) -/
def XProg.ofProg {S σ : Type} : Prog S σ → XProg S σ
  | .done s => .done s
  | .req r k => .act (.req r) (fun b => XProg.ofProg (k b))

def XProto.ofProto {S σ : Type} (P : Proto S σ) : XProto S σ :=
  { init := P.init, react := fun s n t cb => XProg.ofProg (P.react s n t cb) }

/-- a program that performs the listed actions whatever happens and ends in state `s` -/
def XProg.ofList {S σ : Type} (s : σ) : List (Act S) → XProg S σ
  | [] => .done s
  | a :: as => .act a (fun _ => XProg.ofList s as)

/-- protocols whose continuation never depends on acceptance -/
structure LProto (S σ : Type) where
  init : σ
  next : σ → NodeId → Int → Callback S → σ
  acts : σ → NodeId → Int → Callback S → List (Act S)

def LProto.toX {S σ : Type} (P : LProto S σ) : XProto S σ :=
  { init := P.init, react := fun s n t cb => XProg.ofList (P.next s n t cb) (P.acts s n t cb) }

/-- `p`, then `f` on the state `p` ends in; an exception escaping `p` escapes the whole (`g`: the
    state left behind) -/
def XProg.bind {S α β : Type} : XProg S α → (α → XProg S β) → (α → β) → XProg S β
  | .done a, f, _ => f a
  | .raise a, _, g => .raise (g a)
  | .act x k, f, g => .act x (fun b => XProg.bind (k b) f g)

/-! ### handlers plugged in front of a protocol's callbacks

  `gradysim/protocol/plugin/dispatcher.py`: `create_dispatcher(protocol)` replaces the five callback
  methods OF THE INSTANCE by a chain: the registered handlers, the one registered last first, then the
  protocol's own method; a handler of `handle_timer / handle_packet / handle_telemetry` that answers
  INTERRUPT ends the chain (C15 is about the chain itself).  Every stock plugin is built this way, and
  a protocol creates its plugins in `initialize()` — after the wrapper has instantiated it.  For the
  wrappers this is just another protocol: `XProto.plugged`. -/

/-- a registered handler: what it does in a callback, ending in the protocol-local state and its
    answer (`true` = INTERRUPT) -/
structure Stage (S σ : Type) where
  react : σ → NodeId → Int → Callback S → XProg S (σ × Bool)

/-- the callbacks whose chain a handler can interrupt (`initialize` and `finish` always run through) -/
def interruptible {S : Type} : Callback S → Bool
  | .timer _ => true
  | .packet _ => true
  | .telemetry _ => true
  | _ => false

/-- the wrapped method: handlers in chain order, then the protocol's own method -/
def chainProg {S σ : Type} (own : σ → XProg S σ) (intr : Bool) : List (σ → XProg S (σ × Bool)) → σ → XProg S σ
  | [], s => own s
  | h :: hs, s => XProg.bind (h s) (fun r => if intr && r.2 then .done r.1 else chainProg own intr hs r.1) (·.1)

/-- the protocol `P` with `chain` (in chain order: newest first) in front of its callbacks whenever
    the instance's methods are wrapped (`on s`: the dispatcher has been created — protocol-local) -/
def XProto.plugged {S σ : Type} (P : XProto S σ) (on : σ → Bool) (chain : List (Stage S σ)) : XProto S σ :=
  { init := P.init,
    react := fun s n t cb =>
      if on s then
        chainProg (fun s' => P.react s' n t cb) (interruptible cb) (chain.map (fun h s' => h.react s' n t cb)) s
      else P.react s n t cb }

/-- a handler whose actions, state change and answer do not depend on acceptance -/
structure LStage (S σ : Type) where
  next : σ → NodeId → Int → Callback S → σ
  acts : σ → NodeId → Int → Callback S → List (Act S)
  /-- `true` = INTERRUPT -/
  stop : σ → NodeId → Int → Callback S → Bool

def LStage.toStage {S σ : Type} (h : LStage S σ) : Stage S σ :=
  { react := fun s n t cb => XProg.ofList (h.next s n t cb, h.stop s n t cb) (h.acts s n t cb) }

/-- the chain of acceptance-independent handlers as ONE list of actions: (state after, actions) -/
def chainL {S σ : Type} (ownNext : σ → σ) (ownActs : σ → List (Act S)) (intr : Bool) :
    List (σ → (σ × Bool) × List (Act S)) → σ → σ × List (Act S)
  | [], s => (ownNext s, ownActs s)
  | h :: hs, s =>
    if intr && (h s).1.2 then ((h s).1.1, (h s).2)
    else ((chainL ownNext ownActs intr hs (h s).1.1).1, (h s).2 ++ (chainL ownNext ownActs intr hs (h s).1.1).2)

/-- an acceptance-independent protocol with acceptance-independent handlers plugged in front -/
def LProto.plugged {S σ : Type} (P : LProto S σ) (on : σ → Bool) (chain : List (LStage S σ)) : LProto S σ :=
  let run := fun s n t cb =>
    chainL (fun s' => P.next s' n t cb) (fun s' => P.acts s' n t cb) (interruptible cb)
      (chain.map (fun h s' => ((h.next s' n t cb, h.stop s' n t cb), h.acts s' n t cb))) s
  { init := P.init,
    next := fun s n t cb => if on s then (run s n t cb).1 else P.next s n t cb,
    acts := fun s n t cb => if on s then (run s n t cb).2 else P.acts s n t cb }

inductive Outcome (σ : Type)
  | returned (s : σ)
  | raised (s : σ)
deriving Repr, DecidableEq

def Outcome.state {σ : Type} : Outcome σ → σ
  | .returned s => s
  | .raised s => s

def Outcome.isReturned {σ : Type} : Outcome σ → Bool
  | .returned _ => true
  | .raised _ => false

/-- result of running one callback's program against an environment with state `ε` -/
structure RunRes (S σ ε : Type) where
  env : ε
  out : Outcome σ
  /-- every action performed, in order, with whether the call returned (`true`) or raised -/
  transcript : List (Act S × Bool)

/-- run a program against the environment `h` ("a provider call in state e") -/
def XProg.run {S σ ε : Type} (h : ε → Act S → ε × Bool) : XProg S σ → ε → RunRes S σ ε
  | .done s, e => ⟨e, .returned s, []⟩
  | .raise s, e => ⟨e, .raised s, []⟩
  | .act a k, e =>
    let r := h e a
    let rest := XProg.run h (k r.2) r.1
    ⟨rest.env, rest.out, (a, r.2) :: rest.transcript⟩

/-! ### the extensions (repaired constructors) -/
namespace Ext

/-- what `protocol.provider` is: a `PythonProvider` with its `handlers` dict, or anything else -/
inductive Provider
  | python (handlers : String → Bool)
  | other

/-- `Extension.__init__`: `self._provider` is the provider iff it is a `PythonProvider` -/
def provider? : Provider → Option (String → Bool)
  | .python hs => some hs
  | .other => none

/-- the handler attribute of an extension object (`_mobility`, `_communication`,
    `_visualization_handler`): REPAIRED — it defaults to None and is looked up only when
    `_provider` is not None.  `true` = a handler object is present. -/
def handler? (p : Provider) (label : String) : Bool :=
  match provider? p with
  | some hs => hs label
  | none => false

/-- the handler an extension method talks to -/
def labelOf : ExtCall → String
  | .cameraTakePicture => "mobility"
  | .cameraChangeFacing => "mobility"
  | .visPaintNode => "visualization"
  | .visPaintEnvironment => "visualization"
  | .visResizeNodes => "visualization"
  | .visShowNodeId => "visualization"

/-- observable result of an extension method call -/
structure Result where
  /-- the call returned (did not raise) -/
  ok : Bool
  /-- the handler was touched (positions read, a command queued, a range written) -/
  touchesHandler : Bool
  /-- the return value is the neutral one (`[]` for `take_picture`, `None` otherwise) -/
  neutral : Bool
deriving Repr, DecidableEq

/-- camera and visualization methods: `if self._handler is None: return <neutral>` -/
def call (p : Provider) (c : ExtCall) : Result :=
  match c with
  | .cameraChangeFacing => ⟨true, false, true⟩          -- only the object's own fields change
  | .cameraTakePicture =>
    if handler? p "mobility" then ⟨true, true, false⟩ else ⟨true, false, true⟩
  | c => if handler? p (labelOf c) then ⟨true, true, true⟩ else ⟨true, false, true⟩

/-- the lists `take_picture()` has handed out so far, oldest first (entries: node ids).  A returned
    list belongs to its caller, who may complete, sort or empty it: the album is whatever the callers
    have made of it. -/
abbrev Album := List (List Nat)

/-- `take_picture()` hands out a NEW list: what the camera sees when there is a mobility handler,
    nothing otherwise.  Returns the index of the list handed out. -/
def takePicture (p : Provider) (sees : List Nat) (al : Album) : Nat × Album :=
  (al.length, al ++ [if handler? p "mobility" then sees else []])

/-- `CommunicationController.set_transmission_range`: a negative range raises ValueError (before the
    handler is looked at); without a handler the command is ignored. -/
def setRange {S : Type} [Scalar S] (p : Provider) (r : S) : Result :=
  if Scalar.lt r (Scalar.ofInt 0) then ⟨false, false, true⟩
  else if handler? p "communication" then ⟨true, true, true⟩
  else ⟨true, false, true⟩

end Ext

/-! ### the interop wrapper -/

/-- `ConsequenceType` (the numeric values are read off the implementation by the harness) -/
inductive CType
  | communication
  | mobility
  | timer
  | trackVariable
deriving Repr, DecidableEq

/-- a consequence is the tuple (type, payload); the payload is the request itself, unchanged -/
structure Consequence (S : Type) where
  type : CType
  payload : Act S
deriving Repr, DecidableEq

/-- the consequence a successful provider call appends (none for calls that append nothing) -/
def consequenceOf {S : Type} : Act S → Option (Consequence S)
  | .req (.setTimer n t) => some ⟨.timer, .req (.setTimer n t)⟩
  | .req (.cancelTimer _) => none
  | .req (.send m d) => some ⟨.communication, .req (.send m d)⟩
  | .req (.broadcast m) => some ⟨.communication, .req (.broadcast m)⟩
  | .req (.goto p) => some ⟨.mobility, .req (.goto p)⟩
  | .req (.gotoGeo p) => some ⟨.mobility, .req (.gotoGeo p)⟩
  | .req (.setSpeed v) => some ⟨.mobility, .req (.setSpeed v)⟩
  | .req (.setRange _) => none
  | .track k v => some ⟨.trackVariable, .track k v⟩
  | .ext _ => none

/-- `InteropProvider` -/
structure IProv (S : Type) where
  /-- `consequences`, oldest first (Python appends) -/
  consequences : List (Consequence S)
  timestamp : Int
  id : NodeId

/-- does the provider / extension call return normally under interop? -/
def iAccepts {S : Type} [Scalar S] : Act S → Bool
  | .req (.cancelTimer _) => false                                  -- NotImplementedError
  | .req (.setRange r) => (Ext.setRange Ext.Provider.other r).ok    -- ValueError when negative
  | .ext c => (Ext.call Ext.Provider.other c).ok
  | _ => true

/-- one call on the `InteropProvider` (or on an extension built on it) -/
def iHandle {S : Type} [Scalar S] (p : IProv S) (a : Act S) : IProv S × Bool :=
  if iAccepts a then
    match consequenceOf a with
    | some c => ({ p with consequences := p.consequences ++ [c] }, true)
    | none => (p, true)
  else (p, false)

/-- `InteropEncapsulator` with its protocol instance -/
structure IW (S σ : Type) where
  prov : IProv S
  pstate : σ

/-- `InteropEncapsulator()`, `encapsulate`, `set_id` -/
def IW.init {S σ : Type} (P : XProto S σ) (id : NodeId) : IW S σ :=
  { prov := { consequences := [], timestamp := 0, id := id }, pstate := P.init }

/-- what one encapsulator callback shows -/
structure IRes (S : Type) where
  /-- the returned consequence list, `none` when the callback raised instead -/
  ret : Option (List (Consequence S))
  transcript : List (Act S × Bool)
deriving Repr, DecidableEq

/-- `set_timestamp(t)`, then the protocol's callback runs against the provider -/
def icallbackRun {S σ : Type} [Scalar S] (P : XProto S σ) (w : IW S σ) (t : Int) (cb : Callback S) :
    RunRes S σ (IProv S) :=
  (P.react w.pstate w.prov.id t cb).run iHandle { w.prov with timestamp := t }

/-- `return self._collect_consequences()` — which is NOT reached when the protocol lets an
    exception escape -/
def icollect {S σ : Type} (r : RunRes S σ (IProv S)) : IW S σ × IRes S :=
  match r.out with
  | .returned s => ({ prov := { r.env with consequences := [] }, pstate := s },
                    ⟨some r.env.consequences, r.transcript⟩)
  | .raised s => ({ prov := r.env, pstate := s }, ⟨none, r.transcript⟩)

/-- `set_timestamp(t)` followed by one of `initialize / handle_timer / handle_packet /
    handle_telemetry / finish` -/
def icallback {S σ : Type} [Scalar S] (P : XProto S σ) (w : IW S σ) (t : Int) (cb : Callback S) :
    IW S σ × IRes S :=
  icollect (icallbackRun P w t cb)

def irun {S σ : Type} [Scalar S] (P : XProto S σ) :
    IW S σ → List (Int × Callback S) → IW S σ × List (IRes S)
  | w, [] => (w, [])
  | w, (t, cb) :: rest =>
    let r := icallback P w t cb
    let rr := irun P r.1 rest
    (rr.1, r.2 :: rr.2)

/-- the consequences a callback's transcript says were issued -/
def issued {S : Type} (tr : List (Act S × Bool)) : List (Consequence S) :=
  tr.filterMap (fun x => if x.2 then consequenceOf x.1 else none)

/-! ### the python wrapper (forwarding only; the handlers are an arbitrary acceptance oracle) -/

inductive Handler
  | timer
  | communication
  | mobility
deriving Repr, DecidableEq

/-- which handler `PythonProvider` forwards a request to (`none`: not a provider request) -/
def route {S : Type} : Request S → Option Handler
  | .setTimer _ _ => some .timer
  | .cancelTimer _ => some .timer
  | .send _ _ => some .communication
  | .broadcast _ => some .communication
  | .goto _ => some .mobility
  | .gotoGeo _ => some .mobility
  | .setSpeed _ => some .mobility
  | .setRange _ => none

/-- `PythonProvider` with all three handlers present -/
structure PProv (S : Type) where
  /-- every request handed to a handler, oldest first -/
  log : List (Handler × Request S)
  /-- `timer_handler.get_current_time()` -/
  now : Int
  id : NodeId

/-- one call on the `PythonProvider`; `acc` = does the handler return (`true`) or raise -/
def pHandle {S : Type} (acc : PProv S → Act S → Bool) (p : PProv S) (a : Act S) : PProv S × Bool :=
  match a with
  | .req r =>
    match route r with
    | some h => ({ p with log := p.log ++ [(h, r)] }, acc p a)
    | none => (p, acc p a)
  | .track _ _ => (p, true)          -- `tracked_variables` is a plain dict
  | .ext _ => (p, acc p a)

structure PW (S σ : Type) where
  prov : PProv S
  pstate : σ

def PW.init {S σ : Type} (P : XProto S σ) (id : NodeId) : PW S σ :=
  { prov := { log := [], now := 0, id := id }, pstate := P.init }

/-- the protocol's callback runs against the python provider at simulation time `t` -/
def pcallbackRun {S σ : Type} (acc : PProv S → Act S → Bool) (P : XProto S σ) (w : PW S σ) (t : Int)
    (cb : Callback S) : RunRes S σ (PProv S) :=
  (P.react w.pstate w.prov.id t cb).run (pHandle acc) { w.prov with now := t }

/-- one `PythonEncapsulator` callback at simulation time `t` -/
def pcallback {S σ : Type} (acc : PProv S → Act S → Bool) (P : XProto S σ) (w : PW S σ) (t : Int)
    (cb : Callback S) : PW S σ × List (Act S × Bool) :=
  ({ prov := (pcallbackRun acc P w t cb).env, pstate := (pcallbackRun acc P w t cb).out.state },
   (pcallbackRun acc P w t cb).transcript)

def prun {S σ : Type} (acc : PProv S → Act S → Bool) (P : XProto S σ) :
    PW S σ → List (Int × Callback S) → PW S σ × List (List (Act S × Bool))
  | w, [] => (w, [])
  | w, (t, cb) :: rest =>
    let r := pcallback acc P w t cb
    let rr := prun acc P r.1 rest
    (rr.1, r.2 :: rr.2)

/-- the interop consequence a forwarded request corresponds to -/
def fwdConsequence {S : Type} (x : Handler × Request S) : Option (Consequence S) :=
  consequenceOf (.req x.2)

def isTrack {S : Type} (c : Consequence S) : Bool :=
  match c.type with
  | .trackVariable => true
  | _ => false

/-- all consequence lists an interop run returned, concatenated -/
def returnedAll {S : Type} (rs : List (IRes S)) : List (Consequence S) :=
  (rs.filterMap (·.ret)).flatten

/-! ### several wrapped protocol instances alive in one process

  OMNeT++ creates one `InteropEncapsulator` per node, the python simulator one `PythonEncapsulator`
  per node, all from the SAME protocol class and all in one Python process; their callbacks
  interleave.  Every wrapper (provider: pending consequences, clock, id, `tracked_variables`;
  protocol instance) is a value of its own here: a callback of instance `k` reads and writes the
  state of instance `k` only. -/

/-- one wrapper driven through a callback sequence (`irun` and `prun` are instances of this) -/
def runSeq {W R C : Type} (step : W → C → W × R) : W → List C → W × List R
  | w, [] => (w, [])
  | w, c :: rest =>
    let r := step w c
    let rr := runSeq step r.1 rest
    (rr.1, r.2 :: rr.2)

/-- a family of wrappers; each callback is addressed to one of them -/
def runMulti {W R C : Type} (step : W → C → W × R) : (Nat → W) → List (Nat × C) → (Nat → W) × List (Nat × R)
  | ws, [] => (ws, [])
  | ws, (k, c) :: rest =>
    let r := step (ws k) c
    let rr := runMulti step (fun j => if j = k then r.1 else ws j) rest
    (rr.1, (k, r.2) :: rr.2)

/-- the callbacks addressed to instance `k`, in order -/
def stepsOf {C : Type} (k : Nat) (steps : List (Nat × C)) : List C :=
  (steps.filter (fun x => x.1 == k)).map (·.2)

/-- the results of the callbacks of instance `k`, in order -/
def resultsOf {R : Type} (k : Nat) (rs : List (Nat × R)) : List R :=
  (rs.filter (fun x => x.1 == k)).map (·.2)

def istep {S σ : Type} [Scalar S] (P : XProto S σ) (w : IW S σ) (c : Int × Callback S) : IW S σ × IRes S :=
  icallback P w c.1 c.2

def pstep {S σ : Type} (acc : PProv S → Act S → Bool) (P : XProto S σ) (w : PW S σ) (c : Int × Callback S) :
    PW S σ × List (Act S × Bool) :=
  pcallback acc P w c.1 c.2

/-- several interop-wrapped instances of one protocol class, callbacks interleaved -/
def irunMulti {S σ : Type} [Scalar S] (P : XProto S σ) :
    (Nat → IW S σ) → List (Nat × Int × Callback S) → (Nat → IW S σ) × List (Nat × IRes S) :=
  runMulti (istep P)

/-- several python-wrapped instances of one protocol class, callbacks interleaved -/
def prunMulti {S σ : Type} (acc : PProv S → Act S → Bool) (P : XProto S σ) :
    (Nat → PW S σ) → List (Nat × Int × Callback S) → (Nat → PW S σ) × List (Nat × List (Act S × Bool)) :=
  runMulti (pstep acc P)

end Interop
