import GradysProofs.Properties.C01
import GradysProofs.Properties.C02
import GradysProofs.Properties.C03
import GradysProofs.Properties.C16
