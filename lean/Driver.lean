import Driver.Main
